(* C16 - the session invariant of Model/HttpReq.v and the property theorems.
   (F) tokens and constants, (G) the request invariant [req_ok] and its
   preservation by every operation of web.py / request.py / cookiewrapper.py /
   processor/web.py, (H) one hop, (I) induction over the hop list, (J) the
   statements cited by Props/C16.v.
   Proof discipline: no [simpl]; [cbn] only with a name list; every [if] is
   destructed once, by name. *)
From Coq Require Import List NArith Bool Lia Arith ZifyBool ZifyNat ZifyN.
From Wpull Require Import Lib.Hex Model.HttpReq Spec.HttpWire Proofs.HttpReqProofs.
Import ListNotations.
Open Scope bool_scope.
Open Scope N_scope.

Notation wf := nvr_wf.

(* ------------------------------------------------------------------ *)
(* (F) tokens                                                           *)
(* ------------------------------------------------------------------ *)
Definition token_b (s : str) : bool :=
  nonempty s && forallb (fun ch => (32 <? ch) && (ch <? 127) && negb (ch =? 58)) s.

Lemma token_b_ok s : token_b s = true -> token s.
Proof.
  unfold token_b, token. intros H. apply andb_true_iff in H. destruct H as [H1 H2]. split.
  - destruct s; [discriminate | discriminate].
  - rewrite forallb_forall in H2. apply Forall_forall. intros x Hx. specialize (H2 x Hx). lia.
Qed.

Definition fname_b (s : str) : bool :=
  token_b s && forallb (fun k => implb (ci_eq s k) (str_eqb s k)) derived_names.

Lemma fname_b_ok s : fname_b s = true -> fname s.
Proof.
  unfold fname_b, fname. intros H. apply andb_true_iff in H. destruct H as [H1 H2].
  split; [now apply token_b_ok|]. intros k Hk Hci. rewrite forallb_forall in H2. specialize (H2 k Hk).
  rewrite Hci in H2. cbn [implb] in H2. now apply str_eqb_eq.
Qed.

Lemma token_clean n : token n -> clean n.
Proof. intros [_ H]. unfold clean. revert H. apply Forall_impl. intros a Ha. lia. Qed.

Lemma fname_clean n : fname n -> clean n.
Proof. intros [H _]. now apply token_clean. Qed.

Lemma tok_Host : fname s_Host. Proof. apply fname_b_ok. reflexivity. Qed.
Lemma tok_Cookie : fname s_Cookie. Proof. apply fname_b_ok. reflexivity. Qed.
Lemma tok_Authorization : fname s_Authorization. Proof. apply fname_b_ok. reflexivity. Qed.
Lemma tok_Referer : fname s_Referer. Proof. apply fname_b_ok. reflexivity. Qed.
Lemma tok_Connection : fname s_Connection. Proof. apply fname_b_ok. reflexivity. Qed.
Lemma tok_Content_Type : fname s_Content_Type. Proof. apply fname_b_ok. reflexivity. Qed.
Lemma tok_Content_Length : fname s_Content_Length. Proof. apply fname_b_ok. reflexivity. Qed.

Lemma lacks_get_list n f : lacks n f -> nv_get_list n f = [].
Proof.
  intros H. destruct (nv_get_list n f) as [|v l] eqn:E; [reflexivity|].
  exfalso. apply (H v). apply get_list_in. rewrite E. now left.
Qed.

Lemma get_list_nil_contains n f : nv_get_list n f = [] -> nv_contains n f = false.
Proof.
  unfold nv_get_list, nv_contains, nv_get. destruct (nv_find n f) as [[|v vs]|]; intros H;
    [reflexivity | discriminate | reflexivity].
Qed.

Lemma contains_get_list n f : nv_contains n f = true -> exists v l, nv_get_list n f = v :: l.
Proof.
  unfold nv_get_list, nv_contains, nv_get. destruct (nv_find n f) as [[|v vs]|]; intros H;
    [discriminate | now exists v, vs | discriminate].
Qed.

Lemma contains_false_get_list n f : nv_contains n f = false -> nv_get_list n f = [].
Proof.
  unfold nv_get_list, nv_contains, nv_get. destruct (nv_find n f) as [[|v vs]|]; intros H;
    [reflexivity | discriminate | reflexivity].
Qed.

Lemma tok_set n v f : fields_tok f -> fname n -> no_crlf v -> fields_tok (nv_set n v f).
Proof.
  intros Htok Hn Hv m w H. apply in_get_all_set in H.
  destruct H as [[-> ->]|H]; [now split | now apply (Htok m w)].
Qed.

(* the nine parts of [req_ok], in order: wf, fields_tok, cred_src, ref_ok, url_clean, Host values,
   Host count, Authorization values, Cookie values *)
Ltac split_req := split; [split; [|split; [|split]]| split; [|split; [|split; [|split]]]].

(* ------------------------------------------------------------------ *)
(* (G) the request invariant                                            *)
(* ------------------------------------------------------------------ *)
Section Inv.
  Variable c : cfg.
  Variable jar : nat -> urlc -> jans.
  Variable login : option (str * str).
  Variable parent : option urlc.
  Hypothesis Hbase : base_ok (c_base c).
  Hypothesis Hjar : jar_ok jar.

  (* where request.username / request.password come from *)
  Definition cred_src (q : req) : Prop :=
    login = Some (q_user q, q_pass q) \/ (q_user q = [] /\ q_pass q = []).

  (* what is kept as _original_request: only its shape matters, because the three
     URL-dependent fields are re-derived when it is replayed *)
  (* where a Referer value comes from: the request factory (--referer / --header), or
     _add_referrer for the parent URL of this fetch *)
  Definition ref_ok (f : nvr) : Prop :=
    forall v, In v (nv_get_list s_Referer f) ->
              In v (nv_get_list s_Referer (c_base c)) \/ exists p, parent = Some p /\ v = referrer_of p.

  Definition orig_ok (q : req) : Prop :=
    wf (q_fields q) /\ fields_tok (q_fields q) /\ cred_src q /\ ref_ok (q_fields q).

  (* a request that is (about to be) sent for its URL *)
  Definition req_ok (q : req) : Prop :=
    orig_ok q /\ url_clean (q_url q)
    /\ (forall v, In v (nv_get_list s_Host (q_fields q)) -> v = hostname_with_port (q_url q))
    /\ (length (nv_get_list s_Host (q_fields q)) <= 1)%nat
    /\ (forall v, In v (nv_get_list s_Authorization (q_fields q)) -> own_credentials login (q_url q) v)
    /\ (forall v, In v (nv_get_list s_Cookie (q_fields q)) -> exists t, jar t (q_url q) = JSome v).

  Lemma req_ok_orig q : req_ok q -> orig_ok q.
  Proof. now intros [H _]. Qed.

  (* setting a field that is none of Host / Authorization / Cookie *)
  Lemma req_ok_set_other q n v :
    req_ok q -> fname n -> no_crlf v ->
    str_eqb n s_Host = false -> str_eqb n s_Authorization = false -> str_eqb n s_Cookie = false ->
    (str_eqb n s_Referer = false \/ exists p, parent = Some p /\ v = referrer_of p) ->
    req_ok (with_fields q (nv_set n v (q_fields q))).
  Proof.
    intros ((Hwf & Htok & Hcs & Hrf) & Hu & Hh & Hl & Ha & Hc) Hn Hv E1 E2 E3 E4.
    unfold req_ok, orig_ok, cred_src, ref_ok. cbn [with_fields q_fields q_url q_user q_pass].
    rewrite !get_list_set, E1, E2, E3.
    split_req; try assumption.
    - now apply wf_set.
    - now apply tok_set.
    - destruct E4 as [E4|E4]; [rewrite E4; exact Hrf|].
      destruct (str_eqb n s_Referer); [|exact Hrf]. intros w [<-|[]]. now right.
  Qed.

  (* _add_basic_auth_header *)
  Lemma req_ok_add_basic_auth q : req_ok q -> req_ok (add_basic_auth q).
  Proof.
    intros H. unfold add_basic_auth.
    destruct (nonempty (pick (u_user (q_url q)) (q_user q)) && nonempty (pick (u_pass (q_url q)) (q_pass q)));
      [|assumption].
    destruct H as ((Hwf & Htok & Hcs & Hrf) & Hu & Hh & Hl & Ha & Hc).
    unfold req_ok, orig_ok, cred_src, ref_ok. cbn [with_fields q_fields q_url q_user q_pass].
    rewrite !get_list_set, str_eqb_refl.
    replace (str_eqb s_Authorization s_Host) with false by reflexivity.
    replace (str_eqb s_Authorization s_Cookie) with false by reflexivity.
    replace (str_eqb s_Authorization s_Referer) with false by reflexivity.
    split_req; try assumption.
    - now apply wf_set.
    - apply tok_set; [assumption | apply tok_Authorization | apply basic_value_no_crlf].
    - intros v [<-|[]]. exists (q_user q), (q_pass q). split; [|reflexivity].
      destruct Hcs as [Hcs|[H1 H2]]; [now left | right; now split].
  Qed.

  (* Request.prepare_for_send: afterwards there is exactly one Host value, that of the URL *)
  Lemma req_ok_prepare q :
    req_ok q ->
    req_ok (prepare_for_send q)
    /\ nv_get_list s_Host (q_fields (prepare_for_send q)) = [hostname_with_port (q_url q)]
    /\ q_url (prepare_for_send q) = q_url q.
  Proof.
    intros H. unfold prepare_for_send. destruct (nv_contains s_Host (q_fields q)) eqn:E.
    - split; [assumption|]. split; [|reflexivity].
      destruct H as (_ & _ & Hh & Hl & _).
      apply contains_get_list in E. destruct E as (v & l & E). rewrite E in Hh, Hl |- *.
      destruct l as [|w l]; [|cbn [length] in Hl; lia].
      now rewrite (Hh v (or_introl eq_refl)).
    - pose proof (contains_false_get_list _ _ E) as E0.
      destruct H as ((Hwf & Htok & Hcs & Hrf) & Hu & Hh & Hl & Ha & Hc).
      unfold req_ok, orig_ok, cred_src, ref_ok. cbn [with_fields q_fields q_url q_user q_pass].
      rewrite !get_list_set, str_eqb_refl.
      replace (str_eqb s_Host s_Authorization) with false by reflexivity.
      replace (str_eqb s_Host s_Cookie) with false by reflexivity.
      replace (str_eqb s_Host s_Referer) with false by reflexivity.
      split; [split_req; try assumption | split; reflexivity].
      + now apply wf_set.
      + apply tok_set; [assumption | apply tok_Host | apply clean_no_crlf, clean_hwp; assumption].
      + intros v [<-|[]]. reflexivity.
      + cbn [length]. lia.
  Qed.

  (* Stream.write_request *)
  Lemma req_ok_write_request b q :
    req_ok q ->
    req_ok (write_request b q)
    /\ nv_get_list s_Host (q_fields (write_request b q)) = [hostname_with_port (q_url q)]
    /\ q_url (write_request b q) = q_url q.
  Proof.
    intros H. unfold write_request. cbv zeta.
    destruct (req_ok_prepare q H) as (H1 & H2 & H3).
    destruct b; [|split; [assumption | split; assumption]].
    split; [|split].
    - apply req_ok_set_other; try assumption; try reflexivity.
      + apply tok_Connection.
      + apply no_crlf_b_ok. reflexivity.
      + left. reflexivity.
    - cbn [with_fields q_fields]. rewrite get_list_set.
      replace (str_eqb s_Connection s_Host) with false by reflexivity. assumption.
    - cbn [with_fields q_url]. assumption.
  Qed.

  (* CookieJarWrapper.add_cookie_header *)
  Lemma req_ok_glue q t ans :
    req_ok q ->
    (forall v, ans = Some v -> jar t (q_url q) = JSome v) ->
    req_ok (with_fields q (cookie_glue ans (q_fields q))).
  Proof.
    intros ((Hwf & Htok & Hcs & Hrf) & Hu & Hh & Hl & Ha & Hc) Hans.
    assert (Hin : forall k v, In v (nv_get_list k (cookie_glue ans (q_fields q))) ->
                              In v (nv_get_list k (q_fields q)) \/ (k = s_Cookie /\ ans = Some v)).
    { intros k v Hv. apply get_list_in in Hv. apply in_glue in Hv. destruct Hv as [Hv|[-> Hv]].
      - left. now apply wf_in_get_list.
      - right. now split. }
    unfold req_ok, orig_ok, cred_src, ref_ok. cbn [with_fields q_fields q_url q_user q_pass].
    split_req; try assumption.
    - apply wf_glue.
    - intros n v H. apply in_glue in H. destruct H as [H|[-> H]]; [now apply (Htok n v)|].
      split; [apply tok_Cookie|]. apply (Hjar t (q_url q) v). now apply Hans.
    - intros v Hv. apply Hin in Hv. destruct Hv as [Hv|[Hv _]]; [now apply Hrf | discriminate Hv].
    - intros v Hv. apply Hin in Hv. destruct Hv as [Hv|[Hv _]]; [now apply Hh | discriminate Hv].
    - apply glue_single.
    - intros v Hv. apply Hin in Hv. destruct Hv as [Hv|[Hv _]]; [now apply Ha | discriminate Hv].
    - intros v Hv. apply Hin in Hv. destruct Hv as [Hv|[_ Hv]]; [now apply Hc|].
      exists t. now apply Hans.
  Qed.

  Lemma req_ok_add_cookies t q q' :
    req_ok q -> add_cookies jar t q = Some q' -> req_ok q' /\ q_url q' = q_url q.
  Proof.
    intros H. unfold add_cookies. destruct (jar t (q_url q)) as [|v|] eqn:E; intros E'; inversion E'; subst.
    - split; [|reflexivity]. apply (req_ok_glue q t None H). intros v Hv. discriminate.
    - split; [|reflexivity]. apply (req_ok_glue q t (Some v) H). intros w Hw. inversion Hw; subst. assumption.
  Qed.

  (* a request made by the request factory *)
  Lemma req_ok_fresh u : url_clean u -> req_ok (fresh (c_base c) u).
  Proof.
    intros Hu. destruct Hbase as (Hwf & Htok & HH & HC & HA).
    unfold req_ok, orig_ok, cred_src, ref_ok, fresh. cbn [q_fields q_url q_user q_pass].
    rewrite (lacks_get_list _ _ HH), (lacks_get_list _ _ HC), (lacks_get_list _ _ HA).
    split_req; try assumption; try (intros v Hv; exact (match Hv with end)).
    - right. now split.
    - intros v Hv. now left.
    - cbn [length]. lia.
  Qed.

  (* _process_redirect, repeat branch *)
  Lemma reset_field_pop n f : lacks n (c_base c) -> reset_field c n f = nv_pop n f.
  Proof. intros H. unfold reset_field. now rewrite (lacks_get_list _ _ H). Qed.

  Lemma req_ok_repeat o u : orig_ok o -> url_clean u -> req_ok (repeat_request c o u) /\ q_url (repeat_request c o u) = u.
  Proof.
    intros (Hwf & Htok & Hcs & Hrf) Hu. destruct Hbase as (_ & _ & HH & HC & HA).
    unfold repeat_request. cbv zeta. cbn [with_url with_fields q_fields q_url q_user q_pass].
    split; [|reflexivity].
    rewrite (reset_field_pop _ _ HH), (reset_field_pop _ _ HC), (reset_field_pop _ _ HA).
    set (f1 := nv_pop s_Host (q_fields o)).
    set (f2 := nv_pop s_Cookie f1).
    set (f3 := nv_pop s_Authorization f2).
    assert (W1 : wf f1) by now apply wf_pop.
    assert (W2 : wf f2) by now apply wf_pop.
    assert (W3 : wf f3) by now apply wf_pop.
    assert (Hsub : forall m w, In (m, w) (nv_get_all f3) -> In (m, w) (nv_get_all (q_fields o))).
    { intros m w H. apply (in_get_all_pop _ _ _ _ W2) in H. destruct H as [_ H].
      apply (in_get_all_pop _ _ _ _ W1) in H. destruct H as [_ H].
      apply (in_get_all_pop _ _ _ _ Hwf) in H. now destruct H. }
    assert (EA : nv_get_list s_Authorization f3 = []) by apply get_list_pop_same.
    assert (EC : nv_get_list s_Cookie f3 = []).
    { unfold f3. rewrite get_list_pop. replace (str_eqb s_Authorization s_Cookie) with false by reflexivity.
      apply get_list_pop_same. }
    assert (EH : nv_get_list s_Host f3 = []).
    { unfold f3. rewrite get_list_pop. replace (str_eqb s_Authorization s_Host) with false by reflexivity.
      unfold f2. rewrite get_list_pop. replace (str_eqb s_Cookie s_Host) with false by reflexivity.
      apply get_list_pop_same. }
    unfold req_ok, orig_ok, cred_src, ref_ok. cbn [with_url with_fields q_fields q_url q_user q_pass].
    rewrite EA, EC, EH.
    split_req; try assumption; try (intros v Hv; exact (match Hv with end)).
    - intros n v H. apply Hsub in H. now apply (Htok n v).
    - intros v Hv. apply Hrf. apply wf_in_get_list; [assumption|]. apply Hsub. now apply get_list_in.
    - cbn [length]. lia.
  Qed.

  (* processor/web.py: the first request *)
  Lemma req_ok_initial u post :
    url_clean u -> parent_ok parent ->
    req_ok (initial_request (c_base c) u parent login post)
    /\ q_url (initial_request (c_base c) u parent login post) = u.
  Proof.
    intros Hu Hp. pose proof (req_ok_fresh u Hu) as H0.
    assert (H1 : forall p, parent = Some p -> url_clean p ->
                           req_ok (add_referrer p (fresh (c_base c) u))
                           /\ q_url (add_referrer p (fresh (c_base c) u)) = u).
    { intros p Ep Hpc. unfold add_referrer.
      destruct (str_eqb (u_scheme p) s_https && str_eqb (u_scheme (q_url (fresh (c_base c) u))) s_http);
        [now split|].
      split; [|reflexivity].
      apply req_ok_set_other; try assumption; try reflexivity.
      - apply tok_Referer.
      - apply clean_no_crlf, clean_referrer_of. assumption.
      - right. exists p. split; [assumption | reflexivity]. }
    assert (H2 : req_ok (populate_common parent login (fresh (c_base c) u))
                 /\ q_url (populate_common parent login (fresh (c_base c) u)) = u).
    { unfold populate_common.
      set (q1 := match parent with
                 | Some p => match nv_get s_Referer (q_fields (fresh (c_base c) u)) with
                             | Some (_ :: _) => fresh (c_base c) u
                             | _ => add_referrer p (fresh (c_base c) u)
                             end
                 | None => fresh (c_base c) u
                 end).
      assert (Hq1 : req_ok q1 /\ q_url q1 = u).
      { unfold q1. unfold parent_ok in Hp. destruct parent as [p|] eqn:Ep; [|now split].
        destruct (nv_get s_Referer (q_fields (fresh (c_base c) u))) as [[|x l]|];
          [now apply H1 | now split | now apply H1]. }
      destruct Hq1 as [Hq1 Hq1u].
      destruct login as [[lu lp]|] eqn:El; [|now split].
      split; [|exact Hq1u].
      destruct Hq1 as ((Hwf & Htok & Hcs & Hrf) & Hu' & Hh & Hl & Ha & Hc).
      unfold req_ok, orig_ok, cred_src, ref_ok. cbn [q_fields q_url q_user q_pass].
      split_req; try assumption. left. exact El. }
    destruct H2 as [H2 H2u].
    unfold initial_request. cbv zeta. destruct post as [len|]; [|now split].
    unfold add_post_data. split; [|exact H2u].
    set (q := populate_common parent login (fresh (c_base c) u)) in *.
    pose proof (req_ok_set_other q s_Content_Type s_form H2 tok_Content_Type) as H3.
    assert (Hform : no_crlf s_form) by (apply no_crlf_b_ok; reflexivity).
    specialize (H3 Hform eq_refl eq_refl eq_refl (or_introl eq_refl)).
    pose proof (req_ok_set_other _ s_Content_Length (dec len) H3 tok_Content_Length
                  (clean_no_crlf _ (clean_dec len)) eq_refl eq_refl eq_refl (or_introl eq_refl)) as H4.
    cbn [with_fields q_fields q_url q_user q_pass] in H4.
    destruct H4 as ((Hwf & Htok & Hcs & Hrf) & Hu' & Hh & Hl & Ha & Hc).
    unfold req_ok, orig_ok, cred_src, ref_ok. cbn [q_fields q_url q_user q_pass].
    split_req; assumption.
  Qed.

  (* ------------------------------------------------------------------ *)
  (* (H) the session invariant and one hop                                *)
  (* ------------------------------------------------------------------ *)
  Definition sess_ok (s : sess) : Prop :=
    orig_ok (ss_orig s) /\ forall q, cur s = Some q -> req_ok q.

  Lemma cur_upd s q : cur (upd s q) = Some q.
  Proof. unfold cur, upd. destruct (ss_next s); reflexivity. Qed.

  Lemma sess_ok_upd s q : sess_ok s -> req_ok q -> sess_ok (upd s q).
  Proof.
    intros [Ho Hc] Hq. split.
    - unfold upd. destruct (ss_next s); cbn [ss_orig]; [now apply req_ok_orig | assumption | assumption].
    - rewrite cur_upd. intros q' E. inversion E; subst. assumption.
  Qed.

  (* what one request of a fetch must satisfy *)
  Definition sent_ok (sn : sent) : Prop :=
    sn_url sn = q_url (sn_req sn)
    /\ sn_bytes sn = to_bytes (sn_full sn) (sn_req sn)
    /\ req_ok (sn_req sn)
    /\ nv_get_list s_Host (q_fields (sn_req sn)) = [hostname_with_port (sn_url sn)].

  (* the URL of the request after this one *)
  Definition next_url (u : urlc) (r : resp) : urlc :=
    match r_loc r with
    | LocUrl u' => if is_redirect (r_status r) then u' else u
    | _ => u
    end.

  Definition loc_ok (r : resp) : Prop :=
    match r_loc r with LocUrl u => url_clean u | _ => True end.

  Definition after_ok (u : urlc) (o : outcome) : Prop :=
    match o with
    | OSess s' => sess_ok s' /\ forall q', cur s' = Some q' -> q_url q' = u
    | OErr _ => True
    end.

  Lemma cookies_after_ok s s' u :
    sess_ok s -> (forall q, cur s = Some q -> q_url q = u) ->
    cookies_after c jar s = Some s' ->
    sess_ok s' /\ forall q', cur s' = Some q' -> q_url q' = u.
  Proof.
    intros Hs Hu. unfold cookies_after.
    destruct (c_use_jar c); [|intros E; inversion E; subst; now split].
    destruct (cur s) as [q|] eqn:Ec; [|intros E; inversion E; subst; rewrite Ec; split; [assumption | discriminate]].
    destruct (add_cookies jar (ss_t s) q) as [q'|] eqn:Ea; [|discriminate].
    intros E. inversion E; subst. clear E. cbv zeta.
    destruct (req_ok_add_cookies _ _ _ (proj2 Hs q Ec) Ea) as [Hq' Hq'u].
    pose proof (sess_ok_upd s q' Hs Hq') as [Ho Hc].
    pose proof (cur_upd s q') as Hcu.
    split; [split|].
    - exact Ho.
    - intros q0 E0. apply Hc. exact E0.
    - intros q0 E0. unfold cur in E0, Hcu. cbn [ss_next ss_orig] in E0.
      change (match ss_next (upd s q') with NOrig => Some (ss_orig (upd s q')) | NOther q1 => Some q1 | NDone => None end = Some q0) in E0.
      rewrite Hcu in E0. inversion E0; subst. rewrite Hq'u. now apply Hu.
  Qed.

  Lemma finish_ok r sn s u sn' o :
    sess_ok s -> (forall q, cur s = Some q -> q_url q = u) ->
    finish c jar r sn s = (sn', o) -> sn' = sn /\ after_ok u o.
  Proof.
    intros Hs Hu. unfold finish.
    destruct (c_use_jar c && r_xraise r); [intros E'; inversion E'; subst; split; [reflexivity | exact I]|].
    destruct (cookies_after c jar s) as [s'|] eqn:E; intros E'; inversion E'; subst.
    - split; [reflexivity|]. cbn [after_ok]. now apply (cookies_after_ok s s' u).
    - split; [reflexivity | exact I].
  Qed.

  (* the request that start() writes *)
  Definition hop_q2 (s : sess) (q : req) : req :=
    write_request (c_ignore_length c)
      (if nonempty (u_pass (q_url q)) || existsb (str_eqb (hostname_with_port (q_url q))) (ss_auths s)
       then add_basic_auth q else q).

  Lemma hop_q2_ok s q :
    req_ok q ->
    req_ok (hop_q2 s q)
    /\ nv_get_list s_Host (q_fields (hop_q2 s q)) = [hostname_with_port (q_url q)]
    /\ q_url (hop_q2 s q) = q_url q.
  Proof.
    intros H. unfold hop_q2.
    destruct (nonempty (u_pass (q_url q)) || existsb (str_eqb (hostname_with_port (q_url q))) (ss_auths s)).
    - pose proof (req_ok_write_request (c_ignore_length c) _ (req_ok_add_basic_auth q H)) as H'.
      assert (E : q_url (add_basic_auth q) = q_url q).
      { unfold add_basic_auth. destruct (_ && _); reflexivity. }
      rewrite E in H'. exact H'.
    - now apply req_ok_write_request.
  Qed.

  (* everything after the write, with the written request as a parameter *)
  Definition hop_rest (s : sess) (q2 : req) (r : resp) : sent * outcome :=
    let sn := {| sn_url := q_url q2; sn_full := r_full r; sn_req := q2; sn_bytes := to_bytes (r_full r) q2 |} in
    let s1 := upd s q2 in
    let n' := match r_loc r with LocNone => ss_nredir s1 | _ => ss_nredir s1 + 1 end in
    if is_redirect (r_status r) then
      if c_max_redirects c <? n' then (sn, OErr ERR_TOO_MANY)
      else
        let copy_fails := is_repeat (r_status r) && q_post (ss_orig s1) && c_copy_body_fails c in
        match r_loc r with
        | LocNone => (sn, OErr ERR_LOC_INVALID)
        | LocBadJoin => (sn, OErr ERR_LOC_INVALID)
        | LocBadParse => (sn, OErr (if copy_fails then ERR_COPY else ERR_LOC_INVALID))
        | LocUrl u =>
            if copy_fails then (sn, OErr ERR_COPY) else
            let nq := if is_repeat (r_status r) then repeat_request c (ss_orig s1) u else fresh (c_base c) u in
            let nq := prepare_for_send nq in
            finish c jar r sn (
                          {| ss_orig := ss_orig s1; ss_next := NOther nq; ss_loop_auth := false;
                             ss_auths := ss_auths s1; ss_nredir := n'; ss_t := ss_t s1 |})
        end
    else if (r_status r =? 401) && nonempty (q_pass q2) then
      if ss_loop_auth s1 then
        finish c jar r sn (
                      {| ss_orig := ss_orig s1; ss_next := NDone; ss_loop_auth := false;
                         ss_auths := ss_auths s1; ss_nredir := n'; ss_t := ss_t s1 |})
      else
        let s2 := upd s1 (add_basic_auth q2) in
        finish c jar r sn (
                      {| ss_orig := ss_orig s2; ss_next := ss_next s2; ss_loop_auth := true;
                         ss_auths := hostname_with_port (q_url q2) :: ss_auths s2;
                         ss_nredir := n'; ss_t := ss_t s2 |})
    else
      finish c jar r sn (
                    {| ss_orig := ss_orig s1; ss_next := NDone; ss_loop_auth := false;
                       ss_auths := ss_auths s1; ss_nredir := n'; ss_t := ss_t s1 |}).

  Lemma hop_split s q r : hop c jar s q r = hop_rest s (hop_q2 s q) r.
  Proof. reflexivity. Qed.

  Lemma hop_rest_ok s q2 r sn o :
    sess_ok s -> req_ok q2 -> loc_ok r ->
    hop_rest s q2 r = (sn, o) ->
    sn = {| sn_url := q_url q2; sn_full := r_full r; sn_req := q2; sn_bytes := to_bytes (r_full r) q2 |}
    /\ after_ok (next_url (q_url q2) r) o.
  Proof.
    intros Hs Hq2 Hloc. unfold hop_rest. cbv zeta.
    pose proof (sess_ok_upd s q2 Hs Hq2) as Hs1.
    pose proof (cur_upd s q2) as Hc1.
    set (s1 := upd s q2) in *.
    set (sn0 := {| sn_url := q_url q2; sn_full := r_full r; sn_req := q2; sn_bytes := to_bytes (r_full r) q2 |}).
    set (n' := match r_loc r with LocNone => ss_nredir s1 | _ => ss_nredir s1 + 1 end).
    unfold next_url, loc_ok in *.
    destruct (is_redirect (r_status r)) eqn:Hred.
    - destruct (c_max_redirects c <? n'); [intros E; inversion E; subst; now split|].
      destruct (r_loc r) as [| | |u] eqn:Hl; try (intros E; inversion E; subst; now split).
      destruct (is_repeat (r_status r) && q_post (ss_orig s1) && c_copy_body_fails c);
        [intros E; inversion E; subst; now split|].
      set (nq0 := if is_repeat (r_status r) then repeat_request c (ss_orig s1) u else fresh (c_base c) u).
      assert (Hnq0 : req_ok nq0 /\ q_url nq0 = u).
      { unfold nq0. destruct (is_repeat (r_status r)).
        - apply req_ok_repeat; [exact (proj1 Hs1) | assumption].
        - split; [now apply req_ok_fresh | reflexivity]. }
      destruct Hnq0 as [Hnq0 Hnq0u].
      destruct (req_ok_prepare nq0 Hnq0) as (Hnq & _ & Hnqu).
      intros E. apply (finish_ok _ _ _ u) in E; [exact E| |].
      + split; [exact (proj1 Hs1)|]. cbn [cur ss_next]. intros q' E'. injection E' as <-. exact Hnq.
      + cbn [cur ss_next]. intros q' E'. injection E' as <-. now rewrite Hnqu.
    - assert (Hnu : match r_loc r with LocUrl _ => q_url q2 | _ => q_url q2 end = q_url q2)
        by (destruct (r_loc r); reflexivity).
      assert (Hnu' : match r_loc r with LocUrl u' => q_url q2 | _ => q_url q2 end
                     = match r_loc r with LocUrl u' => q_url q2 | LocNone => q_url q2 | LocBadJoin => q_url q2 | LocBadParse => q_url q2 end)
        by reflexivity.
      replace (match r_loc r with LocUrl _ => q_url q2 | _ => q_url q2 end) with (q_url q2)
        by (destruct (r_loc r); reflexivity).
      destruct ((r_status r =? 401) && nonempty (q_pass q2)).
      + destruct (ss_loop_auth s1).
        * intros E. apply (finish_ok _ _ _ (q_url q2)) in E; [exact E| |].
          -- split; [exact (proj1 Hs1)|]. cbn [cur ss_next]. intros q' E'. discriminate.
          -- cbn [cur ss_next]. intros q' E'. discriminate.
        * pose proof (req_ok_add_basic_auth q2 Hq2) as Hq3.
          pose proof (sess_ok_upd s1 _ Hs1 Hq3) as Hs2.
          pose proof (cur_upd s1 (add_basic_auth q2)) as Hc2.
          set (s2 := upd s1 (add_basic_auth q2)) in *.
          assert (Hq3u : q_url (add_basic_auth q2) = q_url q2).
          { unfold add_basic_auth. destruct (_ && _); reflexivity. }
          intros E. apply (finish_ok _ _ _ (q_url q2)) in E; [exact E| |].
          -- split; [exact (proj1 Hs2)|]. unfold cur in *. cbn [ss_next ss_orig]. rewrite Hc2.
             intros q' E'. injection E' as <-. exact Hq3.
          -- unfold cur in *. cbn [ss_next ss_orig]. rewrite Hc2.
             intros q' E'. injection E' as <-. exact Hq3u.
      + intros E. apply (finish_ok _ _ _ (q_url q2)) in E; [exact E| |].
        * split; [exact (proj1 Hs1)|]. cbn [cur ss_next]. intros q' E'. discriminate.
        * cbn [cur ss_next]. intros q' E'. discriminate.
  Qed.

  Lemma hop_ok s q r sn o :
    sess_ok s -> cur s = Some q -> loc_ok r ->
    hop c jar s q r = (sn, o) ->
    sent_ok sn /\ sn_url sn = q_url q /\ sn_full sn = r_full r /\ after_ok (next_url (q_url q) r) o.
  Proof.
    intros Hs Hc Hl. rewrite hop_split.
    destruct (hop_q2_ok s q (proj2 Hs q Hc)) as (H2 & H2h & H2u).
    intros E. apply hop_rest_ok in E; try assumption.
    destruct E as [-> Ha]. rewrite H2u in Ha.
    unfold sent_ok. cbn [sn_url sn_full sn_req sn_bytes]. rewrite H2u.
    split; [split; [reflexivity | split; [reflexivity | split; [exact H2 | exact H2h]]]|].
    split; [reflexivity|]. split; [reflexivity | exact Ha].
  Qed.

  (* ------------------------------------------------------------------ *)
  (* (I) the whole fetch                                                  *)
  (* ------------------------------------------------------------------ *)
  Lemma run_ok rs : forall s q,
    sess_ok s -> cur s = Some q -> Forall loc_ok rs ->
    Forall sent_ok (fst (run c jar s rs))
    /\ map sn_url (fst (run c jar s rs)) = firstn (length (fst (run c jar s rs))) (hop_urls (q_url q) rs)
    /\ map sn_full (fst (run c jar s rs)) = firstn (length (fst (run c jar s rs))) (hop_full rs).
  Proof.
    induction rs as [|r rs IH]; intros s q Hs Hc Hl.
    - cbn [run fst]. repeat split; constructor.
    - cbn [run]. rewrite Hc.
      inversion Hl as [|? ? Hr Hrs]; subst.
      destruct (hop c jar s q r) as [sn o] eqn:Eh.
      destruct (hop_ok s q r sn o Hs Hc Hr Eh) as (Hsn & Hsnu & Hsnf & Ha).
      destruct o as [s'|e].
      + destruct Ha as [Hs' Hu'].
        replace (fst (let (l, e) := run c jar s' rs in (sn :: l, e))) with (sn :: fst (run c jar s' rs))
          by (destruct (run c jar s' rs); reflexivity).
        destruct (cur s') as [q'|] eqn:Ec'.
        * specialize (IH s' q' Hs' Ec' Hrs). destruct IH as (IH1 & IH2 & IH3).
          split; [now constructor|].
          cbn [map length hop_urls hop_full firstn]. fold (hop_full rs).
          rewrite IH2, IH3, Hsnu, Hsnf. rewrite (Hu' q' eq_refl). unfold next_url. now split.
        * assert (Er : fst (run c jar s' rs) = []).
          { destruct rs as [|r' rs']; cbn [run]; rewrite Ec'; reflexivity. }
          rewrite Er.
          split; [constructor; [exact Hsn | constructor]|].
          cbn [map length hop_urls hop_full firstn]. now rewrite Hsnu, Hsnf.
      + cbn [fst]. split; [constructor; [exact Hsn | constructor]|].
        cbn [map length hop_urls hop_full firstn]. now rewrite Hsnu, Hsnf.
  Qed.

  Lemma fetch_ok u post rs :
    url_clean u -> parent_ok parent -> chain_urls url_clean rs ->
    let sents := fst (fetch c jar u parent login post rs) in
    Forall sent_ok sents
    /\ map sn_url sents = firstn (length sents) (hop_urls u rs)
    /\ map sn_full sents = firstn (length sents) (hop_full rs).
  Proof.
    intros Hu Hp Hrs. cbv zeta. unfold fetch.
    destruct (req_ok_initial u post Hu Hp) as [Hq Hqu].
    set (q0 := initial_request (c_base c) u parent login post) in *.
    assert (Hl : Forall loc_ok rs).
    { unfold chain_urls in Hrs. revert Hrs. apply Forall_impl. intros r Hr. exact Hr. }
    unfold sess_init. destruct (c_use_jar c).
    - destruct (add_cookies jar 0 q0) as [q'|] eqn:Ea; [|cbn [fst]; repeat split; constructor].
      destruct (req_ok_add_cookies _ _ _ Hq Ea) as [Hq' Hq'u].
      rewrite <- Hqu, <- Hq'u. apply run_ok; [|reflexivity|assumption].
      split; [now apply req_ok_orig|]. cbn [cur ss_next ss_orig]. intros q1 E; injection E as <-. assumption.
    - rewrite <- Hqu. apply run_ok; [|reflexivity|assumption].
      split; [now apply req_ok_orig|]. cbn [cur ss_next ss_orig]. intros q1 E; injection E as <-. assumption.
  Qed.

  (* ------------------------------------------------------------------ *)
  (* (J) from the invariant to the bytes                                  *)
  (* ------------------------------------------------------------------ *)
  Lemma fl_values_get_list f n : wf f -> fl_values n (nv_get_all f) = nv_get_list n f.
  Proof. intros H. unfold fl_values. now apply wf_filter_get_list. Qed.

  Lemma sent_wire sn :
    sent_ok sn ->
    exists b m fl,
      sn_bytes sn = Some b
      /\ request_head b m (target_of (sn_full sn) (sn_url sn)) fl
      /\ fl_values s_Host fl = [hostname_with_port (sn_url sn)]
      /\ (forall v, In v (fl_values s_Authorization fl) -> own_credentials login (sn_url sn) v)
      /\ (forall v, In v (fl_values s_Cookie fl) -> exists t, jar t (sn_url sn) = JSome v)
      /\ (forall v, In v (fl_values s_Referer fl) ->
                    In v (nv_get_list s_Referer (c_base c)) \/ exists p, parent = Some p /\ v = referrer_of p).
  Proof.
    intros (Hu & Hb & ((Hwf & Htok & Hcs & Hrf) & Hc & Hh & Hl & Ha & Hk) & Hhost).
    rewrite Hu in *. rewrite Hb.
    rewrite (to_bytes_shape (sn_full sn) (sn_req sn) Hc).
    eexists. exists (method_of (sn_req sn)), (nv_get_all (q_fields (sn_req sn))).
    split; [reflexivity|].
    rewrite !fl_values_get_list by assumption.
    split; [|split; [exact Hhost | split; [assumption | split; assumption]]].
    unfold request_head. split; [|split; [|split]].
    - rewrite map_map. reflexivity.
    - unfold method_of. destruct (q_post (sn_req sn)); [now right | now left].
    - now apply clean_target.
    - apply Forall_forall. intros [n v] Hin. destruct (Htok n v Hin) as [Hn Hv]. cbn [fst snd].
      split; [assumption|]. split; [assumption|].
      apply wire_line_no_crlf; cbn [fst snd]; [|assumption].
      apply clean_no_crlf, fname_clean. assumption.
  Qed.
End Inv.

Lemma nth_error_firstn {A} (l : list A) : forall n i x, nth_error (firstn n l) i = Some x -> nth_error l i = Some x.
Proof.
  induction l as [|a l IH]; intros n i x H.
  - rewrite firstn_nil in H. destruct i; discriminate.
  - destruct n as [|n]; [destruct i; discriminate|].
    destruct i as [|i]; [exact H|]. cbn [firstn nth_error] in *. now apply (IH n).
Qed.

(* THE statement: request number i of any fetch, as bytes *)
Theorem fetch_wire c jar login u parent post rs :
  base_ok (c_base c) -> jar_ok jar -> url_clean u -> parent_ok parent -> chain_urls url_clean rs ->
  forall i sn, nth_error (fst (fetch c jar u parent login post rs)) i = Some sn ->
  exists ui full b m fl,
    nth_error (hop_urls u rs) i = Some ui
    /\ nth_error (hop_full rs) i = Some full
    /\ sn_bytes sn = Some b
    /\ request_head b m (target_of full ui) fl
    /\ fl_values s_Host fl = [hostname_with_port ui]
    /\ (forall v, In v (fl_values s_Authorization fl) -> own_credentials login ui v)
    /\ (forall v, In v (fl_values s_Cookie fl) -> exists t, jar t ui = JSome v)
    /\ (forall v, In v (fl_values s_Referer fl) ->
                  In v (nv_get_list s_Referer (c_base c)) \/ exists p, parent = Some p /\ v = referrer_of p).
Proof.
  intros Hbase Hjar Hu Hp Hrs i sn Hi.
  destruct (fetch_ok c jar login parent Hbase Hjar u post rs Hu Hp Hrs) as (Hall & Hurls & Hfull).
  set (sents := fst (fetch c jar u parent login post rs)) in *.
  assert (Hsn : sent_ok c jar login parent sn).
  { rewrite Forall_forall in Hall. apply Hall. now apply nth_error_In with i. }
  destruct (sent_wire c jar login parent sn Hsn) as (b & m & fl & H1 & H2 & H3 & H4 & H5 & H6).
  exists (sn_url sn), (sn_full sn), b, m, fl.
  split; [|split]; [| |split; [exact H1 | split; [exact H2 | split; [exact H3 | split; [exact H4 | split; [exact H5 | exact H6]]]]]].
  - apply (nth_error_firstn _ (length sents)). rewrite <- Hurls. now apply map_nth_error.
  - apply (nth_error_firstn _ (length sents)). rewrite <- Hfull. now apply map_nth_error.
Qed.

(* the Referer text is made of scheme, host, port, path and query only *)
Lemma referrer_no_userinfo p a b a' b' : referrer_of (with_userinfo p a b a' b') = referrer_of p.
Proof. reflexivity. Qed.

