(* Model/Visit.v - one VISIT of a URL by the web processor, and the visits of one URL over a
   crawl (C02 engine clause "every request is preceded by a passing consult", C18 "work per
   URL is bounded").  Definitions only.

   Transcribed from (wpull tree of the builder's worktree, after the round-1 repairs):
     wpull/protocol/http/redirect.py  RedirectTracker.load / next_location / is_redirect /
                                      is_repeat / exceeded        -> tr_*  (proved equal to the
                                      TRANSLATED code Gen/Redirect.v in Proofs/VisitProofs.v)
     wpull/protocol/http/web.py       WebSession._process_response / _process_redirect /
                                      _process_authentication     -> process_response
     wpull/processor/web.py           WebProcessorSession.process / _process_robots /
                                      _process_loop / _fetch_one / _should_fetch_reason /
                                      _handle_response            -> process_item / loop
     wpull/processor/rule.py          FetchRule.check_initial_web_request /
                                      check_subsequent_web_request (no plugin hooks connected),
                                      ResultRule.handle_* (status decisions)
     wpull/pipeline/session.py        ItemSession.skip / set_status (check_in: try_count + 1),
                                      URLItemSource.get_item (todo, then error rows)

   The environment is arbitrary: the SERVER is any function from the history of the requests of
   the visit to a response (status, Location field) or a failure (any REMOTE_ERROR raised by
   session.start()/download(): reset, timeout, malformed response ...); the filter verdict
   [consult] is any function of (try_count, URL, waiver flag); robots.txt handling is any
   function of the URL (its own requests belong to C20); it is consulted for the item's URL
   before the session starts and for the URL of every later request of the visit (redirect
   targets) after that request passed the filters.

   Not modelled (stated boundary): plugin hooks (Actions other than NORMAL), the PhantomJS /
   youtube-dl coprocessors, the FTP processor, cookies, request bodies, waiting times. *)
From Coq Require Import List NArith ZArith Bool.
Import ListNotations.
Open Scope bool_scope.
Open Scope Z_scope.

Definition vstr := list N.

(* ------------------------------------------------------------ RedirectTracker *)
(* _response as far as the tracker reads it: status code, Location field (None = absent),
   URL of the request it answers *)
Record tresp := { tp_status : Z; tp_location : option vstr; tp_url : vstr }.
Record tracker := { t_max : Z; t_codes : list Z; t_repeat : list Z; t_num : Z; t_last : option tresp }.

Definition REDIRECT_CODES : list Z := [301; 302; 303].
Definition REPEAT_REDIRECT_CODES : list Z := [307; 308].
Definition new_tracker (max : Z) : tracker :=
  {| t_max := max; t_codes := REDIRECT_CODES; t_repeat := REPEAT_REDIRECT_CODES; t_num := 0; t_last := None |}.

Definition zmem (x : Z) (l : list Z) : bool := existsb (Z.eqb x) l.
Definition str_truthy (o : option vstr) : bool := match o with Some (_ :: _) => true | _ => false end.

(* load: remember the response; count it when it carries a non-empty Location - whatever its status *)
Definition tr_load (t : tracker) (p : tresp) : tracker :=
  {| t_max := t_max t; t_codes := t_codes t; t_repeat := t_repeat t;
     t_num := if str_truthy (tp_location p) then t_num t + 1 else t_num t;
     t_last := Some p |}.
Definition tr_is_redirect (t : tracker) : bool :=
  match t_last t with Some p => zmem (tp_status p) (t_codes t) || zmem (tp_status p) (t_repeat t) | None => false end.
Definition tr_is_repeat (t : tracker) : bool :=
  match t_last t with Some p => zmem (tp_status p) (t_repeat t) | None => false end.
Definition tr_exceeded (t : tracker) : bool := t_num t >? t_max t.

(* next_location(raw=False): nothing / ValueError from urljoin / the joined URL *)
Inductive nextloc := NLNone | NLError | NLUrl (u : vstr).
Definition tr_next_location (urljoin : vstr -> vstr -> option vstr) (t : tracker) : nextloc :=
  match t_last t with
  | None => NLNone
  | Some p =>
      match tp_location p with
      | Some (c :: l) => match urljoin (tp_url p) (c :: l) with Some u => NLUrl u | None => NLError end
      | _ => NLNone
      end
  end.

(* ------------------------------------------------------------------ WebSession *)
(* a request as far as the loop looks at it: its URL and whether it carries a password
   (request.password: set from --http-user/--http-password on the initial request and kept by
   the copies made for 307/308; requests made by the request factory for 301/302/303 have none) *)
Record req := { rq_url : vstr; rq_pw : bool }.

Inductive loop_type := LNormal | LRedirect | LAuth.
Definition loop_eqb (a b : loop_type) : bool :=
  match a, b with LNormal, LNormal | LRedirect, LRedirect | LAuth, LAuth => true | _, _ => false end.

Record wsess := { ws_orig : req; ws_next : option req; ws_loop : loop_type; ws_tr : tracker }.

Definition new_session (rq : req) (max : Z) : wsess :=
  {| ws_orig := rq; ws_next := Some rq; ws_loop := LNormal; ws_tr := new_tracker max |}.

Inductive presult := POk (w : wsess) | PProtocolError.

Section Session.
  Variable urljoin : vstr -> vstr -> option vstr.   (* wpull.url.urljoin; None = ValueError *)
  Variable parseable : vstr -> bool.                (* Request(url) / prepare_for_send succeed *)

  (* _process_response for the response (status, location) to request rq = ws_next *)
  Definition process_response (w : wsess) (rq : req) (status : Z) (location : option vstr) : presult :=
    let tr := tr_load (ws_tr w) {| tp_status := status; tp_location := location; tp_url := rq_url rq |} in
    if tr_is_redirect tr then
      (* _process_redirect *)
      if tr_exceeded tr then PProtocolError            (* 'Too many redirects.' *)
      else match tr_next_location urljoin tr with
           | NLUrl (c :: l) =>
               if parseable (c :: l) then
                 POk {| ws_orig := ws_orig w;
                        ws_next := Some (if tr_is_repeat tr
                                         then {| rq_url := c :: l; rq_pw := rq_pw (ws_orig w) |}   (* copy of the original *)
                                         else {| rq_url := c :: l; rq_pw := false |});             (* request_factory(url) *)
                        ws_loop := LRedirect; ws_tr := tr |}
               else PProtocolError                     (* 'Invalid redirect location.' *)
           | NLUrl [] | NLNone => PProtocolError       (* 'Redirect location missing.' *)
           | NLError => PProtocolError
           end
    else if (status =? 401) && rq_pw rq then
      (* _process_authentication *)
      match ws_loop w with
      | LAuth => POk {| ws_orig := ws_orig w; ws_next := None; ws_loop := LNormal; ws_tr := tr |}   (* 'Unable to authenticate.' *)
      | _ => POk {| ws_orig := ws_orig w; ws_next := Some rq; ws_loop := LAuth; ws_tr := tr |}
      end
    else POk {| ws_orig := ws_orig w; ws_next := None; ws_loop := LNormal; ws_tr := tr |}.
End Session.

(* ------------------------------------------------------------ processor session *)
Inductive vstatus := VDone | VSkipped | VError.
Inductive rkind := KInitial | KFollowup | KAuthRetry.
Inductive sresp := Resp (status : Z) (location : option vstr) | Fail.
Inductive robots_result := RAllow | RDeny | RFail.

Inductive event :=
| EConsult (u : vstr) (waived : bool) (verdict : bool)     (* FetchRule.consult_filters(url_info, record, is_redirect) *)
| ERobots (u : vstr)                                       (* consult_robots_txt for a request: the item's own, and every later one of the visit *)
| ERequest (k : rkind) (rq : req)                          (* WebSession.start(): one request on the wire *)
| EStatus (s : vstatus).                                   (* set_status / skip *)

Definition DOCUMENT_STATUS_CODES : list Z := [200; 204; 206; 304].
Definition NO_DOCUMENT_STATUS_CODES : list Z := [401; 403; 404; 405; 410].

Record config := {
  c_max_redirects : Z;
  c_strong_redirects : bool;
  c_password : bool;          (* --http-user/--http-password given *)
  c_robots : bool;            (* a RobotsTxtChecker is installed *)
  c_content_on_error : bool }.

Section Processor.
  Variable urljoin : vstr -> vstr -> option vstr.
  Variable parseable : vstr -> bool.
  Variable cfg : config.
  Variable consult : vstr -> bool -> bool.            (* verdict for (URL, is_redirect) with this item's record *)
  Variable robots : vstr -> robots_result.
  Variable server : list req -> sresp.                (* history of this visit's requests, newest last *)

  Definition kind_of (l : loop_type) : rkind :=
    match l with LNormal => KInitial | LRedirect => KFollowup | LAuth => KAuthRetry end.

  (* _handle_response for a final response *)
  Definition final_status (status : Z) : vstatus :=
    if zmem status DOCUMENT_STATUS_CODES || c_content_on_error cfg then VDone
    else if zmem status NO_DOCUMENT_STATUS_CODES then VSkipped
    else VError.

  (* _process_loop asks consult_robots_txt for every request after the first one (the target of
     a redirect, or the repeat with credentials): [hist] is empty exactly in the first iteration,
     whose URL _process_robots has already cleared *)
  Definition hop_robots (hist : list req) (rq : req) : option robots_result :=
    match hist with
    | [] => None
    | _ :: _ => if c_robots cfg then Some (robots (rq_url rq)) else None
    end.
  Definition robots_events (hist : list req) (rq : req) : list event :=
    match hop_robots hist rq with Some _ => [ERobots (rq_url rq)] | None => [] end.

  (* _process_loop; None = out of fuel *)
  Fixpoint loop (fuel : nat) (w : wsess) (hist : list req) : list event * option vstatus :=
    match fuel with
    | O => ([], None)
    | S f =>
        match ws_next w with
        | None => ([EStatus VSkipped], Some VSkipped)          (* "Was not processed. Skipping." *)
        | Some rq =>
            let waived := c_strong_redirects cfg && tr_is_redirect (ws_tr w) in
            let v := consult (rq_url rq) waived in
            if negb v then ([EConsult (rq_url rq) waived v; EStatus VSkipped], Some VSkipped)
            else
              match hop_robots hist rq with
              | Some RFail =>                                   (* _process_redirect_robots: handle_error *)
                  ([EConsult (rq_url rq) waived v; ERobots (rq_url rq); EStatus VError], Some VError)
              | Some RDeny =>                                   (* _process_redirect_robots: skip *)
                  ([EConsult (rq_url rq) waived v; ERobots (rq_url rq); EStatus VSkipped], Some VSkipped)
              | _ =>
              let pre := EConsult (rq_url rq) waived v :: robots_events hist rq ++ [ERequest (kind_of (ws_loop w)) rq] in
              match server (hist ++ [rq]) with
              | Fail => (pre ++ [EStatus VError], Some VError)            (* handle_error *)
              | Resp status location =>
                  match process_response urljoin parseable w rq status location with
                  | PProtocolError => (pre ++ [EStatus VError], Some VError)
                  | POk w' =>
                      if tr_is_redirect (ws_tr w') || loop_eqb (ws_loop w') LAuth then
                        (* handle_intermediate_response: no status; while not done() *)
                        let (ev, r) := loop f w' (hist ++ [rq]) in (pre ++ ev, r)
                      else
                        let s := final_status status in (pre ++ [EStatus s], Some s)
                  end
              end
              end
        end
    end.

  (* WebProcessorSession.process for the item URL u *)
  Definition process_item (fuel : nat) (u : vstr) : list event * option vstatus :=
    let v0 := consult u false in
    if negb v0 then ([EConsult u false v0; EStatus VSkipped], Some VSkipped)
    else
      let start := loop fuel (new_session {| rq_url := u; rq_pw := c_password cfg |} (c_max_redirects cfg)) [] in
      if c_robots cfg then
        match robots u with
        | RFail => ([EConsult u false v0; ERobots u; EStatus VError], Some VError)
        | RDeny => ([EConsult u false v0; ERobots u; EStatus VSkipped], Some VSkipped)
        | RAllow => let (ev, r) := start in (EConsult u false v0 :: ERobots u :: ev, r)
        end
      else let (ev, r) := start in (EConsult u false v0 :: ev, r).
End Processor.

Definition is_request (e : event) : bool := match e with ERequest _ _ => true | _ => false end.
Definition is_kind (k : rkind) (e : event) : bool :=
  match e, k with
  | ERequest KInitial _, KInitial | ERequest KFollowup _, KFollowup | ERequest KAuthRetry _, KAuthRetry => true
  | _, _ => false
  end.
Definition count_requests (ev : list event) : nat := List.length (List.filter is_request ev).
Definition count_kind (k : rkind) (ev : list event) : nat := List.length (List.filter (is_kind k) ev).

(* enough fuel for any visit *)
Definition visit_fuel (max : Z) : nat := 2 * (Z.to_nat max + 1) + 1.

(* ------------------------------------------------- the visits of one URL (tries) *)
Inductive istatus := ITodo | IError | IDone | ISkipped.
Record item := { it_status : istatus; it_tries : Z }.
Definition checked_out (i : item) : bool := match it_status i with ITodo | IError => true | _ => false end.
Definition istatus_of (s : vstatus) : istatus :=
  match s with VDone => IDone | VSkipped => ISkipped | VError => IError end.

Section Item.
  Variable urljoin : vstr -> vstr -> option vstr.
  Variable parseable : vstr -> bool.
  Variable cfg : config.
  Variable consult_tc : Z -> vstr -> bool -> bool.     (* verdict given the row's try_count *)
  Variable u : vstr.

  (* one check-out of the row (URLItemSource.get_item takes todo, then error rows), the visit,
     and the check-in (status, try_count + 1); rows that are done / skipped are never taken *)
  Definition visit_item (env : (vstr -> robots_result) * (list req -> sresp)) (i : item)
    : item * list event :=
    if checked_out i then
      match process_item urljoin parseable cfg (consult_tc (it_tries i)) (fst env) (snd env)
                         (visit_fuel (c_max_redirects cfg)) u with
      | (ev, Some s) => ({| it_status := istatus_of s; it_tries := it_tries i + 1 |}, ev)
      | (ev, None) => (i, ev)        (* excluded by visit_fuel_enough *)
      end
    else (i, []).

  (* the environments met at the successive check-outs are arbitrary *)
  Fixpoint visits (envs : list ((vstr -> robots_result) * (list req -> sresp))) (i : item)
    : item * list (list event) :=
    match envs with
    | [] => (i, [])
    | e :: envs' =>
        let (i1, ev) := visit_item e i in
        let (i2, evs) := visits envs' i1 in
        (i2, ev :: evs)
    end.
End Item.

Definition nonempty_requests (ev : list event) : bool := negb (Nat.eqb (count_requests ev) 0).
Definition visits_with_requests (evs : list (list event)) : nat := List.length (List.filter nonempty_requests evs).
Definition total_requests (evs : list (list event)) : nat := fold_right (fun ev n => (count_requests ev + n)%nat) 0%nat evs.

(* ------------------------------------------------- a crawl over a finite set of rows *)
(* The rows of the URLs of a finite site (a row that is discovered later is a row that is simply
   not scheduled earlier).  The scheduler is arbitrary: a schedule names, step by step, which row
   the item source hands out and the environment (robots, server) that visit meets; naming a row
   that is not checked out (done / skipped) is a no-op, as URLItemSource.get_item never returns it. *)
Record crow := { cr_url : vstr; cr_consult : Z -> vstr -> bool -> bool; cr_item : item }.

Section Crawl.
  Variable urljoin : vstr -> vstr -> option vstr.
  Variable parseable : vstr -> bool.
  Variable cfg : config.

  Fixpoint visit_nth (k : nat) (env : (vstr -> robots_result) * (list req -> sresp)) (rows : list crow)
    : list crow * list event :=
    match rows with
    | [] => ([], [])
    | r :: rows' =>
        match k with
        | O => let (i', ev) := visit_item urljoin parseable cfg (cr_consult r) (cr_url r) env (cr_item r) in
               ({| cr_url := cr_url r; cr_consult := cr_consult r; cr_item := i' |} :: rows', ev)
        | S k' => let (rows'', ev) := visit_nth k' env rows' in (r :: rows'', ev)
        end
    end.

  Definition row_active (k : nat) (rows : list crow) : bool :=
    match nth_error rows k with Some r => checked_out (cr_item r) | None => false end.

  (* run a schedule; returns the rows, the traces, and how many steps really visited a row *)
  Fixpoint crawl (sched : list (nat * ((vstr -> robots_result) * (list req -> sresp)))) (rows : list crow)
    : list crow * list (list event) * nat :=
    match sched with
    | [] => (rows, [], O)
    | (k, env) :: sched' =>
        let act := row_active k rows in
        let (rows1, ev) := visit_nth k env rows in
        let '(rows2, evs, n) := crawl sched' rows1 in
        (rows2, ev :: evs, if act then S n else n)
    end.
End Crawl.

(* visits a row may still get: try_count up to the limit, plus the one that skips it *)
Definition row_budget (tries : Z) (r : crow) : nat :=
  if checked_out (cr_item r) then S (Z.to_nat (tries - it_tries (cr_item r))) else O.
Definition crawl_budget (tries : Z) (rows : list crow) : nat :=
  fold_right (fun r n => (row_budget tries r + n)%nat) O rows.
