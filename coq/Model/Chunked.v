(* Executable model of wpull/protocol/http/chunked.py (ChunkedTransferReader)
   over Lib/Conn, plus the reader state shared with Model/HttpMsg.v.
   Definitions only.

   Reader state [st]: the connection, the concatenation of everything reported
   to the stream's read listeners so far ([recd]: DataEventDispatcher.notify_read,
   which is what the WARC recorder stores - C04), and whether wpull itself has
   closed the connection.  Errors carry no state: every error in
   read_response/read_body closes the stream (close_stream_on_error). *)
From Coq Require Import List NArith ZArith Bool.
From Wpull Require Import Lib.Conn Model.PyText.
Import ListNotations.
Open Scope N_scope.
Open Scope bool_scope.

Inductive err :=
| ProtocolErr          (* wpull.errors.ProtocolError *)
| NetworkErr           (* wpull.errors.NetworkError *)
| ValueErr             (* a bare ValueError escaping the reader (no wpull error class); none is left in the current code *)
| OutOfFuel.           (* artefact of the totalisation; excluded by theorem *)

Record st := mkSt { cn : conn; recd : list N; closed : bool }.

Inductive res (A : Type) :=
| Err (e : err)
| Ok (a : A) (s : st).
Arguments Err {A} e.
Arguments Ok {A} a s.

Definition notify (d : list N) (s : st) : st := mkSt (cn s) (recd s ++ d) (closed s).

Definition st_readline (s : st) : line_result * st :=
  let '(r, c) := readline (cn s) in (r, mkSt c (recd s) (closed s)).

Definition st_read (o : oracle) (n : nat) (s : st) : list N * st :=
  let '(d, c) := read o n (cn s) in (d, mkSt c (recd s) (closed s)).

(* Connection.close(): reader and writer are dropped, buffered bytes with them *)
Definition close (s : st) : st := mkSt (mkConn [] (eof_hit (cn s))) (recd s) true.

(* enough fuel for any loop that consumes at least one byte per iteration *)
Definition fuel_of (s : st) : nat := S (S (length (pending (cn s)))).

Definition read_size : nat := 4096.
Definition read_size_N : N := 4096.

Fixpoint ends_with_lf (l : list N) : bool :=
  match l with
  | [] => false
  | [c] => c =? 10
  | _ :: r => ends_with_lf r
  end.

(* chunk_size_hex.split(b';', 1)[0] *)
Definition before_semicolon (l : list N) : list N :=
  match split_once 59 l with
  | Some (a, _) => a
  | None => l
  end.

(* read_chunk_header: (chunk size, raw header line) *)
Definition read_chunk_header (s : st) : res (N * list N) :=
  match st_readline s with
  | (LineTooLong, _) => Err ProtocolErr                       (* ValueError -> ProtocolError *)
  | (Line l, s1) =>
      if negb (ends_with_lf l) then Err NetworkErr             (* 'Connection closed.' *)
      else match py_int16_bytes (bytes_strip (before_semicolon l)) with
           | None => Err ProtocolErr                           (* 'Invalid chunk size' *)
           | Some z => if (z <? 0)%Z then Err ProtocolErr      (* 'Chunk size cannot be negative.' *)
                       else Ok (Z.to_N z, l) s1
           end
  end.

(* read_chunk_body with self._bytes_left = left.  bytes_left < 0 cannot arise
   (read(size) never returns more than size), so that branch is not modelled. *)
Inductive chunk_step :=
| CBData (data : list N) (left' : N)       (* (data, data); possibly empty at EOF *)
| CBEnd (newline : list N).                (* (b'', newline_data) *)

Definition read_chunk_body (o : oracle) (left : N) (s : st) : res chunk_step :=
  if 0 <? left then
    let '(d, s1) := st_read o (N.to_nat (N.min left read_size_N)) s in
    Ok (CBData d (left - N.of_nat (length d))) s1
  else
    match st_readline s with
    | (LineTooLong, _) => Err ProtocolErr                      (* Connection.readline converts the ValueError *)
    | (Line l, s1) =>
        if (2 <? length l)%nat then Err ProtocolErr            (* 'Error reading newline after chunk.' *)
        else Ok (CBEnd l) s1
    end.

(* read_trailer: lines up to and including the first one that is blank after
   bytes.strip() - which an EOF (b'') also is *)
Fixpoint read_trailer (fuel : nat) (acc : list N) (s : st) : res (list N) :=
  match fuel with
  | O => Err OutOfFuel
  | S f =>
      match st_readline s with
      | (LineTooLong, _) => Err ProtocolErr                    (* Connection.readline converts the ValueError *)
      | (Line l, s1) =>
          match bytes_strip l with
          | [] => Ok (acc ++ l) s1
          | _ => read_trailer f (acc ++ l) s1
          end
      end
  end.
