(* Executable model of the glue in wpull/protocol/http/stream.py that drives the
   content decoders of Model/Decomp.v:

     Stream._setup_decompressor      which Content-Encoding value selects which decoder
     Stream._decompress_data         decoder.decompress, zlib.error -> ProtocolError
     Stream._flush_decompressor      decoder.flush,      zlib.error -> ProtocolError
     the body loops of _read_body_until_close / _read_body_by_length /
     _read_body_by_chunk             which pieces reach the decoder, what is written
                                     to the body file, which error comes first

   Two levels.
   (1) PIECES level ([glue_run]): a function of (raw flag, the str returned by
       response.fields.get('Content-Encoding', ''), the error with which the
       body reader itself ended (short length-delimited body, broken chunk
       framing) if any, the list of pieces the body reader handed to
       _decompress_data) to the bytes written to the file, or the error together
       with what had been written before it.
   (2) WIRE level ([read_body]): the pieces themselves are computed from the
       bytes on the connection and the segmentation oracle of Lib/Conn for the
       three body readers.  What belongs to C08 is NOT repeated here: the read
       strategy is an input (get_read_strategy, int(Content-Length)), and for a
       chunked body the chunk-size lines are consumed with readline but their
       value is an input ([sizes], what ChunkedTransferReader parsed).

   The Stream object is fresh (client.Session builds one Stream per request), so
   self._decompressor is None before read_body; with raw=True
   _setup_decompressor is not called and it stays None.  raw=True together with
   chunked transfer coding (proxy server only: the framing is copied to the file
   as well) is not modelled.

   Definitions only. *)
From Coq Require Import List NArith Bool Arith.
From Wpull Require Import Lib.Conn Model.Decomp.
Import ListNotations.
Open Scope N_scope.
Open Scope bool_scope.

(* ---- _setup_decompressor ---- *)

(* str.lower() restricted to what can matter for the two comparisons below: an
   ASCII capital becomes its small letter, every other code point is kept.
   (For a non-ASCII code point c, chr(c).lower() always contains a character
   outside "gzipdeflate" - checked exhaustively over all of Unicode on every run
   by harness/impl/c19_impl.py - so lower(v) == 'gzip' iff this function says so.) *)
Definition ascii_lower (c : N) : N := if (65 <=? c) && (c <=? 90) then c + 32 else c.

Fixpoint str_eqb (a b : list N) : bool :=
  match a, b with
  | [], [] => true
  | x :: a', y :: b' => (x =? y) && str_eqb a' b'
  | _, _ => false
  end.

Definition s_gzip : list N := [103; 122; 105; 112].                  (* 'gzip' *)
Definition s_deflate : list N := [100; 101; 102; 108; 97; 116; 101]. (* 'deflate' *)

(* encoding = response.fields.get('Content-Encoding', '').lower()
   'gzip' -> GzipDecompressor, 'deflate' -> DeflateDecompressor, else None.
   No stripping, no token list, no 'x-gzip': the comparison is exact. *)
Definition select_kind (raw : bool) (ce : list N) : kind :=
  if raw then KIdentity
  else
    let e := map ascii_lower ce in
    if str_eqb e s_gzip then KGzip
    else if str_eqb e s_deflate then KDeflate
    else KIdentity.

(* ---- results ---- *)
Inductive gerr :=
| GProtocolErr      (* wpull.errors.ProtocolError ('zlib error' / 'zlib flush error' / chunk framing) *)
| GNetworkErr       (* wpull.errors.NetworkError ('Connection closed.') *)
| GValueErr.        (* bare ValueError of StreamReader.readline on an over-long chunk line end (C09's subject) *)

Inductive gres :=
| GOk (file : list N)
| GErr (e : gerr) (file : list N).   (* file = what had been written when the error was raised *)

(* what the caller of read_body observes: the file content on success, the error class otherwise *)
Definition gres_view (r : gres) : list N + gerr :=
  match r with GOk f => inl f | GErr e _ => inr e end.

(* the one-shot reference of Model/Decomp.v as such an observation: no decoding -> ProtocolError *)
Definition ref_view (x : option (list N)) : list N + gerr :=
  match x with Some o => inl o | None => inr GProtocolErr end.

Section Glue.
  Variable zst : Type.
  Variable zinit : wbits -> zst.
  Variable zstep : zst -> N -> option (zst * list N).
  Variable zeof : zst -> bool.
  Variable zfl : zst -> list N.

  Notation dstate := (dstate zst).
  Notation decompress := (decompress zst zinit zstep).
  Notation flush := (flush zst zeof zfl).

  (* the statement sequence common to the three body loops:
       content_data = self._decompress_data(data); file.write(content_data)
     None = ProtocolError was raised by _decompress_data *)
  Fixpoint glue_loop (s : dstate) (pieces : list (list N)) (file : list N) : option dstate * list N :=
    match pieces with
    | [] => (Some s, file)
    | p :: r =>
        match decompress s p with
        | None => (None, file)
        | Some (s', o) => glue_loop s' r (file ++ o)
        end
    end.

  (* after the loop.  [abort]: the reader ended with an error of its own before
     _flush_decompressor was reached - _read_body_by_length saw EOF with
     bytes_left > 0 (NetworkError 'Connection closed.'), or the chunk framing
     broke.  A ProtocolError of _decompress_data comes first: it is raised inside
     the loop. *)
  Definition glue_finish (abort : option gerr) (x : option dstate * list N) : gres :=
    match x with
    | (None, file) => GErr GProtocolErr file
    | (Some s, file) =>
        match abort with
        | Some e => GErr e file
        | None =>
            match flush s with
            | None => GErr GProtocolErr file
            | Some o => GOk (file ++ o)
            end
        end
    end.

  Definition glue_run (raw : bool) (ce : list N) (abort : option gerr) (pieces : list (list N)) : gres :=
    glue_finish abort (glue_loop (dinit zst (select_kind raw ce)) pieces []).

  (* ---- decompression.gzip_uncompress(data, truncated): SimpleGzipDecompressor on
     the whole buffer, flushed unless [truncated] (document/sitemap.py calls it with
     truncated=True on a peeked prefix of the body and ignores zlib.error) ---- *)
  Definition gzip_uncompress (data : list N) (truncated : bool) : option (list N) :=
    match zfeed zst zstep (zinit W31) data with
    | None => None
    | Some (z, o) =>
        if truncated then Some o
        else match zflush zst zeof zfl z with None => None | Some f => Some (o ++ f) end
    end.

  (* ---- the pieces the three readers deliver, over Lib/Conn ---- *)
  Definition read_size : nat := 4096.

  (* _read_body_until_close: read(4096) until an empty read *)
  Fixpoint close_pieces (o : oracle) (fuel : nat) (c : conn) : list (list N) * conn :=
    match fuel with
    | O => ([], c)
    | S f =>
        let '(d, c1) := read o read_size c in
        match d with
        | [] => ([], c1)
        | _ => let '(ps, c2) := close_pieces o f c1 in (d :: ps, c2)
        end
    end.

  (* the while loop of _read_body_by_length: read(4096) WHATEVER bytes_left is;
     a read that overshoots is cut to bytes_left and the connection is closed.
     Returns the pieces and the final bytes_left (0 also for "negative"). *)
  Fixpoint length_pieces (o : oracle) (fuel left : nat) (c : conn) : list (list N) * nat * conn :=
    match fuel with
    | O => ([], left, c)
    | S f =>
        match left with
        | O => ([], O, c)
        | _ =>
            let '(d, c1) := read o read_size c in
            match d with
            | [] => ([], left, c1)
            | _ =>
                if (left <? length d)%nat then ([firstn left d], O, mkConn [] (eof_hit c1))
                else let '(ps, l', c2) := length_pieces o f (left - length d) c1 in (d :: ps, l', c2)
            end
        end
    end.

  (* _read_body_by_chunk over ChunkedTransferReader.  Per chunk:
       read_chunk_header  readline; the VALUE of the size line is an input ([n],
                          what int(..., 16) returned - parsing is C08's subject);
                          over-long line -> ProtocolError, no LF (EOF) -> NetworkError
       read_chunk_body    read(min(bytes_left, 4096)) until bytes_left = 0; an
                          empty read (EOF inside the chunk) ends the inner loop
                          ("if not content: break") and the next read_chunk_header
                          reads b'' -> NetworkError
       chunk end          readline; more than 2 bytes -> ProtocolError
     and after the last chunk the size line of the terminating chunk.  [sizes]
     are the non-zero chunk sizes.  The trailer is read after the flush and the
     last file write; it is not modelled (C08). *)
  Fixpoint ends_lf (l : list N) : bool :=
    match l with
    | [] => false
    | [c] => c =? 10
    | _ :: r => ends_lf r
    end.

  Definition size_line (c : conn) : option gerr * conn :=
    match readline c with
    | (LineTooLong, c1) => (Some GProtocolErr, c1)
    | (Line l, c1) => if ends_lf l then (None, c1) else (Some GNetworkErr, c1)
    end.

  Definition end_line (c : conn) : option gerr * conn :=
    match readline c with
    | (LineTooLong, c1) => (Some GValueErr, c1)
    | (Line l, c1) => if (2 <? length l)%nat then (Some GProtocolErr, c1) else (None, c1)
    end.

  Fixpoint chunk_pieces (o : oracle) (sizes : list nat) (c : conn) : list (list N) * option gerr * conn :=
    match sizes with
    | [] => let '(e, c1) := size_line c in ([], e, c1)
    | n :: r =>
        let '(e, c1) := size_line c in
        match e with
        | Some _ => ([], e, c1)
        | None =>
            let '(ps, c2) := read_exact o n n read_size c1 in
            if (length (concat ps) <? n)%nat then (ps, Some GNetworkErr, c2)
            else
              let '(e2, c3) := end_line c2 in
              match e2 with
              | Some _ => (ps, e2, c3)
              | None => let '(qs, e3, c4) := chunk_pieces o r c3 in (ps ++ qs, e3, c4)
              end
        end
    end.

  Inductive strategy :=
  | SClose                         (* no usable framing, or ignore_length *)
  | SLength (n : nat)              (* Content-Length: n *)
  | SChunked (sizes : list nat).   (* Transfer-Encoding: chunked, with the parsed non-zero chunk sizes *)

  Definition body_pieces (o : oracle) (st : strategy) (c : conn) : list (list N) * option gerr :=
    match st with
    | SClose => (fst (close_pieces o (S (length (pending c))) c), None)
    | SLength n =>
        let '(ps, l, _) := length_pieces o (S n) n c in
        (ps, if (0 <? l)%nat then Some GNetworkErr else None)        (* 'Connection closed.' *)
    | SChunked sizes =>
        let '(ps, e, _) := chunk_pieces o sizes c in (ps, e)
    end.

  (* read_body: "if self._ignore_length and read_strategy == 'length': read_strategy = 'close'"
     (a chunked body is still read by chunks) *)
  Definition effective (ignore_length : bool) (st : strategy) : strategy :=
    match st with
    | SLength _ => if ignore_length then SClose else st
    | _ => st
    end.

  (* Stream.read_body on a response that has a body: setup, strategy loop, flush *)
  Definition read_body (o : oracle) (raw : bool) (ce : list N) (st : strategy) (wire : list N) : gres :=
    let '(ps, abort) := body_pieces o st (mkConn wire false) in
    glue_run raw ce abort ps.

  Definition read_body_il (o : oracle) (raw : bool) (ce : list N) (ignore_length : bool) (st : strategy)
             (wire : list N) : gres :=
    read_body o raw ce (effective ignore_length st) wire.
End Glue.

(* ---- the table-driven zlib instance of Model/Decomp.v, for the correspondence ---- *)
Definition tab_glue (t31 t15 traw : ztab) (raw : bool) (ce : list N) (abort : option gerr) (pieces : list (list N)) : gres :=
  glue_run tst (tab_init t31 t15 traw) tab_step t_eof (fun _ => []) raw ce abort pieces.

Definition tab_read_body (t31 t15 traw : ztab) (o : oracle) (raw : bool) (ce : list N) (ignore_length : bool)
           (st : strategy) (wire : list N) : gres :=
  read_body_il tst (tab_init t31 t15 traw) tab_step t_eof (fun _ => []) o raw ce ignore_length st wire.

Definition tab_gzip_uncompress (t31 : ztab) (data : list N) (truncated : bool) : option (list N) :=
  gzip_uncompress tst (tab_init t31 t31 t31) tab_step t_eof (fun _ => []) data truncated.

Definition tab_body_pieces (o : oracle) (st : strategy) (wire : list N) : list (list N) * option gerr :=
  body_pieces o st (mkConn wire false).
