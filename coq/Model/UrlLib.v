(* Python string / bytes / int() primitives used by wpull/url.py, as total Gallina
   functions on [list N] (code points; bytes are the sub-range < 256).
   Definitions only.  Each definition is tied to the running interpreter by the
   component correspondence of ./check C10 (harness/corr/c10.py). *)
From Coq Require Import List NArith ZArith Bool.
Import ListNotations.
Open Scope N_scope.

Definition str := list N.

(* ---------- equality / membership ---------- *)
Fixpoint str_eqb (a b : str) : bool :=
  match a, b with
  | [], [] => true
  | x :: a', y :: b' => (x =? y) && str_eqb a' b'
  | _, _ => false
  end.

Fixpoint memb (c : N) (s : str) : bool :=
  match s with
  | [] => false
  | x :: r => (x =? c) || memb c r
  end.

Definition is_nil {A} (l : list A) : bool := match l with [] => true | _ => false end.

(* ---------- str.find / partition / rpartition / split / join / count ---------- *)
Fixpoint find_idx (c : N) (s : str) : option nat :=
  match s with
  | [] => None
  | x :: r => if x =? c then Some O else option_map S (find_idx c r)
  end.

(* s.partition(c) : (before, found?, after); not found -> (s, false, []) *)
Fixpoint partition (c : N) (s : str) : str * bool * str :=
  match s with
  | [] => ([], false, [])
  | x :: r =>
      if x =? c then ([], true, r)
      else let '(a, f, b) := partition c r in (x :: a, f, b)
  end.

(* s.rpartition(c) : Some (before, after) at the LAST c; None when c does not occur *)
Fixpoint rpartition (c : N) (s : str) : option (str * str) :=
  match s with
  | [] => None
  | x :: r =>
      match rpartition c r with
      | Some (a, b) => Some (x :: a, b)
      | None => if x =? c then Some ([], r) else None
      end
  end.

(* s.split(c): always at least one element *)
Fixpoint split_on (c : N) (s : str) : list str :=
  match s with
  | [] => [[]]
  | x :: r =>
      if x =? c then [] :: split_on c r
      else match split_on c r with
           | p :: ps => (x :: p) :: ps
           | [] => [[x]]          (* unreachable: split_on is never empty *)
           end
  end.

Fixpoint join (sep : str) (parts : list str) : str :=
  match parts with
  | [] => []
  | [p] => p
  | p :: ps => p ++ sep ++ join sep ps
  end.

Fixpoint count (c : N) (s : str) : nat :=
  match s with
  | [] => O
  | x :: r => if x =? c then S (count c r) else count c r
  end.

Fixpoint startswith (s p : str) : bool :=
  match p, s with
  | [], _ => true
  | y :: p', x :: s' => (x =? y) && startswith s' p'
  | _ :: _, [] => false
  end.

Definition last_is (s : str) (c : N) : bool :=
  match rev s with x :: _ => x =? c | [] => false end.

(* s[a:b] for 0 <= a, b <= len s (a > b gives the empty string, as in Python) *)
Definition slice (a b : nat) (s : str) : str := firstn (b - a) (skipn a s).

Fixpoint replace1 (c d : N) (s : str) : str :=
  match s with
  | [] => []
  | x :: r => (if x =? c then d else x) :: replace1 c d r
  end.

(* ---------- character classes ---------- *)
Definition all_ascii (s : str) : bool := forallb (fun c => c <? 128) s.

Definition lower_c (c : N) : N := if (65 <=? c) && (c <=? 90) then c + 32 else c.
Definition upper_c (c : N) : N := if (97 <=? c) && (c <=? 122) then c - 32 else c.
Definition lower_ascii (s : str) : str := map lower_c s.

(* str.isspace(): the complete set for the running interpreter (exhaustively
   compared with chr(c).isspace() over all 0x110000 code points on every run) *)
Definition is_space (c : N) : bool :=
  ((9 <=? c) && (c <=? 13)) || ((28 <=? c) && (c <=? 32)) || (c =? 133) || (c =? 160)
  || (c =? 5760) || ((8192 <=? c) && (c <=? 8202)) || (c =? 8232) || (c =? 8233)
  || (c =? 8239) || (c =? 8287) || (c =? 12288).

Fixpoint lstrip (s : str) : str :=
  match s with
  | x :: r => if is_space x then lstrip r else s
  | [] => []
  end.
Definition strip (s : str) : str := rev (lstrip (rev (lstrip s))).

(* ---------- hex digits ---------- *)
Definition is_hex (c : N) : bool :=
  ((48 <=? c) && (c <=? 57)) || ((97 <=? c) && (c <=? 102)) || ((65 <=? c) && (c <=? 70)).
Definition is_lower_hex (c : N) : bool :=
  ((48 <=? c) && (c <=? 57)) || ((97 <=? c) && (c <=? 102)).
Definition hex_upper_digit (n : N) : N := if n <? 10 then 48 + n else 55 + n.

(* ---------- UTF-8 (str.encode('utf-8'), strict) ---------- *)
Definition utf8c (c : N) : option (list N) :=
  if c <? 128 then Some [c]
  else if c <? 2048 then Some [192 + c / 64; 128 + c mod 64]
  else if (55296 <=? c) && (c <=? 57343) then None           (* lone surrogate *)
  else if c <? 65536 then Some [224 + c / 4096; 128 + (c / 64) mod 64; 128 + c mod 64]
  else if c <? 1114112 then Some [240 + c / 262144; 128 + (c / 4096) mod 64; 128 + (c / 64) mod 64; 128 + c mod 64]
  else None.

(* an encoder that works character by character (stateless codecs) *)
Fixpoint charwise (f : N -> option (list N)) (s : str) : option (list N) :=
  match s with
  | [] => Some []
  | c :: r => match f c, charwise f r with
              | Some a, Some b => Some (a ++ b)
              | _, _ => None
              end
  end.
Definition utf8 : str -> option (list N) := charwise utf8c.

(* ---------- int(text, base) on ASCII text, base in {8, 10, 16} ---------- *)
Definition int_space (c : N) : bool := ((9 <=? c) && (c <=? 13)) || (c =? 32).

Fixpoint int_lstrip (s : str) : str :=
  match s with
  | x :: r => if int_space x then int_lstrip r else s
  | [] => []
  end.

Definition digit_val (c : N) : option N :=
  if (48 <=? c) && (c <=? 57) then Some (c - 48)
  else if (97 <=? c) && (c <=? 122) then Some (c - 87)
  else if (65 <=? c) && (c <=? 90) then Some (c - 55)
  else None.

(* digits with single underscores between them; returns value, number of digit
   characters and the rest.
   [prev_us]: the previous character was '_' ; [seen]: at least one digit read *)
Fixpoint int_digits (base : N) (s : str) (acc nd : N) (prev_us seen : bool) : option (N * N * str) :=
  match s with
  | [] => if prev_us || negb seen then None else Some (acc, nd, [])
  | c :: r =>
      if c =? 95 then
        if prev_us || negb seen then None else int_digits base r acc nd true seen
      else match digit_val c with
           | Some d => if d <? base then int_digits base r (acc * base + d) (nd + 1) false true
                       else if prev_us || negb seen then None else Some (acc, nd, s)
           | None => if prev_us || negb seen then None else Some (acc, nd, s)
           end
  end.

(* sys.int_info.default_max_str_digits: int() of more than 4300 digit characters in a
   base that is not a power of two raises ValueError *)
Definition max_str_digits : N := 4300.

Definition py_int_ascii (base : N) (s : str) : option Z :=
  let s := int_lstrip s in
  let '(neg, s) := match s with
                   | 43 :: r => (false, r)
                   | 45 :: r => (true, r)
                   | _ => (false, s)
                   end in
  let s := match s with
           | 48 :: p :: r =>
               if ((base =? 16) && ((p =? 120) || (p =? 88))) || ((base =? 8) && ((p =? 111) || (p =? 79)))
               then match r with 95 :: r' => r' | _ => r end
               else s
           | _ => s
           end in
  match int_digits base s 0 0 false false with
  | None => None
  | Some (v, nd, rest) =>
      match int_lstrip rest with
      | [] => if (base =? 10) && (max_str_digits <? nd) then None
              else Some (if neg then (- Z.of_N v)%Z else Z.of_N v)
      | _ => None
      end
  end.

(* ---------- decimal printing ('{}'.format(int) for a non-negative int) ---------- *)
Fixpoint dec_digits (fuel : nat) (n : N) (acc : str) : str :=
  match fuel with
  | O => acc
  | S f => let acc' := (48 + n mod 10) :: acc in
           if n <? 10 then acc' else dec_digits f (n / 10) acc'
  end.
(* 40 digits of fuel cover every number < 10^40; ports and octets are < 10^5 *)
Definition dec_of_N (n : N) : str := dec_digits 40 n [].
