(* C14 - canonical text form of the observable outputs of a table history (every
   return value and get_all() after every step).  Used only by the correspondence:
   the harness prints [ser_outs (run_sql bad empty_db ops)] with vm_compute and
   compares it, character for character, with the same rendering (written again in
   Python, harness/corr/c14.py) of what the real table returned.  Definitions only.

   Only the characters [a-zA-Z0-9:/._=?-] appear literally inside a text value;
   every other code point is written as %<hex>! so the structural characters
   ( ) [ ] , ; | ' ~ never occur inside a value and the rendering is injective.
   The table after each step is rendered as a difference to the table after the
   previous step (see [ser_delta]) to keep the compared texts small. *)
From Coq Require Import List NArith ZArith Bool Ascii String.
From Wpull Require Import Lib.Hex Model.UrlTable.
Import ListNotations.
Open Scope string_scope.
Open Scope N_scope.

Definition ch (n : N) : string := String (ascii_of_N n) EmptyString.

Fixpoint dec_digits (fuel : nat) (n : N) (acc : string) : string :=
  match fuel with
  | O => acc
  | S k => let acc' := String (ascii_of_N (48 + n mod 10)) acc in
           if n / 10 =? 0 then acc' else dec_digits k (n / 10) acc'
  end.
Definition ser_N (n : N) : string := dec_digits (S (N.size_nat n)) n "".
Definition ser_Z (z : Z) : string :=
  match z with
  | Z0 => "0"
  | Zpos p => ser_N (Npos p)
  | Zneg p => "-" ++ ser_N (Npos p)
  end.

Fixpoint hex_digits (fuel : nat) (n : N) (acc : string) : string :=
  match fuel with
  | O => acc
  | S k => let acc' := String (hexdigit (n mod 16)) acc in
           if n / 16 =? 0 then acc' else hex_digits k (n / 16) acc'
  end.

Definition safe_char (c : N) : bool :=
  ((48 <=? c) && (c <=? 58))             (* 0-9 : *)
  || ((65 <=? c) && (c <=? 90)) || ((97 <=? c) && (c <=? 122))
  || (c =? 45) || (c =? 46) || (c =? 47) || (c =? 95) || (c =? 61) || (c =? 63).   (* - . / _ = ? *)

Fixpoint ser_chars (s : list N) : string :=
  match s with
  | [] => ""
  | c :: r => (if safe_char c then ch c else "%" ++ hex_digits (S (N.size_nat c)) c "!") ++ ser_chars r
  end.
Definition ser_str (s : list N) : string := "'" ++ ser_chars s ++ "'".

Definition ser_opt {A} (f : A -> string) (o : option A) : string :=
  match o with Some x => f x | None => "~" end.

Definition ser_status (s : status) : string :=
  match s with Todo => "t" | InProgress => "i" | Done => "d" | Error => "e" | Skipped => "s" end.
Definition ser_link (l : link_type) : string :=
  match l with LHtml => "L0" | LCss => "L1" | LJavascript => "L2" | LMedia => "L3" | LSitemap => "L4"
          | LFile => "L5" | LDirectory => "L6" end.

Definition ser_rec (r : rec) : string :=
  let f := r_f r in
  "(" ++ ser_str (r_url r) ++ "," ++ ser_opt ser_str (r_parent r) ++ "," ++ ser_opt ser_str (r_root r) ++ ","
      ++ ser_status (f_status f) ++ "," ++ ser_Z (f_try f) ++ "," ++ ser_Z (f_level f) ++ ","
      ++ ser_opt ser_Z (f_inline f) ++ "," ++ ser_opt ser_link (f_link f) ++ "," ++ ser_Z (f_priority f) ++ ","
      ++ ser_opt ser_str (f_post f) ++ "," ++ ser_opt ser_Z (f_code f) ++ "," ++ ser_opt ser_str (f_file f) ++ ")".

Fixpoint ser_list {A} (f : A -> string) (l : list A) : string :=
  match l with [] => "" | x :: r => f x ++ ser_list f r end.

Definition ser_ret (r : ret) : string :=
  match r with
  | RNone => "N"
  | RUrls l => "U[" ++ ser_list ser_str l ++ "]"
  | RRec x => "R" ++ ser_rec x
  | RNotFound => "F"
  | RValueError => "V"
  | RCount n => "C" ++ ser_N n
  | RBool b => if b then "B1" else "B0"
  | RId o => "I" ++ ser_opt ser_str o
  | RAll l => "A[" ++ ser_list ser_rec l ++ "]"
  end.

(* One step = the return value, the number of records of get_all() after the step,
   and the records that differ from the table after the previous step (position and
   rendering; positions beyond the previous length always appear).  By induction over
   the steps two histories have the same rendering iff they have the same return
   values and the same get_all() after every step. *)
Fixpoint ser_delta (i : N) (old new : list string) : string :=
  match new with
  | [] => ""
  | y :: new' =>
      match old with
      | x :: old' => (if String.eqb x y then "" else ser_N i ++ y) ++ ser_delta (i + 1) old' new'
      | [] => ser_N i ++ y ++ ser_delta (i + 1) [] new'
      end
  end.

Fixpoint ser_outs_from (prev : list string) (l : list (ret * list rec)) : string :=
  match l with
  | [] => ""
  | x :: rest =>
      let cur := map ser_rec (snd x) in
      ser_ret (fst x) ++ "|" ++ ser_N (N.of_nat (List.length cur)) ++ ":" ++ ser_delta 0 prev cur ++ ";"
      ++ ser_outs_from cur rest
  end.

Definition ser_outs (l : list (ret * list rec)) : string := ser_outs_from [] l.
