(* C04 - executable model of what ties the HTTP reader to the WARC records:
     protocol/http/client.py   Session.start / Session.download: the events sent to the
                               listeners (begin_request, request_data, end_request,
                               response_data, begin_response, response_data, end_response)
                               and where the stream's notify_write / notify_read listeners
                               are attached
     protocol/http/stream.py   write_request / write_body: every piece is reported to the
                               write listeners and then written to the connection
     warc/recorder.py          HTTPWARCRecorderSession: one block file per request record,
                               ONE temp file per session for the response (created in
                               __init__, so data reported before begin_response is kept),
                               records handed to WARCRecorder.write_record
   Definitions only.  The reader itself is Model/HttpMsg.v. *)
From Coq Require Import List NArith Bool.
From Wpull Require Import Lib.Conn Model.PyText Model.Decomp Model.Chunked Model.HttpMsg.
Import ListNotations.
Open Scope N_scope.

(* ---------------- Stream.write_request / write_body ---------------- *)
Inductive wop :=
| WNotify (d : list N)       (* data_event_dispatcher.notify_write(data) *)
| WWrite (d : list N).       (* connection.write(data) *)

(* request head, then the body in read_size pieces: notify, then write, per piece *)
Definition write_ops (pieces : list (list N)) : list wop := flat_map (fun d => [WNotify d; WWrite d]) pieces.

Definition notified (ops : list wop) : list (list N) :=
  flat_map (fun x => match x with WNotify d => [d] | WWrite _ => [] end) ops.
Definition written (ops : list wop) : list N :=
  flat_map (fun x => match x with WWrite d => d | WNotify _ => [] end) ops.

(* ---------------- Session events ---------------- *)
Inductive ev :=
| BeginRequest (uri : list N)
| RequestData (d : list N)
| EndRequest
| BeginResponse
| ResponseData (d : list N)
| EndResponse.

(* ---------------- HTTPWARCRecorderSession ---------------- *)
Inductive rtype := TRequest | TResponse.
Record wrec := mkRec { w_type : rtype; w_id : N; w_uri : list N; w_concurrent : option N; w_block : list N }.

Record rsess := mkRS {
  rs_uri : list N;                   (* self._request.url_info.url *)
  rs_req : option (N * list N);      (* self._request_record: its WARC-Record-ID and its block file *)
  rs_tmp : list N;                   (* self._response_temp_file *)
  rs_resp : option (N * option N);   (* self._response_record: id, WARC-Concurrent-To *)
  rs_out : list wrec;                (* records given to recorder.write_record, in order *)
  rs_next : N                        (* fresh record ids (uuid4) *)
}.

Definition rs_init (next : N) : rsess := mkRS [] None [] None [] next.

Definition rs_step (s : rsess) (e : ev) : rsess :=
  match e with
  | BeginRequest uri => mkRS uri (Some (rs_next s, [])) (rs_tmp s) (rs_resp s) (rs_out s) (rs_next s + 1)
  | RequestData d =>
      match rs_req s with
      | Some (id, blk) => mkRS (rs_uri s) (Some (id, blk ++ d)) (rs_tmp s) (rs_resp s) (rs_out s) (rs_next s)
      | None => s
      end
  | EndRequest =>
      match rs_req s with
      | Some (id, blk) =>
          mkRS (rs_uri s) (rs_req s) (rs_tmp s) (rs_resp s) (rs_out s ++ [mkRec TRequest id (rs_uri s) None blk]) (rs_next s)
      | None => s
      end
  | BeginResponse =>
      mkRS (rs_uri s) (rs_req s) (rs_tmp s)
           (Some (rs_next s, match rs_req s with Some (id, _) => Some id | None => None end))
           (rs_out s) (rs_next s + 1)
  | ResponseData d => mkRS (rs_uri s) (rs_req s) (rs_tmp s ++ d) (rs_resp s) (rs_out s) (rs_next s)
  | EndResponse =>
      match rs_resp s with
      | Some (id, conc) =>
          mkRS (rs_uri s) (rs_req s) (rs_tmp s) (rs_resp s)
               (rs_out s ++ [mkRec TResponse id (rs_uri s) conc (rs_tmp s)]) (rs_next s)
      | None => s
      end
  end.

Definition rs_run (next : N) (evs : list ev) : list wrec := rs_out (fold_left rs_step evs (rs_init next)).

(* ---------------- one Session: start(request), download() ---------------- *)
Section Session.
  Variable zst : Type.
  Variable zinit : wbits -> zst.
  Variable zstep : zst -> N -> option (zst * list N).
  Variable zeof : zst -> bool.
  Variable zfl : zst -> list N.
  Variable o : oracle.

  (* [pieces]: request.to_bytes() and the body pieces; [c]: the connection when the
     response is read.  An exception (Err) ends the session: no further events.
     The read listener is attached before read_response; every notify_read call is a
     response_data event - the model emits one event per phase carrying the
     concatenation (the recorder only appends). *)
  Definition session_events (uri : list N) (pieces : list (list N)) (P : params) (c : conn) : list ev :=
    BeginRequest uri :: map RequestData (notified (write_ops pieces)) ++ EndRequest ::
    match read_response (mkSt c [] false) with
    | Err _ => []
    | Ok r s1 =>
        ResponseData (recd s1) :: BeginResponse ::
        match read_body zst zinit zstep zeof zfl o P r (mkSt (cn s1) [] (closed s1)) with
        | Err _ => []
        | Ok _ s2 => [ResponseData (recd s2); EndResponse]
        end
    end.

  Definition session_records (next : N) (uri : list N) (pieces : list (list N)) (P : params) (c : conn) : list wrec :=
    rs_run next (session_events uri pieces P c).

  (* the connection after a completed session, when it is still usable (the pool
     hands it to the next session); None: exception or closed by wpull *)
  Definition session_conn (P : params) (c : conn) : option conn :=
    match read_response (mkSt c [] false) with
    | Err _ => None
    | Ok r s1 =>
        match read_body zst zinit zstep zeof zfl o P r (mkSt (cn s1) [] (closed s1)) with
        | Err _ => None
        | Ok _ s2 => if closed s2 then None else Some (cn s2)
        end
    end.

  (* consecutive sessions on one persistent connection, in lockstep: the bytes of
     response k+1 arrive only after session k is complete; every session has its own
     recorder session (WARCRecorder._http_session_callback) *)
  Fixpoint sessions (next : N) (xs : list (list N * list (list N) * params * list N)) (c : conn) : list wrec :=
    match xs with
    | [] => []
    | (uri, pieces, P, bs) :: r =>
        let c0 := mkConn (pending c ++ bs) (eof_hit c) in
        session_records next uri pieces P c0 ++
        match session_conn P c0 with
        | Some c1 => sessions (next + 2) r c1
        | None => []
        end
    end.
End Session.
