(* Executable model, second part of C15: everything between a URL string and the
   path handed to os.makedirs / open() / os.symlink.

   1. urllib.parse.urlsplit and the SplitResult attributes hostname / port as
      CPython 3.12 implements them (the harness checks the interpreter version
      and compares this model with the real function on every run), so that
      PathNamer.get_filename is modelled from the URL STRING.  Two library
      checks that can only raise (NFKC check of the netloc, ipaddress check of a
      bracketed host) are oracles without any hypothesis.
   2. wpull/writer.py: BaseFileWriterSession.process_request /
      _process_file_continue_request / process_response with
      _rename_with_last_response, _rename_with_content_disposition,
      _append_filename_extension, for the four session classes (Overwrite,
      Ignore, Timestamping share _compute_filename; AntiClobber overrides it),
      open_file's directory creation, extra_resource_path, and
      wpull/processor/ftp.py _make_symlink (after the repair that sanitises the
      link name).
   Definitions only. *)
From Coq Require Import List NArith ZArith Bool.
From Wpull Require Import Model.Path.
Import ListNotations.
Open Scope N_scope.
Open Scope bool_scope.

(* ---------------------------------------------------------------- *)
(* urllib.parse.urlsplit (str input, scheme='', allow_fragments=True) *)
(* ---------------------------------------------------------------- *)
(* url.lstrip(_WHATWG_C0_CONTROL_OR_SPACE): code points 0 .. 0x20 *)
Fixpoint lstrip_c0 (s : str) : str :=
  match s with
  | c :: r => if c <=? 32 then lstrip_c0 r else s
  | [] => []
  end.

(* for b in '\t', '\r', '\n': url = url.replace(b, '') *)
Definition remove_tab_nl (s : str) : str :=
  filter (fun c => negb ((c =? 9) || (c =? 10) || (c =? 13))) s.

Definition is_ascii_alpha (c : N) : bool :=
  ((65 <=? c) && (c <=? 90)) || ((97 <=? c) && (c <=? 122)).
Definition is_ascii_digit (c : N) : bool := (48 <=? c) && (c <=? 57).
(* scheme_chars: letters, digits, "+-." *)
Definition is_scheme_char (c : N) : bool :=
  is_ascii_alpha c || is_ascii_digit c || (c =? 43) || (c =? 45) || (c =? 46).
Definition ascii_lower_char (c : N) : N := if (65 <=? c) && (c <=? 90) then c + 32 else c.

(* s.partition(sep) when sep occurs: (before, after) *)
Fixpoint cut_first (sep : N) (s : str) : option (str * str) :=
  match s with
  | [] => None
  | c :: r =>
      if c =? sep then Some ([], r)
      else match cut_first sep r with
           | Some (a, b) => Some (c :: a, b)
           | None => None
           end
  end.

(* s.rpartition(sep)[2] when sep occurs *)
Fixpoint after_last_opt (sep : N) (s : str) : option str :=
  match s with
  | [] => None
  | c :: r =>
      match after_last_opt sep r with
      | Some t => Some t
      | None => if c =? sep then Some r else None
      end
  end.
Definition after_last (sep : N) (s : str) : str :=
  match after_last_opt sep s with Some t => t | None => s end.

(* i = url.find(':'); if i > 0 and url[0].isascii() and url[0].isalpha() and all
   of url[:i] are scheme characters: scheme, url = url[:i].lower(), url[i+1:] *)
Definition split_scheme (url : str) : str * str :=
  match cut_first 58 url with
  | Some (c0 :: pre, rest) =>
      if is_ascii_alpha c0 && forallb is_scheme_char (c0 :: pre)
      then (map ascii_lower_char (c0 :: pre), rest)
      else ([], url)
  | _ => ([], url)
  end.

(* _splitnetloc(url, 2) applied after the leading '//' was removed: up to the
   first of '/', '?', '#' *)
Fixpoint span_netloc (s : str) : str * str :=
  match s with
  | [] => ([], [])
  | c :: r =>
      if (c =? 47) || (c =? 63) || (c =? 35) then ([], s)
      else let (a, b) := span_netloc r in (c :: a, b)
  end.

Definition has_char (x : N) (s : str) : bool := existsb (N.eqb x) s.

Record splitres := {
  sp_scheme : str;
  sp_netloc : str;
  sp_path : str;
  sp_query : str
}.

Section UrlSplit.
  (* _check_bracketed_host(text between '[' and ']'): True = does not raise *)
  Variable bracket_ok : str -> bool.
  (* _checknetloc(netloc): True = does not raise *)
  Variable netloc_ok : str -> bool.
  Variable pylower : str -> str.

  (* None = ValueError *)
  Definition urlsplit (url0 : str) : option splitres :=
    let url := remove_tab_nl (lstrip_c0 url0) in
    let (scheme, url1) := split_scheme url in
    let is_net := match url1 with a :: b :: _ => (a =? 47) && (b =? 47) | _ => false end in   (* url[:2] == '//' *)
    let '(netloc, url2) := if is_net then span_netloc (skipn 2 url1) else ([], url1) in
    let o := has_char 91 netloc in
    let cl := has_char 93 netloc in
    if is_net && (xorb o cl) then None
    else if is_net && o && cl
            && negb (bracket_ok (before_first 93 (match cut_first 91 netloc with
                                                  | Some (_, a) => a
                                                  | None => []
                                                  end)))
    then None
    else
      let url3 := before_first 35 url2 in                   (* drop the fragment *)
      let (path, query) := match cut_first 63 url3 with
                           | Some (a, b) => (a, b)
                           | None => (url3, [])
                           end in
      if negb (netloc_ok netloc) then None
      else Some {| sp_scheme := scheme; sp_netloc := netloc; sp_path := path; sp_query := query |}.

  (* SplitResult._hostinfo: (hostname text, port text); '' port stands for None *)
  Definition hostinfo (netloc : str) : str * str :=
    let hi := after_last 64 netloc in
    match cut_first 91 hi with
    | Some (_, bracketed) =>
        let (hostname, rest) := match cut_first 93 bracketed with
                                | Some (h, r) => (h, r)
                                | None => (bracketed, [])
                                end in
        (hostname, match cut_first 58 rest with Some (_, p) => p | None => [] end)
    | None =>
        match cut_first 58 hi with
        | Some (h, p) => (h, p)
        | None => (hi, [])
        end
    end.

  (* SplitResult.hostname *)
  Definition hostname_of (h : str) : option str :=
    if is_nil h then None
    else match cut_first 37 h with
         | Some (a, z) => Some (pylower a ++ 37 :: z)
         | None => Some (pylower h)
         end.

  Definition digits_value (s : str) : N := fold_left (fun acc d => acc * 10 + (d - 48)) s 0.

  (* SplitResult.port: None = ValueError, Some None = no port *)
  Definition port_of (p : str) : option (option N) :=
    if is_nil p then Some None
    else if forallb is_ascii_digit p
         then (if digits_value p <=? 65535 then Some (Some (digits_value p)) else None)
         else None.

  Variable sha1hex : list N -> str.
  Variable pyupper : str -> str.

  (* the seven values path.py reads; the port only when it is read
     (url_to_dir_parts with include_hostname) *)
  Definition urlparts_of (need_port : bool) (url : str) (is_ftp : bool) : result urlparts :=
    match urlsplit url with
    | None => Err EValue
    | Some sp =>
        let (h, ptxt) := hostinfo (sp_netloc sp) in
        match (if need_port then port_of ptxt else Some None) with
        | None => Err EValue
        | Some port =>
            Ok {| u_scheme := sp_scheme sp; u_hostname := hostname_of h; u_port := port;
                  u_path := sp_path sp; u_query := sp_query sp;
                  u_ends_slash := ends_with_char 47 url; u_is_ftp := is_ftp |}
        end
    end.

  (* PathNamer.get_filename(url_info) with url = url_info.url and
     is_ftp = (url_info.scheme == 'ftp') *)
  Definition get_filename_url (c : cfg) (root url : str) (is_ftp : bool) : result str :=
    bind (urlparts_of (use_dir c && hostname_dir c) url is_ftp)
         (fun u => get_filename sha1hex pylower pyupper c root u).
End UrlSplit.

(* ---------------------------------------------------------------- *)
(* writer.py                                                         *)
(* ---------------------------------------------------------------- *)
Inductive writer_kind := WOverwrite | WIgnore | WTimestamping | WAntiClobber.

Record wflags := {
  w_kind : writer_kind;
  w_continue : bool;          (* file_continuing *)
  w_trust : bool;             (* trust_server_names *)
  w_cd : bool;                (* content_disposition *)
  w_adjust : bool             (* adjust_extension *)
}.

(* what process_response reads from the response *)
Record wresponse := {
  r_ftp : bool;               (* response.request.url_info.scheme == 'ftp' *)
  r_http : bool;              (* ... in ('http', 'https') *)
  r_code : Z;                 (* response.status_code *)
  r_url : urlparts;           (* response.request.url_info (the last hop) *)
  r_header : option str;      (* response.fields.get('Content-Disposition') *)
  r_html : bool;              (* HTMLReader.is_response(response) *)
  r_css : bool;               (* CSSReader.is_response(response) *)
  r_restart : bool            (* request.restart_value and response.restart_value *)
}.

Inductive wout :=
| WOpen (f : str)             (* open_file(f, mode 'wb+') *)
| WAppend (f : str)           (* open_file(f, mode 'ab+') *)
| WNoFile                     (* nothing is opened *)
| WCannotContinue             (* ProtocolError "Server not able to continue" (a per-URL error) *)
| WFuel.                      (* model only: the unbounded .N loop ran out of fuel *)

(* pattern elements are (lower, upper) letter pairs, reversed; r is the reversed text *)
Fixpoint match_rev (pat : list (N * N)) (r : str) : bool :=
  match pat with
  | [] => true
  | (a, b) :: pat' =>
      match r with
      | c :: r' => ((c =? a) || (c =? b)) && match_rev pat' r'
      | [] => false
      end
  end.

(* re.search(pat + '$', s): '$' matches at the end and before a final '\n' *)
Definition ends_rev (alts : list (list (N * N))) (s : str) : bool :=
  let r := rev s in
  existsb (fun p => match_rev p r) alts
  || match r with
     | 10 :: r' => existsb (fun p => match_rev p r') alts
     | _ => false
     end.

Definition pat_html : list (list (N * N)) :=        (* \.[hH][tT][mM][lL]? *)
  [ [(108, 76); (109, 77); (116, 84); (104, 72); (46, 46)];
    [(109, 77); (116, 84); (104, 72); (46, 46)] ].
Definition pat_css : list (list (N * N)) :=         (* \.[cC][sS][sS] *)
  [ [(115, 83); (115, 83); (99, 67); (46, 46)] ].

Definition ext_html : str := [46; 104; 116; 109; 108].      (* '.html' *)
Definition ext_css : str := [46; 99; 115; 115].             (* '.css' *)
Definition suffix_dummy : str := [100; 117; 109; 109; 121]. (* 'dummy' *)

(* _append_filename_extension *)
Definition append_extension (http html css : bool) (f : str) : str :=
  if is_nil f then f
  else if negb http then f
  else if negb (ends_rev pat_html f) && html then f ++ ext_html
  else if negb (ends_rev pat_css f) && css then f ++ ext_css
  else f.

Section Session.
  Variable sha1hex : list N -> str.
  Variable pylower : str -> str.
  Variable pyupper : str -> str.
  Variable fs_isfile_o : str -> bool.
  Variable fs_isdir_o : str -> bool.
  Variable fs_exists_o : str -> bool.

  (* self._compute_filename(request) of the session class; None = out of fuel *)
  Definition session_compute (k : writer_kind) (fuel : nat) (c : cfg) (root : str) (u : urlparts)
    : result (option str) :=
    bind (get_filename sha1hex pylower pyupper c root u) (fun path =>
      Ok (match k with
          | WAntiClobber => compute_filename_anticlobber fs_isfile_o fs_exists_o fuel path
          | _ => compute_filename fs_isfile_o fs_isdir_o path
          end)).

  (* process_request on a fresh session: (self._filename, self._file_continue_requested) *)
  Definition process_request_name (w : wflags) (fuel : nat) (c : cfg) (root : str) (u : urlparts)
    : result (option (str * bool)) :=
    bind (session_compute (w_kind w) fuel c root u) (fun o =>
      Ok (match o with
          | None => None
          | Some f => Some (f, w_continue w && negb (is_nil f) && fs_exists_o f)
          end)).

  (* process_response with self._filename = f *)
  Definition process_response_name (w : wflags) (fuel : nat) (c : cfg) (root : str)
             (continue_requested : bool) (r : wresponse) (f : str) : result wout :=
    if is_nil f then Ok WNoFile
    else if r_ftp r then
      (if continue_requested
       then (if r_restart r then Ok (WAppend f) else Ok WCannotContinue)
       else Ok (WOpen f))
    else if continue_requested then
      (if (r_code r =? 206)%Z then Ok (WAppend f) else Ok WCannotContinue)
    else if (((200 <=? r_code r) && (r_code r <=? 299)) || (400 <=? r_code r))%Z then
      bind (if w_trust w && r_http r
            then session_compute (w_kind w) fuel c root (r_url r)
            else Ok (Some f)) (fun o1 =>
        match o1 with
        | None => Ok WFuel
        | Some f1 =>
            bind (if w_cd w
                  then rename_with_content_disposition sha1hex pylower pyupper c (r_http r) (r_header r) f1
                  else Ok f1) (fun f2 =>
              Ok (WOpen (if w_adjust w then append_extension (r_http r) (r_html r) (r_css r) f2 else f2)))
        end)
    else Ok WNoFile.

  Definition session_run (w : wflags) (fuel : nat) (c : cfg) (root : str) (u : urlparts) (r : wresponse)
    : result wout :=
    bind (process_request_name w fuel c root u) (fun o =>
      match o with
      | None => Ok WFuel
      | Some (f, cont) => process_response_name w fuel c root cont r f
      end).

  (* open_file: os.makedirs(dir) is called iff dir is non-empty and does not exist *)
  Definition makedirs_arg (f : str) : option str :=
    let d := posix_dirname f in
    if negb (is_nil d) && negb (fs_exists_o d) then Some d else None.

  (* extra_resource_path(suffix) *)
  Definition extra_resource_path (f suffix : str) : option str :=
    if is_nil f then None else Some (f ++ suffix).

  (* processor/ftp.py _make_symlink(link_name, ...): the path given to os.symlink *)
  Definition symlink_path (c : cfg) (f link_name : str) : result (option str) :=
    match extra_resource_path f suffix_dummy with
    | None => Ok None
    | Some path =>
        if is_nil path || is_nil link_name then Ok None
        else bind (safe_filename sha1hex pylower pyupper c link_name) (fun n =>
               Ok (Some (posix_join (posix_dirname path) [n])))
    end.
End Session.

(* ---------------------------------------------------------------- *)
(* helpers for the correspondence run                                *)
(* ---------------------------------------------------------------- *)
Definition tab_bool (tab : list (str * bool)) (x : str) : bool :=
  match find (fun p => str_eqb (fst p) x) tab with
  | Some p => snd p
  | None => true
  end.

Definition opt_N_eqb (a b : option N) : bool :=
  match a, b with
  | Some x, Some y => x =? y
  | None, None => true
  | _, _ => false
  end.

Definition urlparts_eqb (a b : urlparts) : bool :=
  str_eqb (u_scheme a) (u_scheme b) && opt_str_eqb (u_hostname a) (u_hostname b)
  && opt_N_eqb (u_port a) (u_port b) && str_eqb (u_path a) (u_path b)
  && str_eqb (u_query a) (u_query b) && Bool.eqb (u_ends_slash a) (u_ends_slash b)
  && Bool.eqb (u_is_ftp a) (u_is_ftp b).

Definition res_parts_eqb (a b : result urlparts) : bool :=
  match a, b with
  | Ok x, Ok y => urlparts_eqb x y
  | Err x, Err y => error_eqb x y
  | _, _ => false
  end.

Definition wout_eqb (a b : wout) : bool :=
  match a, b with
  | WOpen x, WOpen y | WAppend x, WAppend y => str_eqb x y
  | WNoFile, WNoFile | WCannotContinue, WCannotContinue | WFuel, WFuel => true
  | _, _ => false
  end.

Definition res_wout_eqb (a b : result wout) : bool :=
  match a, b with
  | Ok x, Ok y => wout_eqb x y
  | Err x, Err y => error_eqb x y
  | _, _ => false
  end.

Definition res_opt_eqb (a b : result (option str)) : bool :=
  match a, b with
  | Ok x, Ok y => opt_str_eqb x y
  | Err x, Err y => error_eqb x y
  | _, _ => false
  end.
