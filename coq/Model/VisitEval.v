(* Model/VisitEval.v - evaluation harness for the correspondence of C18: the visit model of
   Model/Visit.v run against a SCRIPTED server (every path answers with a sequence of responses,
   counted over the whole crawl), with the filter verdict computed by the TRANSLATED filters
   (Gen/UrlFilter.v) built from the parsed command line.  Definitions only. *)
From Coq Require Import List NArith ZArith Bool.
From Wpull Require Import Lib.MiniPy Spec.Scope Gen.UrlFilter Model.Visit Model.FilterEval.
Import ListNotations.
Open Scope nat_scope.
Open Scope bool_scope.

Record script_page := { sp_url : vstr; sp_seq : list sresp; sp_cycle : bool }.
Definition counts := list (vstr * nat).

Definition count_of (c : counts) (u : vstr) : nat :=
  match find (fun e => str_eqb u (fst e)) c with Some e => snd e | None => 0 end.
Fixpoint bump (c : counts) (u : vstr) : counts :=
  match c with
  | [] => [(u, 1)]
  | (k, n) :: c' => if str_eqb u k then (k, S n) :: c' else (k, n) :: bump c' u
  end.

(* the k-th answer of a page *)
Definition answer (p : script_page) (k : nat) : sresp :=
  let n := List.length (sp_seq p) in
  match n with
  | 0 => Resp 404%Z None
  | _ => nth (if Nat.ltb k n then k else if sp_cycle p then Nat.modulo k n else Nat.pred n) (sp_seq p) Fail
  end.

Definition respond (script : list script_page) (c : counts) (u : vstr) : sresp :=
  match find (fun p => str_eqb u (sp_url p)) script with
  | Some p => answer p (count_of c u)
  | None => Resp 404%Z None                       (* crawl_run.py: unknown path *)
  end.

(* the server of one visit: the crawl-wide counters at its start + the requests of this visit so far *)
Definition server_of (script : list script_page) (c0 : counts) : list req -> sresp :=
  fun h => match rev h with
           | rq :: earlier => respond script (fold_left (fun c r => bump c (rq_url r)) (rev earlier) c0) (rq_url rq)
           | [] => Fail
           end.

Definition requested (ev : list event) : list vstr :=
  flat_map (fun e => match e with ERequest _ rq => [rq_url rq] | _ => [] end) ev.

Section Run.
  Variable urljoin : vstr -> vstr -> option vstr.
  Variable parseable : vstr -> bool.
  Variable cfg : config.
  Variable consult_tc : Z -> vstr -> bool -> bool.
  Variable robots : vstr -> robots_result.
  Variable script : list script_page.
  Variable u : vstr.

  (* successive check-outs of the row of u until it is final (at most n) *)
  Fixpoint run_visits (n : nat) (c : counts) (i : item) : list (list event) * item :=
    match n with
    | 0 => ([], i)
    | S n' =>
        if checked_out i then
          let '(i1, ev) := visit_item urljoin parseable cfg consult_tc u (robots, server_of script c) i in
          let c1 := fold_left bump (requested ev) c in
          let '(evs, i2) := run_visits n' c1 i1 in
          (ev :: evs, i2)
        else ([], i)
    end.
End Run.

(* robots.txt verdicts of a scripted site: URL prefixes of origins whose robots.txt answers 5xx
   (the fetch fails: ServerError), and URL prefixes that the rules of their origin disallow *)
Fixpoint vprefix (p u : vstr) : bool :=
  match p, u with
  | [], _ => true
  | x :: p', y :: u' => N.eqb x y && vprefix p' u'
  | _ :: _, [] => false
  end.
Definition tab_robots (fails denies : list vstr) : vstr -> robots_result :=
  fun u => if existsb (fun p => vprefix p u) fails then RFail
           else if existsb (fun p => vprefix p u) denies then RDeny else RAllow.

Definition istatus_code (s : istatus) : nat :=
  match s with ITodo => 0 | IError => 1 | IDone => 2 | ISkipped => 3 end.

(* the verdict function of the visit: consult_filters of the filters built from the options *)
Definition consult_model (L : lib) (a : args) (hs : list str) (tc : Z) (u : vstr) (w : bool) : bool :=
  match eval_case 8 L a hs (l_parse L u) {| r_level := 0%Z; r_inline := None; r_tries := tc; r_parent := None; r_root := None |}
                  (PBool w) with
  | Some c => cr_verdict c
  | None => false
  end.

Definition tab_join (t : list (vstr * vstr * option vstr)) : vstr -> vstr -> option vstr :=
  fun b l => match find (fun e => str_eqb b (fst (fst e)) && str_eqb l (snd (fst e))) t with
             | Some e => snd e | None => None end.
Definition tab_ok (t : list vstr) : vstr -> bool := fun s => existsb (str_eqb s) t.

(* what is compared with the implementation for one start URL: the URLs requested, in order, over all
   its visits; the final status and try_count of its row; and the number of requests of each visit *)
Definition item_summary (r : list (list event) * item) : list vstr * nat * Z * list nat :=
  (flat_map requested (fst r), istatus_code (it_status (snd r)), it_tries (snd r), map count_requests (fst r)).

Definition summary_eqb (s : list vstr * nat * Z * list nat) (urls : list vstr) (st : nat) (tc : Z) : bool :=
  let '(us, st', tc', _) := s in strs_eqb us urls && Nat.eqb st' st && Z.eqb tc' tc.
