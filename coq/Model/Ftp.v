(* Executable model of wpull's FTP client as far as property C17 talks about it
   (tree with the F22 / F23 / F25 fixes):

     wpull/protocol/ftp/request.py   Command.to_bytes, Reply.parse
     wpull/protocol/ftp/stream.py    ControlStream.write_command / read_reply,
                                     DataStream.read_file
     wpull/protocol/ftp/command.py   Commander.read_welcome_message, login,
                                     passive_mode, setup_data_stream, begin_stream,
                                     read_stream, size, restart
     wpull/protocol/ftp/client.py    Session._log_in, _prepare_fetch, start,
                                     start_listing, download
     wpull/protocol/ftp/util.py      parse_address

   Text (Python str) is a list of code points, bytes are a list of numbers < 256.
   Definitions only.  The strings handed to Command are the values AFTER the
   unquote step (Request.file_path, URLInfo.username / password): the model
   takes them as arbitrary code point lists, so every byte value in every
   position is covered. *)
From Coq Require Import List NArith Bool Arith.
From Wpull Require Import Model.FtpConn.
Import ListNotations.
Open Scope N_scope.
Open Scope bool_scope.

(* ------------------------------------------------------------------ *)
(* str.encode('utf-8', errors='surrogateescape')                       *)
(* ------------------------------------------------------------------ *)
Definition utf8_cp (c : N) : option (list N) :=
  if c <? 128 then Some [c]
  else if c <? 2048 then Some [192 + c / 64; 128 + c mod 64]
  else if c <? 55296 then Some [224 + c / 4096; 128 + (c / 64) mod 64; 128 + c mod 64]
  else if c <? 57344 then
    (* surrogates: only U+DC80..U+DCFF are escapes for the bytes 0x80..0xFF *)
    if (56448 <=? c) && (c <=? 56575) then Some [c - 56320] else None
  else if c <? 65536 then Some [224 + c / 4096; 128 + (c / 64) mod 64; 128 + c mod 64]
  else if c <? 1114112 then
    Some [240 + c / 262144; 128 + (c / 4096) mod 64; 128 + (c / 64) mod 64; 128 + c mod 64]
  else None.

(* None = UnicodeEncodeError *)
Fixpoint utf8_se (l : list N) : option (list N) :=
  match l with
  | [] => Some []
  | c :: r =>
      match utf8_cp c, utf8_se r with
      | Some a, Some b => Some (a ++ b)
      | _, _ => None
      end
  end.

(* ------------------------------------------------------------------ *)
(* Command.to_bytes (after the F22 fix)                                *)
(* ------------------------------------------------------------------ *)
Definition bad_char (c : N) : bool := (c =? 13) || (c =? 10) || (c =? 0).

Inductive cmd_bytes :=
| CmdOk (bs : list N)
| CmdProtocolErr          (* ProtocolError('Command contains a line break or NUL.') *)
| CmdEncodeErr.           (* UnicodeEncodeError: lone surrogate; nothing is written *)

Definition to_bytes (name arg : list N) : cmd_bytes :=
  let line := name ++ 32 :: arg in
  if existsb bad_char line then CmdProtocolErr
  else match utf8_se (line ++ [13; 10]) with
       | Some b => CmdOk b
       | None => CmdEncodeErr
       end.

(* command names used by Commander / Session (Command.name upper-cases them;
   they are literals in the code) *)
Definition USER : list N := [85; 83; 69; 82].
Definition PASS : list N := [80; 65; 83; 83].
Definition TYPE_ : list N := [84; 89; 80; 69].
Definition PASV : list N := [80; 65; 83; 86].
Definition SIZE : list N := [83; 73; 90; 69].
Definition REST : list N := [82; 69; 83; 84].
Definition RETR : list N := [82; 69; 84; 82].
Definition MLSD : list N := [77; 76; 83; 68].
Definition LIST_ : list N := [76; 73; 83; 84].
Definition command_names : list (list N) := [USER; PASS; TYPE_; PASV; SIZE; REST; RETR; MLSD; LIST_].

(* ------------------------------------------------------------------ *)
(* Reply.parse                                                         *)
(* ------------------------------------------------------------------ *)
(* list reversal in linear time (List.rev is quadratic; lines can be 64 KiB) *)
Definition frev (l : list N) : list N := rev_append l [].

(* bytes.splitlines(False): boundaries are LF, CR and CRLF only *)
Fixpoint splitlines_aux (cur : list N) (l : list N) : list (list N) :=
  match l with
  | [] => match cur with [] => [] | _ :: _ => [frev cur] end
  | x :: r =>
      if x =? 10 then frev cur :: splitlines_aux [] r
      else if x =? 13 then
        match r with
        | y :: r' => if y =? 10 then frev cur :: splitlines_aux [] r' else frev cur :: splitlines_aux [] r
        | [] => [frev cur]
        end
      else splitlines_aux (x :: cur) r
  end.
Definition splitlines (l : list N) : list (list N) := splitlines_aux [] l.

Definition is_digit (b : N) : bool := (48 <=? b) && (b <=? 57).

(* Reply under construction: code, text (bytes of the str, i.e. its
   utf-8/surrogateescape encoding - decoding a line and encoding it again is the
   identity, PEP 383) *)
Record rstate := mkR { r_code : option N; r_text : option (list N) }.

(* re.match of  (3 digits or empty) (optional SP or hyphen) (rest)  on the line: group 1 *)
Definition split_code (line : list N) : option N * list N :=
  match line with
  | a :: b :: c :: r =>
      if is_digit a && is_digit b && is_digit c
      then (Some ((a - 48) * 100 + (b - 48) * 10 + (c - 48)), r)
      else (None, line)
  | _ => (None, line)
  end.

(* group 2 and group 3 (the line has no LF, so '.*' takes all the rest) *)
Definition split_sep (l : list N) : option N * list N :=
  match l with
  | x :: r => if (x =? 32) || (x =? 45) then (Some x, r) else (None, l)
  | [] => (None, [])
  end.

(* one iteration of the loop body; None = ProtocolError (F23 fix: was assert) *)
Definition parse_one (st : rstate) (line : list N) : option rstate :=
  let '(code, r1) := split_code line in
  let '(sep, txt) := split_sep r1 in
  let final := match code, sep with
               | Some k, Some x => if x =? 32 then Some k else None
               | _, _ => None
               end in
  let text' := match r_text st with
               | None => txt
               | Some t => t ++ 13 :: 10 :: txt
               end in
  match final with
  | Some k =>
      match r_code st with
      | Some _ => None
      | None => Some (mkR (Some k) (Some text'))
      end
  | None => Some (mkR (r_code st) (Some text'))
  end.

Fixpoint parse_lines (st : rstate) (lines : list (list N)) : option rstate :=
  match lines with
  | [] => Some st
  | l :: r => match parse_one st l with None => None | Some st' => parse_lines st' r end
  end.

Definition reply_parse (st : rstate) (data : list N) : option rstate :=
  parse_lines st (splitlines data).

(* ------------------------------------------------------------------ *)
(* errors, as classes of exceptions                                    *)
(* ------------------------------------------------------------------ *)
Inductive err :=
| ENetwork                (* NetworkError('Connection closed.') *)
| EProtocol               (* ProtocolError *)
| EOverlong               (* line over the StreamReader limit: ValueError from readline, which the F24 fix
                             in Connection.readline turns into a ProtocolError; one class here *)
| EServer (code : N)      (* FTPServerError(.., reply.code) *)
| EAuth                   (* AuthenticationError *)
| EEncode                 (* UnicodeEncodeError *)
| EFuel.                  (* model artefact; proved unreachable *)

(* ------------------------------------------------------------------ *)
(* ControlStream.read_reply                                            *)
(* ------------------------------------------------------------------ *)
Inductive rr :=
| RROk (code : N) (text : list N) (c : conn)
| RRErr (e : err).

Definition ends_with_lf (line : list N) : bool :=
  match frev line with x :: _ => x =? 10 | [] => false end.

Definition text_of (st : rstate) : list N := match r_text st with Some t => t | None => [] end.

Section Limit.
  Variable limit : N.      (* StreamReader limit, 2**16 in asyncio.open_connection *)

  Fixpoint read_reply (fuel : nat) (st : rstate) (c : conn) : rr :=
    match fuel with
    | O => RRErr EFuel
    | S f =>
        match readline limit (readline_fuel c) c with
        | RlFuel => RRErr EFuel
        | RlOverrun => RRErr EOverlong
        | RlLine line c' =>
            if negb (ends_with_lf line) then RRErr ENetwork
            else match reply_parse st line with
                 | None => RRErr EProtocol
                 | Some st' =>
                     match r_code st' with
                     | Some code => RROk code (text_of st') c'
                     | None => read_reply f st' c'
                     end
                 end
        end
    end.

  (* every iteration consumes at least one byte of the stream *)
  Definition read_reply_fuel (c : conn) : nat := S (S (length (stream c))).

  (* the same loop over the byte stream alone (no oracle) *)
  Inductive rrs :=
  | SOk (code : N) (text : list N) (rest : list N)
  | SErr (e : err).

  Fixpoint read_reply_spec (fuel : nat) (st : rstate) (s : list N) : rrs :=
    match fuel with
    | O => SErr EFuel
    | S f =>
        match readline_spec limit s with
        | SOverrun => SErr EOverlong
        | SLine line rest =>
            if negb (ends_with_lf line) then SErr ENetwork
            else match reply_parse st line with
                 | None => SErr EProtocol
                 | Some st' =>
                     match r_code st' with
                     | Some code => SOk code (text_of st') rest
                     | None => read_reply_spec f st' rest
                     end
                 end
        end
    end.

  Definition rr_view (r : rr) : rrs :=
    match r with
    | RROk code text c => SOk code text (stream c)
    | RRErr e => SErr e
    end.
End Limit.

(* the reader as ControlStream.read_reply runs it: fresh Reply, adequate fuel *)
Definition read_reply_run (limit : N) (c : conn) : rr :=
  read_reply limit (read_reply_fuel c) (mkR None None) c.

(* what the byte stream alone determines (reference for read_reply_run) *)
Definition reply_of_stream (limit : N) (s : list N) : rrs :=
  read_reply_spec limit (S (S (length s))) (mkR None None) s.

(* ------------------------------------------------------------------ *)
(* util.parse_address (after the F25 fix), on ASCII text               *)
(* ------------------------------------------------------------------ *)
Definition is_space (b : N) : bool :=
  (b =? 32) || ((9 <=? b) && (b <=? 13)) || ((28 <=? b) && (b <=? 31)).

(* (\d{1,3}) greedy; a 4th digit makes the whole attempt fail later because
   only \s, ',' or ')' may follow *)
Definition take_digits (l : list N) : option (N * list N) :=
  match l with
  | a :: r =>
      if is_digit a then
        match r with
        | b :: r2 =>
            if is_digit b then
              match r2 with
              | c :: r3 =>
                  if is_digit c then Some (((a - 48) * 10 + (b - 48)) * 10 + (c - 48), r3)
                  else Some ((a - 48) * 10 + (b - 48), r2)
              | [] => Some ((a - 48) * 10 + (b - 48), [])
              end
            else Some (a - 48, r)
        | [] => Some (a - 48, [])
        end
      else None
  | [] => None
  end.

Fixpoint skip_space (l : list N) : list N :=
  match l with
  | x :: r => if is_space x then skip_space r else l
  | [] => []
  end.

Definition expect_ch (ch : N) (l : list N) : option (list N) :=
  match l with
  | x :: r => if x =? ch then Some r else None
  | [] => None
  end.

(* (\d{1,3})\s*,\s*  *)
Definition num_comma (l : list N) : option (N * list N) :=
  match take_digits l with
  | None => None
  | Some (n, l1) =>
      match expect_ch 44 (skip_space l1) with
      | None => None
      | Some l2 => Some (n, skip_space l2)
      end
  end.

(* the pattern, tried right after an opening parenthesis *)
Definition match_addr (l : list N) : option (list N) :=
  match num_comma l with None => None | Some (n1, l1) =>
  match num_comma l1 with None => None | Some (n2, l2) =>
  match num_comma l2 with None => None | Some (n3, l3) =>
  match num_comma l3 with None => None | Some (n4, l4) =>
  match num_comma l4 with None => None | Some (n5, l5) =>
  match take_digits l5 with None => None | Some (n6, l6) =>
  match expect_ch 41 (skip_space l6) with None => None | Some _ =>
    Some [n1; n2; n3; n4; n5; n6]
  end end end end end end end.

(* re.search: leftmost match *)
Fixpoint search_addr (l : list N) : option (list N) :=
  match l with
  | [] => None
  | x :: r =>
      if x =? 40 then
        match match_addr r with
        | Some a => Some a
        | None => search_addr r
        end
      else search_addr r
  end.

(* None = ValueError (-> ProtocolError in Commander.passive_mode);
   result: four address numbers and the port *)
Definition parse_address (text : list N) : option (list N * N) :=
  match search_addr text with
  | Some [n1; n2; n3; n4; n5; n6] =>
      if existsb (fun n => 255 <? n) [n1; n2; n3; n4; n5; n6] then None
      else Some ([n1; n2; n3; n4], n5 * 256 + n6)
  | _ => None
  end.

(* ------------------------------------------------------------------ *)
(* str(int) for REST                                                   *)
(* ------------------------------------------------------------------ *)
Fixpoint uint_digits (u : Decimal.uint) : list N :=
  match u with
  | Decimal.Nil => []
  | Decimal.D0 r => 48 :: uint_digits r
  | Decimal.D1 r => 49 :: uint_digits r
  | Decimal.D2 r => 50 :: uint_digits r
  | Decimal.D3 r => 51 :: uint_digits r
  | Decimal.D4 r => 52 :: uint_digits r
  | Decimal.D5 r => 53 :: uint_digits r
  | Decimal.D6 r => 54 :: uint_digits r
  | Decimal.D7 r => 55 :: uint_digits r
  | Decimal.D8 r => 56 :: uint_digits r
  | Decimal.D9 r => 57 :: uint_digits r
  end.
Definition dec (n : N) : list N := uint_digits (N.to_uint n).

(* ------------------------------------------------------------------ *)
(* the session: a state/error monad with an event trace                *)
(* ------------------------------------------------------------------ *)
Inductive event :=
| EvWrite (bs : list N)                      (* one Connection.write on the control connection *)
| EvReply (code : N)                         (* ControlStream.read_reply returned *)
| EvRestart (offset : N)                     (* response.restart_value = offset: the server accepted REST *)
| EvDataOpen (addr : list N) (port : N)      (* data connection requested from the pool *)
| EvData (chunk : list N)                    (* DataStream.read_file got a chunk *)
| EvDataEof                                  (* ... got b'': the data connection reached EOF *)
| EvDataClose.                               (* data_stream.close() after the 226 *)

(* s_net is the ARRIVAL SCHEDULE, the interleaving oracle of the two
   connections.  The client is one asyncio task; whenever it is suspended
   (drain after a write, every wait inside readline / read, pool acquire and
   connect of the data connection) the event loop may feed bytes that arrived
   on EITHER connection into that connection's StreamReader buffer, whether or
   not the client is waiting for that connection - this is how a "226" can sit
   in the control buffer long before the data connection reaches EOF, or data
   can be buffered before RETR is even answered.  One element (a, b) of s_net
   is consumed at every primitive step of the session (after each command
   write, before each read_reply, at the opening of the data connection,
   before each read(4096) of the data connection): a more bytes of the control
   stream and b more bytes of the data stream move from the wire into the
   buffers.  Arrivals DURING a primitive on the connection that primitive does
   not touch are indistinguishable from arrivals right after it (the primitive
   never looks at the other connection), and arrivals on the connection it
   waits for are the segmentation oracle c_sched of that connection.  An
   exhausted schedule means no spontaneous arrivals.  Quantifying over s_net,
   both c_sched and both c_buf quantifies over every interleaving of control
   and data arrival events with the client's steps. *)
Record sess := mkSess { s_ctrl : conn; s_data : conn; s_tr : list event; s_net : list (nat * nat) }.

Definition arrive (s : sess) : sess :=
  match s_net s with
  | [] => s
  | (a, b) :: r => mkSess (push a (s_ctrl s)) (push b (s_data s)) (s_tr s) r
  end.

Inductive res (A : Type) :=
| Ok (a : A)
| Err (e : err).
Arguments Ok {A} a.
Arguments Err {A} e.

Definition M (A : Type) : Type := sess -> sess * res A.

Definition ret {A} (a : A) : M A := fun s => (s, Ok a).
Definition raise {A} (e : err) : M A := fun s => (s, Err e).
Definition bind {A B} (m : M A) (f : A -> M B) : M B :=
  fun s => match m s with
           | (s1, Ok a) => f a s1
           | (s1, Err e) => (s1, Err e)
           end.
Notation "x <- m ;; f" := (bind m (fun x => f)) (at level 61, m at next level, right associativity).
Notation "m ;;; f" := (bind m (fun _ => f)) (at level 61, right associativity).

(* try: m  except FTPServerError as error: h error.reply_code *)
Definition catch_server {A} (m : M A) (h : N -> M A) : M A :=
  fun s => match m s with
           | (s1, Err (EServer code)) => h code s1
           | x => x
           end.

Definition emit (ev : event) : M unit :=
  fun s => (mkSess (s_ctrl s) (s_data s) (s_tr s ++ [ev]) (s_net s), Ok tt).

Definition arrive_m : M unit := fun s => (arrive s, Ok tt).

(* Python `a or b or default` on str / None *)
Definition nonempty (l : list N) : bool := match l with [] => false | _ :: _ => true end.
Definition pick (a : list N) (b : option (list N)) (d : list N) : list N :=
  if nonempty a then a
  else match b with
       | Some x => if nonempty x then x else d
       | None => d
       end.

Fixpoint list_eqb (a b : list N) : bool :=
  match a, b with
  | [], [] => true
  | x :: a', y :: b' => (x =? y) && list_eqb a' b'
  | _, _ => false
  end.

Definition anonymous : list N := [97; 110; 111; 110; 121; 109; 111; 117; 115].
Definition default_password : list N := [45; 119; 112; 117; 108; 108; 64].      (* '-wpull@' *)

Record request := mkReq {
  q_url_user : list N;              (* url_info.username  (percent-decoded) *)
  q_url_pass : list N;              (* url_info.password  (percent-decoded) *)
  q_req_user : option (list N);     (* request.username (from --ftp-user) *)
  q_req_pass : option (list N);
  q_path : list N;                  (* request.file_path = unquote(url_info.path) *)
  q_restart : option N;             (* request.restart_value *)
  q_listing : bool                  (* start_listing instead of start *)
}.

(* Session._log_in: the two login values *)
Definition req_user (q : request) : list N := pick (q_url_user q) (q_req_user q) anonymous.
Definition req_pass (q : request) : list N := pick (q_url_pass q) (q_req_pass q) default_password.

Section Session.
  Variable limit : N.

  (* ControlStream.write_command: to_bytes, Connection.write (writer.write, then
     drain: a suspension point) *)
  Definition write_command (name arg : list N) : M unit :=
    fun s => match to_bytes name arg with
             | CmdOk b => (arrive (mkSess (s_ctrl s) (s_data s) (s_tr s ++ [EvWrite b]) (s_net s)), Ok tt)
             | CmdProtocolErr => (s, Err EProtocol)
             | CmdEncodeErr => (s, Err EEncode)
             end.

  (* ControlStream.read_reply *)
  Definition read_reply_m : M (N * list N) :=
    fun s => let s0 := arrive s in
             match read_reply_run limit (s_ctrl s0) with
             | RROk code text c' => (mkSess c' (s_data s0) (s_tr s0 ++ [EvReply code]) (s_net s0), Ok (code, text))
             | RRErr e => (s0, Err e)
             end.

  (* Commander.raise_if_not_match *)
  Definition expect_code (codes : list N) (r : N * list N) : M unit :=
    if existsb (N.eqb (fst r)) codes then ret tt else raise (EServer (fst r)).

  Definition read_welcome : M unit :=
    r <- read_reply_m ;; expect_code [220] r.

  (* Commander.login *)
  Definition login (user pass : list N) : M unit :=
    write_command USER user ;;;
    r <- read_reply_m ;;
    if fst r =? 230 then ret tt
    else
      expect_code [331] r ;;;
      write_command PASS pass ;;;
      r2 <- read_reply_m ;;
      expect_code [230] r2.

  (* Session._log_in *)
  Definition cache_hit (q : request) (cached : option (list N * list N)) : bool :=
    match cached with
    | Some (u, p) => list_eqb u (req_user q) && list_eqb p (req_pass q)
    | None => false
    end.

  Definition log_in (q : request) (cached : option (list N * list N)) : M unit :=
    if cache_hit q cached then ret tt
    else catch_server (login (req_user q) (req_pass q)) (fun _ => raise EAuth).

  (* Session._prepare_fetch; fresh = the control connection was closed *)
  Definition prepare_fetch (q : request) (fresh : bool) (cached : option (list N * list N)) : M unit :=
    (if fresh then read_welcome else ret tt) ;;;
    log_in q (if fresh then None else cached).

  (* Commander.size, result value not modelled; Session._fetch_size swallows FTPServerError *)
  Definition fetch_size (path : list N) : M unit :=
    catch_server (write_command SIZE path ;;; r <- read_reply_m ;; expect_code [213] r)
                 (fun _ => ret tt).

  (* Commander.restart inside Session.start's try/except FTPServerError; on 350
     response.restart_value is set *)
  Definition restart_offset (q : request) : option N :=
    match q_restart q with
    | None => None
    | Some n => if n =? 0 then None else Some n
    end.

  Definition try_restart (q : request) : M unit :=
    match restart_offset q with
    | None => ret tt
    | Some n =>
        catch_server (write_command REST (dec n) ;;; r <- read_reply_m ;; expect_code [350] r ;;;
                      emit (EvRestart n))
                     (fun _ => ret tt)
    end.

  (* Commander.setup_data_stream + passive_mode; acquiring and connecting the
     data connection suspends *)
  Definition open_data_stream : M unit :=
    write_command TYPE_ [73] ;;;
    r <- read_reply_m ;;
    expect_code [200] r ;;;
    write_command PASV [] ;;;
    r2 <- read_reply_m ;;
    expect_code [227] r2 ;;;
    match parse_address (snd r2) with
    | None => raise EProtocol
    | Some (addr, port) => emit (EvDataOpen addr port) ;;; arrive_m
    end.

  (* Commander.begin_stream *)
  Definition begin_stream (name arg : list N) : M unit :=
    write_command name arg ;;;
    r <- read_reply_m ;;
    expect_code [150; 125] r.

  (* Session.start *)
  Definition start (q : request) (fresh : bool) (cached : option (list N * list N)) : M unit :=
    prepare_fetch q fresh cached ;;;
    fetch_size (q_path q) ;;;
    try_restart q ;;;
    open_data_stream ;;;
    begin_stream RETR (q_path q).

  (* Session.start_listing *)
  Definition start_listing (q : request) (fresh : bool) (cached : option (list N * list N)) : M unit :=
    prepare_fetch q fresh cached ;;;
    open_data_stream ;;;
    catch_server (begin_stream MLSD (q_path q))
                 (fun code => if (code =? 500) || (code =? 502)
                              then begin_stream LIST_ (q_path q)
                              else raise (EServer code)).

  (* DataStream.read_file: read(4096) until b''; every read is a suspension
     point (Connection.read runs the read as a network operation) *)
  Fixpoint read_file (fuel : nat) (s : sess) : option sess :=
    match fuel with
    | O => None
    | S f =>
        let s1 := arrive s in
        let '(d, c1) := conn_read 4096 (s_data s1) in
        match d with
        | [] => Some (mkSess (s_ctrl s1) c1 (s_tr s1 ++ [EvDataEof]) (s_net s1))
        | _ :: _ => read_file f (mkSess (s_ctrl s1) c1 (s_tr s1 ++ [EvData d]) (s_net s1))
        end
    end.

  Definition read_file_fuel (s : sess) : nat := S (S (length (stream (s_data s)))).

  (* Commander.read_stream (called by Session.download): the data connection is
     read to EOF FIRST, then the closing reply is read and must be 226 *)
  Definition read_stream : M (N * list N) :=
    fun s => match read_file (read_file_fuel s) s with
             | None => (s, Err EFuel)
             | Some s1 =>
                 (r <- read_reply_m ;;
                  expect_code [226] r ;;;
                  emit EvDataClose ;;;
                  ret r) s1
             end.

  (* one visit: start / start_listing, then download; Ok = the transfer is
     reported complete *)
  Definition visit (q : request) (fresh : bool) (cached : option (list N * list N)) : M (N * list N) :=
    (if q_listing q then start_listing q fresh cached else start q fresh cached) ;;;
    read_stream.
End Session.

(* ------------------------------------------------------------------ *)
(* reference: the command sequence of a session                        *)
(* ------------------------------------------------------------------ *)
(* A command is (NAME, argument text).  nlogin = how many of USER / PASS are
   sent (0 = cached login reused, 1 = the server answered USER with 230),
   fallback = MLSD was answered 500 / 502 and LIST is tried. *)
Definition cmd : Type := (list N * list N)%type.

Definition login_plan (q : request) (nlogin : nat) : list cmd :=
  firstn nlogin [(USER, req_user q); (PASS, req_pass q)].

Definition rest_plan (q : request) : list cmd :=
  match restart_offset q with Some n => [(REST, dec n)] | None => [] end.

Definition body_plan (q : request) (fallback : bool) : list cmd :=
  if q_listing q
  then [(TYPE_, [73]); (PASV, []); (MLSD, q_path q)] ++ (if fallback then [(LIST_, q_path q)] else [])
  else [(SIZE, q_path q)] ++ rest_plan q ++ [(TYPE_, [73]); (PASV, []); (RETR, q_path q)].

Definition session_plan (q : request) (nlogin : nat) (fallback : bool) : list cmd :=
  login_plan q nlogin ++ body_plan q fallback.

(* the bytes of one command on the wire *)
Definition wire_of (c : cmd) (bs : list N) : Prop :=
  exists a, utf8_se (snd c) = Some a /\ bs = fst c ++ 32 :: a ++ [13; 10].

Definition writes_of (tr : list event) : list (list N) :=
  flat_map (fun ev => match ev with EvWrite b => [b] | _ => [] end) tr.

(* value of a decimal digit string *)
Definition undec (l : list N) : N := fold_left (fun acc d => acc * 10 + (d - 48)) l 0.

(* what an observer who does not see the chunking of the data stream sees *)
Definition data_of (tr : list event) : list N :=
  flat_map (fun ev => match ev with EvData d => d | _ => [] end) tr.
Definition control_of (tr : list event) : list event :=
  filter (fun ev => match ev with EvData _ => false | _ => true end) tr.

(* ------------------------------------------------------------------ *)
(* reference: RFC 959 reply shapes                                     *)
(* ------------------------------------------------------------------ *)
(* A reply is a code ddd, zero or more earlier raw lines (the first of them
   "ddd-text", later ones arbitrary but not of the final shape) and the final
   line "ddd SP text". *)
Record rfc_reply := mkRfc {
  f_d1 : N; f_d2 : N; f_d3 : N;
  f_raw : list (list N);        (* the lines before the final one, without CRLF *)
  f_last : list N               (* text of the final line *)
}.

Definition crlf : list N := [13; 10].
Definition code_digits (r : rfc_reply) : list N := [f_d1 r; f_d2 r; f_d3 r].
Definition final_line (r : rfc_reply) : list N := code_digits r ++ 32 :: f_last r.

Definition render (r : rfc_reply) : list N :=
  concat (map (fun l => l ++ crlf) (f_raw r)) ++ final_line r ++ crlf.

Definition no_crlf (l : list N) : Prop := Forall (fun b => b <> 13 /\ b <> 10) l.

(* "ddd SP ..." *)
Definition final_shaped (l : list N) : bool :=
  match l with
  | a :: b :: c :: x :: _ => is_digit a && is_digit b && is_digit c && (x =? 32)
  | _ => false
  end.

Definition rfc_wf (limit : N) (r : rfc_reply) : Prop :=
  is_digit (f_d1 r) = true /\ is_digit (f_d2 r) = true /\ is_digit (f_d3 r) = true
  /\ no_crlf (f_last r)
  /\ Forall no_crlf (f_raw r)
  /\ Forall (fun l => final_shaped l = false) (f_raw r)
  /\ match f_raw r with
     | [] => True
     | first :: _ => exists t, first = code_digits r ++ 45 :: t      (* "ddd-text" *)
     end
  /\ Forall (fun l => lenN l + 2 <= limit) (final_line r :: f_raw r).

Definition rfc_code (r : rfc_reply) : N := (f_d1 r - 48) * 100 + (f_d2 r - 48) * 10 + (f_d3 r - 48).

(* the text convention: per line, drop a leading 3-digit code, then one space or
   hyphen; lines are joined with CRLF *)
Definition ref_strip (l : list N) : list N :=
  let l1 := match l with
            | a :: b :: c :: r => if is_digit a && is_digit b && is_digit c then r else l
            | _ => l
            end in
  match l1 with
  | x :: r => if (x =? 32) || (x =? 45) then r else l1
  | [] => []
  end.

Fixpoint join_crlf (ls : list (list N)) : list N :=
  match ls with
  | [] => []
  | [l] => l
  | l :: r => l ++ 13 :: 10 :: join_crlf r
  end.

Definition rfc_text (r : rfc_reply) : list N :=
  join_crlf (map ref_strip (f_raw r ++ [final_line r])).

(* ------------------------------------------------------------------ *)
(* helpers used only by the correspondence check (harness/corr/c17.py) *)
(* ------------------------------------------------------------------ *)
Definition opt_eqb {A} (f : A -> A -> bool) (a b : option A) : bool :=
  match a, b with
  | None, None => true
  | Some x, Some y => f x y
  | _, _ => false
  end.

Fixpoint lists_eqb {A} (f : A -> A -> bool) (a b : list A) : bool :=
  match a, b with
  | [], [] => true
  | x :: a', y :: b' => f x y && lists_eqb f a' b'
  | _, _ => false
  end.

Definition err_eqb (a b : err) : bool :=
  match a, b with
  | ENetwork, ENetwork | EProtocol, EProtocol | EOverlong, EOverlong
  | EAuth, EAuth | EEncode, EEncode | EFuel, EFuel => true
  | EServer x, EServer y => x =? y
  | _, _ => false
  end.

(* several read_reply calls in a row on one connection *)
Inductive robs := ROk (code : N) (text : list N) | RErr (e : err).

Definition robs_eqb (a b : robs) : bool :=
  match a, b with
  | ROk c1 t1, ROk c2 t2 => (c1 =? c2) && list_eqb t1 t2
  | RErr e1, RErr e2 => err_eqb e1 e2
  | _, _ => false
  end.

Fixpoint read_many (limit : N) (n : nat) (c : conn) : list robs * list N :=
  match n with
  | O => ([], stream c)
  | S k =>
      match read_reply_run limit c with
      | RROk code text c' => let '(l, rest) := read_many limit k c' in (ROk code text :: l, rest)
      | RRErr e => ([RErr e], [])
      end
  end.

Definition check_reads (limit : N) (n : nat) (c : conn) (expected : list robs) (rest : list N) : bool :=
  let '(l, r) := read_many limit n c in lists_eqb robs_eqb l expected && list_eqb r rest.

(* Reply.parse called with several data blocks on one Reply *)
Fixpoint parse_datas (st : rstate) (datas : list (list N)) : option rstate :=
  match datas with
  | [] => Some st
  | d :: r => match reply_parse st d with None => None | Some st' => parse_datas st' r end
  end.

Definition check_parse (datas : list (list N)) (expected : option (option N * option (list N))) : bool :=
  opt_eqb (fun a b => opt_eqb N.eqb (fst a) (fst b) && opt_eqb list_eqb (snd a) (snd b))
          (match parse_datas (mkR None None) datas with
           | Some st => Some (r_code st, r_text st)
           | None => None
           end) expected.

Definition cmd_eqb (a b : cmd_bytes) : bool :=
  match a, b with
  | CmdOk x, CmdOk y => list_eqb x y
  | CmdProtocolErr, CmdProtocolErr | CmdEncodeErr, CmdEncodeErr => true
  | _, _ => false
  end.

Definition check_addr (text : list N) (expected : option (list N * N)) : bool :=
  opt_eqb (fun a b => list_eqb (fst a) (fst b) && (snd a =? snd b)) (parse_address text) expected.

Definition event_eqb (a b : event) : bool :=
  match a, b with
  | EvWrite x, EvWrite y => list_eqb x y
  | EvReply x, EvReply y => x =? y
  | EvRestart x, EvRestart y => x =? y
  | EvDataOpen a1 p1, EvDataOpen a2 p2 => list_eqb a1 a2 && (p1 =? p2)
  | EvData x, EvData y => list_eqb x y
  | EvDataEof, EvDataEof | EvDataClose, EvDataClose => true
  | _, _ => false
  end.

(* the visit as the property sees it: the control events in order and the data
   bytes delivered (not how read(4096) happened to chunk them - by
   C17_interleaving_independent nothing else depends on it) *)
Definition check_visit (limit : N) (q : request) (fresh : bool) (cached : option (list N * list N))
           (ctrl data : conn) (net : list (nat * nat)) (events : list event) (delivered : list N)
           (outcome : res (N * list N)) : bool :=
  let '(s', r) := visit limit q fresh cached (mkSess ctrl data [] net) in
  lists_eqb event_eqb (control_of (s_tr s')) events
  && list_eqb (data_of (s_tr s')) delivered
  && match r, outcome with
     | Ok (c1, t1), Ok (c2, t2) => (c1 =? c2) && list_eqb t1 t2
     | Err e1, Err e2 => err_eqb e1 e2
     | _, _ => false
     end.

(* every segmentation of a stream of n+1 bytes, as oracle lists (segment length - 1) *)
Fixpoint comps (gaps : nat) (cur : nat) : list (list nat) :=
  match gaps with
  | O => [[cur]]
  | S k => map (cons cur) (comps k O) ++ comps k (S cur)
  end.

Definition check_reads_all (limit : N) (n : nat) (s : list N) (expected : list robs) (rest : list N) : bool :=
  forallb (fun sch => check_reads limit n (mkConn [] s sch) expected rest) (comps (length s - 1) O).
