(* Concrete Gallina models of the Python text primitives the HTTP header and
   chunk parsers call, on latin-1 text (code points 0..255 as [N]) and bytes.
   Definitions only.  The character classes below are compared with the running
   interpreter for all 256 characters on every ./check C08 run
   (harness/corr/c08.py, "latin1" cases); [py_int] is compared on generated
   strings. *)
From Coq Require Import List NArith ZArith Bool.
Import ListNotations.
Open Scope N_scope.
Open Scope bool_scope.

Definition in_range (lo hi c : N) : bool := (lo <=? c) && (c <=? hi).

Fixpoint list_eqb (a b : list N) : bool :=
  match a, b with
  | [], [] => true
  | x :: a', y :: b' => (x =? y) && list_eqb a' b'
  | _, _ => false
  end.

Fixpoint starts_with (p s : list N) : bool :=
  match p, s with
  | [], _ => true
  | x :: p', y :: s' => (x =? y) && starts_with p' s'
  | _ :: _, [] => false
  end.

Fixpoint drop_while (f : N -> bool) (s : list N) : list N :=
  match s with
  | [] => []
  | c :: r => if f c then drop_while f r else s
  end.

Fixpoint take_while (f : N -> bool) (s : list N) : list N :=
  match s with
  | [] => []
  | c :: r => if f c then c :: take_while f r else []
  end.

(* (rev' = rev_append _ []: the linear-time reverse; List.rev is quadratic under vm_compute) *)
Definition strip_with (f : N -> bool) (s : list N) : list N :=
  rev' (drop_while f (rev' (drop_while f s))).

(* str.isspace / str.strip() on latin-1 *)
Definition py_space (c : N) : bool :=
  in_range 9 13 c || in_range 28 32 c || (c =? 133) || (c =? 160).
(* bytes.strip() / Py_ISSPACE *)
Definition ascii_space (c : N) : bool := in_range 9 13 c || (c =? 32).

Definition py_strip := strip_with py_space.
Definition bytes_strip := strip_with ascii_space.

(* line boundaries of str.splitlines() on latin-1 ... *)
Definition py_linebreak (c : N) : bool :=
  in_range 10 13 c || in_range 28 30 c || (c =? 133).
(* ... and of a splitter that knows only CR, LF, CRLF *)
Definition crlf_linebreak (c : N) : bool := (c =? 10) || (c =? 13).

(* str.splitlines(): a boundary character ends the current line (CR LF is one
   boundary); no empty last line *)
Fixpoint splitlines_with (isb : N -> bool) (s : list N) : list (list N) :=
  match s with
  | [] => []
  | c :: r =>
      if isb c then
        [] :: (if c =? 13
               then match r with
                    | d :: r' => if d =? 10 then splitlines_with isb r' else splitlines_with isb r
                    | [] => splitlines_with isb r
                    end
               else splitlines_with isb r)
      else
        match splitlines_with isb r with
        | [] => [[c]]
        | l :: ls => (c :: l) :: ls
        end
  end.

(* text.split(sep, 1) for a one-character separator: None when absent *)
Fixpoint split_once (sep : N) (s : list N) : option (list N * list N) :=
  match s with
  | [] => None
  | c :: r =>
      if c =? sep then Some ([], r)
      else match split_once sep r with
           | None => None
           | Some (a, b) => Some (c :: a, b)
           end
  end.

(* ---- str.title() on latin-1 ---- *)
Definition is_cased (c : N) : bool :=
  in_range 65 90 c || in_range 97 122 c || (c =? 170) || (c =? 181) || (c =? 186)
  || in_range 192 214 c || in_range 216 246 c || in_range 248 255 c.

Definition to_title (c : N) : list N :=
  if in_range 97 122 c then [c - 32]
  else if c =? 181 then [924]
  else if c =? 223 then [83; 115]
  else if in_range 224 246 c || in_range 248 254 c then [c - 32]
  else if c =? 255 then [376]
  else [c].

Definition to_lower (c : N) : list N :=
  if in_range 65 90 c || in_range 192 214 c || in_range 216 222 c then [c + 32] else [c].

Fixpoint title_from (prev_cased : bool) (s : list N) : list N :=
  match s with
  | [] => []
  | c :: r => (if prev_cased then to_lower c else to_title c) ++ title_from (is_cased c) r
  end.
Definition py_title (s : list N) : list N := title_from false s.

Definition ascii_lower_char (c : N) : N := if in_range 65 90 c then c + 32 else c.
(* str.lower() restricted to what is compared with ASCII constants: on latin-1 no
   non-ASCII character lower-cases to an ASCII one (checked per run), so mapping
   only A-Z is enough to decide equality with an ASCII literal *)
Definition lower_for_ascii_compare (s : list N) : list N :=
  flat_map to_lower s.

(* ---- int(text, base) ---- *)
Definition digit_val (c : N) : N :=
  if in_range 48 57 c then c - 48
  else if in_range 97 122 c then c - 87
  else if in_range 65 90 c then c - 55
  else 37.

(* digits with single underscores between them; [prev_us] also covers "may not
   start with an underscore" and "at least one digit" *)
Fixpoint scan_digits (base : N) (s : list N) (prev_us : bool) (ndig acc : N) : option (N * N) :=
  match s with
  | [] => if prev_us then None else Some (acc, ndig)
  | c :: r =>
      if c =? 95 then (if prev_us then None else scan_digits base r true ndig acc)
      else if digit_val c <? base then scan_digits base r false (ndig + 1) (acc * base + digit_val c)
      else None
  end.

Definition max_str_digits : N := 4300.   (* sys.int_info.default_max_str_digits, decimal only *)

Definition py_int (sp : N -> bool) (base : N) (text : list N) : option Z :=
  let s := strip_with sp text in
  let '(neg, s) := match s with
                   | 43 :: r => (false, r)
                   | 45 :: r => (true, r)
                   | _ => (false, s)
                   end in
  let s := if base =? 16
           then match s with
                | 48 :: x :: r => if (x =? 120) || (x =? 88)
                                  then match r with 95 :: r' => r' | _ => r end
                                  else s
                | _ => s
                end
           else s in
  match scan_digits base s true 0 0 with
  | None => None
  | Some (v, nd) =>
      if (base =? 10) && (max_str_digits <? nd) then None
      else Some (if neg then Z.opp (Z.of_N v) else Z.of_N v)
  end.

(* int(str) on latin-1 text, int(bytes, 16) *)
Definition py_int10_str := py_int py_space 10.
Definition py_int16_bytes := py_int ascii_space 16.
