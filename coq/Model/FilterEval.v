(* Model/FilterEval.v - evaluation harness for the correspondence of C02: runs the TRANSLATED
   builder, demux filter and consult_filters (Gen/UrlFilter.v under the interpreter of Lib/MiniPy.v)
   on one concrete case, with the library oracles given as tables recorded from the real library,
   and the reference predicate of Spec/Scope.v beside it.  Definitions only. *)
From Coq Require Import List NArith ZArith Bool.
From Wpull Require Import Lib.MiniPy Spec.Scope Gen.UrlFilter.
Import ListNotations.
Open Scope bool_scope.

Definition dummy_info : urlinfo :=
  {| u_scheme := []; u_hostname := None; u_port := None; u_path := []; u_url := [] |}.

Definition tab_lib (parse : list (str * urlinfo)) (res : list (str * str * bool))
           (tr : list (str * str)) (fm : list (str * str * bool)) : lib :=
  {| l_re_search := fun p t =>
       match find (fun e => str_eqb p (fst (fst e)) && str_eqb t (snd (fst e))) res with
       | Some e => snd e | None => false end;
     l_fn_translate := fun p =>
       match find (fun e => str_eqb p (fst e)) tr with Some e => snd e | None => [] end;
     l_fnmatchcase := fun n p =>
       match find (fun e => str_eqb n (fst (fst e)) && str_eqb p (snd (fst e))) fm with
       | Some e => snd e | None => false end;
     l_parse := fun s =>
       match find (fun e => str_eqb s (fst e)) parse with Some e => snd e | None => dummy_info end |}.

Definition mk_rule (lst : pv) : pv :=
  mk_obj C_FetchRule [(A__url_filter, mk_obj C_DemuxURLFilter [(A__url_filters, lst)])].

Definition class_names (l : list pv) : list str :=
  map (fun v => match v with PObj c _ => cls_name c | _ => [] end) l.

Fixpoint dict_find (k : str) (d : list (pv * pv)) : option pv :=
  match d with
  | [] => None
  | (PStr k', v) :: d' => if str_eqb k k' then Some v else dict_find k d'
  | _ :: d' => dict_find k d'
  end.

Definition s_k_map : str := [109; 97; 112]%N.
Definition s_k_failed : str := [102; 97; 105; 108; 101; 100]%N.
Definition s_k_passed : str := [112; 97; 115; 115; 101; 100]%N.
Definition s_k_verdict : str := [118; 101; 114; 100; 105; 99; 116]%N.

Record case_result := {
  cr_classes : list str;            (* class names of the filter list the builder made *)
  cr_verdict : bool; cr_reason : str;
  cr_map : list (str * bool);       (* test_info['map'], truth values *)
  cr_failed : list str;             (* class names of test_info['failed'] *)
  cr_npassed : nat;
  cr_info_verdict : bool }.

Definition eval_case (fuel : nat) (L : lib) (a : args) (hs : list str) (u : urlinfo) (r : urlrec) (ir : pv)
  : option case_result :=
  let O := mk_oracles L in
  match run O filter_prog fuel C_URLFiltersSetupTask M__build_url_filters [PNone; pv_session a hs],
        run O filter_prog fuel C_URLFiltersPostURLImportSetupTask M_span_hosts_filter [PNone; pv_session a hs] with
  | Ok (PList l), Ok sp =>
      match run O filter_prog fuel C_FetchRule M_consult_filters
                [mk_rule (PList (l ++ [sp])); pv_urlinfo u; pv_record r; ir] with
      | Ok (PTuple [v; PStr reason; PDict info]) =>
          match dict_find s_k_map info, dict_find s_k_failed info, dict_find s_k_passed info, dict_find s_k_verdict info with
          | Some (PDict mp), Some (PSet fl), Some (PSet ps), Some iv =>
              Some {| cr_classes := class_names (l ++ [sp]); cr_verdict := truthy v; cr_reason := reason;
                      cr_map := map (fun kv => (match fst kv with PStr k => k | _ => [] end, truthy (snd kv))) mp;
                      cr_failed := class_names fl; cr_npassed := List.length ps; cr_info_verdict := truthy iv |}
          | _, _, _, _ => None
          end
      | _ => None
      end
  | _, _ => None
  end.

Fixpoint strs_eqb (a b : list str) : bool :=
  match a, b with
  | [], [] => true
  | x :: a', y :: b' => str_eqb x y && strs_eqb a' b'
  | _, _ => false
  end.
Fixpoint map_eqb (a b : list (str * bool)) : bool :=
  match a, b with
  | [], [] => true
  | (k, v) :: a', (k', v') :: b' => str_eqb k k' && Bool.eqb v v' && map_eqb a' b'
  | _, _ => false
  end.

(* insertion sort of class names, to compare the 'failed' SET *)
Fixpoint str_leb (a b : str) : bool :=
  match a, b with
  | [], _ => true
  | _ :: _, [] => false
  | x :: a', y :: b' => if N.ltb x y then true else if N.ltb y x then false else str_leb a' b'
  end.
Fixpoint ins (x : str) (l : list str) : list str :=
  match l with [] => [x] | y :: l' => if str_leb x y then x :: l else y :: ins x l' end.
Definition sort_strs (l : list str) : list str := fold_right ins [] l.

Definition result_eqb (x : option case_result) (classes : list str) (verdict : bool) (reason : str)
           (mp : list (str * bool)) (failed_sorted : list str) (npassed : nat) (info_verdict : bool) : bool :=
  match x with
  | Some c => strs_eqb (cr_classes c) classes && Bool.eqb (cr_verdict c) verdict && str_eqb (cr_reason c) reason
              && map_eqb (cr_map c) mp && strs_eqb (sort_strs (cr_failed c)) failed_sorted
              && Nat.eqb (cr_npassed c) npassed && Bool.eqb (cr_info_verdict c) info_verdict
  | None => false
  end.
