(* C09 - exception-flow summaries.

   [harness/translate/excflow.py] prints, for every wpull function on the byte
   path, a term of the small language [tm] below (Gen/ExcFlow.v).  This file is
   the hand-written meaning of those terms: a big-step "may raise" semantics
   ([eval], an inductive relation; data is abstracted away, so every branch,
   every loop count and every primitive failure is possible) and a computable
   over-approximation [escapes] of the classes that can leave a function.
   Definitions only; soundness is in Proofs/ExcFlowProofs.v. *)
From Coq Require Import List NArith Bool.
Import ListNotations.
Open Scope N_scope.

Definition cls := N.      (* exception class: index into the generated class table *)
Definition fname := N.    (* translated function *)
Definition prim := N.     (* library primitive with a declared may-raise set *)

Inductive tm :=
| Skip
| Raise (c : cls)                      (* raise C(...) *)
| Reraise                              (* bare [raise] inside a handler *)
| Prim (p : prim)                      (* library call / risky expression; may raise any subclass of its declared classes *)
| Call (f : fname)                     (* call / yield from / iteration of a translated function *)
| Seq (a b : tm)
| Branch (a b : tm)                    (* if / else, data abstracted *)
| Loop (a : tm)                        (* zero or more iterations *)
| Catch (body disp : tm)               (* try: body except ...: disp is the handler dispatch, run with the caught exception current *)
| Match (cs : list cls) (h rest : tm)  (* on the exception being handled: [except (cs): h] else [rest] (chain ends in Reraise); also [if isinstance(error, cs): h else: rest] in a handler *)
| Finally (body fin : tm).             (* try: body finally: fin   (also: with-statement exit) *)

Record prog := {
  funs : list (fname * tm);
  prims : list (prim * list cls);      (* declared may-raise classes of each primitive *)
  mros : list (cls * list cls)         (* class -> all its proper superclasses (the interpreter's __mro__) *)
}.

Fixpoint assoc {A} (k : N) (l : list (N * A)) : option A :=
  match l with
  | [] => None
  | (k', v) :: r => if k =? k' then Some v else assoc k r
  end.

Definition memb (x : N) (l : list N) : bool := existsb (N.eqb x) l.

Definition supers (P : prog) (c : cls) : list cls :=
  match assoc c (mros P) with Some l => l | None => [] end.

(* c is k or one of k's subclasses *)
Definition sub (P : prog) (c k : cls) : bool := (c =? k) || memb k (supers P c).

Definition matches (P : prog) (c : cls) (cs : list cls) : bool := existsb (sub P c) cs.

Definition prim_raises (P : prog) (p : prim) : list cls :=
  match assoc p (prims P) with Some l => l | None => [] end.

Definition known_prim (P : prog) (p : prim) : bool :=
  match assoc p (prims P) with Some _ => true | None => false end.

(* ------------------------------------------------------------------ *)
(* Semantics                                                           *)
(* ------------------------------------------------------------------ *)
Inductive outcome := ONormal | OExc (c : cls).

(* [eval P cur t o]: running summary [t] while exception [cur] is being handled
   (None outside any handler) can end in [o].  An undefined function or an
   undeclared primitive may raise anything. *)
Inductive eval (P : prog) : option cls -> tm -> outcome -> Prop :=
| E_skip cur : eval P cur Skip ONormal
| E_raise cur c : eval P cur (Raise c) (OExc c)
| E_reraise c : eval P (Some c) Reraise (OExc c)
| E_prim_ok cur p : eval P cur (Prim p) ONormal
| E_prim_exc cur p k c :
    In k (prim_raises P p) -> sub P c k = true -> eval P cur (Prim p) (OExc c)
| E_prim_unknown cur p c : known_prim P p = false -> eval P cur (Prim p) (OExc c)
| E_call cur f body o :
    assoc f (funs P) = Some body -> eval P None body o -> eval P cur (Call f) o
| E_call_undefined cur f c : assoc f (funs P) = None -> eval P cur (Call f) (OExc c)
| E_seq_n cur a b o : eval P cur a ONormal -> eval P cur b o -> eval P cur (Seq a b) o
| E_seq_e cur a b c : eval P cur a (OExc c) -> eval P cur (Seq a b) (OExc c)
| E_branch_l cur a b o : eval P cur a o -> eval P cur (Branch a b) o
| E_branch_r cur a b o : eval P cur b o -> eval P cur (Branch a b) o
| E_loop_0 cur a : eval P cur (Loop a) ONormal
| E_loop_s cur a o : eval P cur a ONormal -> eval P cur (Loop a) o -> eval P cur (Loop a) o
| E_loop_e cur a c : eval P cur a (OExc c) -> eval P cur (Loop a) (OExc c)
| E_catch_n cur b d : eval P cur b ONormal -> eval P cur (Catch b d) ONormal
| E_catch_e cur b d c o : eval P cur b (OExc c) -> eval P (Some c) d o -> eval P cur (Catch b d) o
| E_match_y c cs h rest o :
    matches P c cs = true -> eval P (Some c) h o -> eval P (Some c) (Match cs h rest) o
| E_match_n c cs h rest o :
    matches P c cs = false -> eval P (Some c) rest o -> eval P (Some c) (Match cs h rest) o
| E_match_none cs h rest o : eval P None rest o -> eval P None (Match cs h rest) o
| E_fin_n cur b f o : eval P cur b ONormal -> eval P cur f o -> eval P cur (Finally b f) o
| E_fin_e cur b f c : eval P cur b (OExc c) -> eval P cur f ONormal -> eval P cur (Finally b f) (OExc c)
| E_fin_ee cur b f c d : eval P cur b (OExc c) -> eval P cur f (OExc d) -> eval P cur (Finally b f) (OExc d).

(* exception class [c] can leave function [f] *)
Definition raises (P : prog) (f : fname) (c : cls) : Prop := eval P None (Call f) (OExc c).

(* ------------------------------------------------------------------ *)
(* The analysis                                                        *)
(* ------------------------------------------------------------------ *)
(* An abstract set: None = "unknown: may raise anything" (fuel exhausted,
   undefined function, undeclared primitive); Some ks = any subclass of a k in ks. *)
Definition aset := option (list cls).

Fixpoint add_all (xs acc : list cls) : list cls :=
  match xs with
  | [] => acc
  | x :: r => if memb x acc then add_all r acc else add_all r (acc ++ [x])
  end.

Definition union (a b : aset) : aset :=
  match a, b with
  | Some x, Some y => Some (add_all y x)
  | _, _ => None
  end.

(* all classes the table knows about *)
Definition universe (P : prog) : list cls := map fst (mros P).

(* may some class below k be caught by [except cs]? *)
Definition overlap (P : prog) (k : cls) (cs : list cls) : bool :=
  existsb (fun d => sub P d k && matches P d cs) (universe P).

(* abstract "exception being handled": None = none, Some k = some subclass of k *)
Fixpoint esc_tm (P : prog) (call : fname -> aset) (cur : option cls) (t : tm) : aset :=
  match t with
  | Skip => Some []
  | Raise c => Some [c]
  | Reraise => match cur with Some k => Some [k] | None => Some [] end
  | Prim p => assoc p (prims P)
  | Call f => call f
  | Seq a b => union (esc_tm P call cur a) (esc_tm P call cur b)
  | Branch a b => union (esc_tm P call cur a) (esc_tm P call cur b)
  | Loop a => esc_tm P call cur a
  | Catch b d =>
      match esc_tm P call cur b with
      | None => None
      | Some ks => fold_left (fun acc k => union acc (esc_tm P call (Some k) d)) ks (Some [])
      end
  | Match cs h rest =>
      match cur with
      | None => esc_tm P call None rest
      | Some k =>
          if matches P k cs then esc_tm P call cur h
          else
            (* k itself is not caught, but a subclass of k may be: the handler then runs with a current
               exception below the handler class h' (when h' is below k) or below k *)
            union (fold_left (fun acc h' =>
                                if sub P h' k then union acc (esc_tm P call (Some h') h)
                                else if overlap P k [h'] then union acc (esc_tm P call cur h)
                                else acc) cs (Some []))
                  (esc_tm P call cur rest)
      end
  | Finally b f => union (esc_tm P call cur b) (esc_tm P call cur f)
  end.

Fixpoint escapes (P : prog) (f : fname) (fuel : nat) : aset :=
  match fuel with
  | O => None
  | S n =>
      match assoc f (funs P) with
      | None => None
      | Some body => esc_tm P (fun g => escapes P g n) None body
      end
  end.

(* every class in the result is (a subclass of) a handled class *)
Definition within (P : prog) (a : aset) (handled : list cls) : bool :=
  match a with
  | None => false
  | Some ks => forallb (fun k => matches P k handled) ks
  end.

(* the class table is transitively closed: the superclasses of a superclass are
   superclasses (true of any __mro__ dump; checked by computation, not assumed) *)
Definition mro_closed (P : prog) : bool :=
  forallb (fun e => forallb (fun k => forallb (fun h => (h =? fst e) || memb h (snd e)) (supers P k)) (snd e)) (mros P).

(* the class table has no duplicate keys shadowing each other in a confusing way:
   not needed for soundness (assoc takes the first), kept out. *)

(* ------------------------------------------------------------------ *)
(* A computable UNDER-approximation (used only for non-vacuity: it      *)
(* exhibits outcomes the semantics really has)                          *)
(* ------------------------------------------------------------------ *)
(* (can end normally, classes it can raise) *)
Definition dres := (bool * list cls)%type.

Definition is_nil {A} (l : list A) : bool := match l with [] => true | _ => false end.

Fixpoint def_tm (P : prog) (call : fname -> dres) (cur : option cls) (t : tm) : dres :=
  match t with
  | Skip => (true, [])
  | Raise c => (false, [c])
  | Reraise => match cur with Some c => (false, [c]) | None => (false, []) end
  | Prim p => (true, prim_raises P p)
  | Call f => call f
  | Seq a b =>
      let ra := def_tm P call cur a in
      let rb := def_tm P call cur b in
      (fst ra && fst rb, snd ra ++ (if fst ra then snd rb else []))
  | Branch a b =>
      let ra := def_tm P call cur a in
      let rb := def_tm P call cur b in
      (fst ra || fst rb, snd ra ++ snd rb)
  | Loop a => (true, snd (def_tm P call cur a))
  | Catch b d =>
      let rb := def_tm P call cur b in
      (fst rb || existsb (fun c => fst (def_tm P call (Some c) d)) (snd rb),
       flat_map (fun c => snd (def_tm P call (Some c) d)) (snd rb))
  | Match cs h rest =>
      match cur with
      | Some c => if matches P c cs then def_tm P call cur h else def_tm P call cur rest
      | None => def_tm P call None rest
      end
  | Finally b f =>
      let rb := def_tm P call cur b in
      let rf := def_tm P call cur f in
      (fst rb && fst rf,
       (if fst rf then snd rb else []) ++ (if fst rb || negb (is_nil (snd rb)) then snd rf else []))
  end.

Fixpoint definite (P : prog) (f : fname) (fuel : nat) : dres :=
  match fuel with
  | O => (false, [])
  | S n =>
      match assoc f (funs P) with
      | None => (false, [])
      | Some body => def_tm P (fun g => definite P g n) None body
      end
  end.
