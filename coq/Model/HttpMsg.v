(* Executable model of the HTTP/1.1 response reader of wpull:
     protocol/http/stream.py   Stream.read_response, read_body, the three body
                               readers, get_read_strategy, is_no_body,
                               _setup_decompressor/_decompress_data/_flush_decompressor
     protocol/http/request.py  Response.parse, parse_status_line
     namevalue.py              NameValueRecord.parse/add/__getitem__/__contains__,
                               normalize_name, unfold_lines
     protocol/http/util.py     should_close
   over Lib/Conn (segmented connection), Model/Chunked (ChunkedTransferReader)
   and Model/Decomp (the content decoders of C19 over an abstract zlib machine).
   Definitions only; line-by-line transcription of the decision logic.  Every
   byte reported to the read listeners is appended to [recd] (C04). *)
From Coq Require Import List NArith ZArith Bool.
From Wpull Require Import Lib.Conn Model.PyText Model.Decomp Model.Chunked.
Import ListNotations.
Open Scope N_scope.
Open Scope bool_scope.

(* ---- string constants ---- *)
Definition s_content_length : list N := [67; 111; 110; 116; 101; 110; 116; 45; 76; 101; 110; 103; 116; 104].  (* Content-Length *)
Definition s_transfer_encoding : list N := [84; 114; 97; 110; 115; 102; 101; 114; 45; 69; 110; 99; 111; 100; 105; 110; 103].  (* Transfer-Encoding *)
Definition s_connection : list N := [67; 111; 110; 110; 101; 99; 116; 105; 111; 110].  (* Connection *)
Definition s_content_encoding : list N := [67; 111; 110; 116; 101; 110; 116; 45; 69; 110; 99; 111; 100; 105; 110; 103].  (* Content-Encoding *)
Definition s_chunked : list N := [99; 104; 117; 110; 107; 101; 100].  (* chunked *)
Definition s_chunked_semi : list N := [99; 104; 117; 110; 107; 101; 100; 59].  (* chunked; *)
Definition s_gzip : list N := [103; 122; 105; 112].  (* gzip *)
Definition s_deflate : list N := [100; 101; 102; 108; 97; 116; 101].  (* deflate *)
Definition s_close : list N := [99; 108; 111; 115; 101].  (* close *)
Definition s_keepalive : list N := [107; 101; 101; 112; 97; 108; 105; 118; 101].  (* keepalive *)
Definition s_http : list N := [72; 84; 84; 80; 47].  (* HTTP/ *)

(* ================= namevalue.py ================= *)

(* which characters end a line for NameValueRecord.parse / unfold_lines *)
Definition header_linebreak : N -> bool := crlf_linebreak.    (* namevalue.split_lines: CR LF, LF, CR *)
Definition splitlines := splitlines_with header_linebreak.

(* unfold_lines *)
Fixpoint unfold_from (first : bool) (lines : list (list N)) : list N :=
  match lines with
  | [] => []
  | l :: r =>
      (match l with
       | c :: _ => if (c =? 32) || (c =? 9) then [32]
                   else if first then [] else [13; 10]
       | [] => if first then [] else [13; 10]
       end) ++ py_strip l ++ unfold_from false r
  end.
Definition unfold_lines (s : list N) : list N := unfold_from true (splitlines s) ++ [13; 10].

(* the ordered multimap: normalised name -> values, in order of first appearance *)
Definition fields := list (list N * list (list N)).

Definition normalize_name (n : list N) : list N := py_title n.

Fixpoint fadd_norm (k v : list N) (m : fields) : fields :=
  match m with
  | [] => [(k, [v])]
  | (k', vs) :: r => if list_eqb k k' then (k', vs ++ [v]) :: r else (k', vs) :: fadd_norm k v r
  end.
Definition fadd (name value : list N) (m : fields) : fields := fadd_norm (normalize_name name) value m.

(* __getitem__ / get: the first value *)
Fixpoint fget_norm (k : list N) (m : fields) : option (list N) :=
  match m with
  | [] => None
  | (k', vs) :: r => if list_eqb k k' then hd_error vs else fget_norm k r
  end.
Definition fget (name : list N) (m : fields) : option (list N) := fget_norm (normalize_name name) m.
Definition fcontains (name : list N) (m : fields) : bool :=
  match fget name m with Some _ => true | None => false end.

(* get_all(): flat (name, value) pairs *)
Definition fget_all (m : fields) : list (list N * list N) :=
  flat_map (fun kv => map (fun v => (fst kv, v)) (snd kv)) m.

(* NameValueRecord.parse on already decoded text; None = ValueError('Field missing colon.') *)
Fixpoint parse_lines (strict : bool) (lines : list (list N)) (m : fields) : option fields :=
  match lines with
  | [] => Some m
  | [] :: r => parse_lines strict r m
  | l :: r =>
      match split_once 58 l with
      | None => if strict then None else parse_lines strict r m
      | Some (name, value) => parse_lines strict r (fadd (py_strip name) (py_strip value) m)
      end
  end.
Definition fields_parse (strict : bool) (text : list N) (m : fields) : option fields :=
  parse_lines strict (splitlines (unfold_lines text)) m.

(* ================= request.py: Response.parse ================= *)
Record response := mkResp { r_version : list N; r_status : N; r_reason : list N; r_fields : fields }.

Definition is_digit (c : N) : bool := in_range 48 57 c.
Definition is_sp_ht (c : N) : bool := (c =? 32) || (c =? 9).

Fixpoint strip_prefix (p s : list N) : option (list N) :=
  match p, s with
  | [], _ => Some s
  | x :: p', y :: s' => if x =? y then strip_prefix p' s' else None
  | _ :: _, [] => None
  end.

Fixpoint decimal_value (acc : N) (ds : list N) : N :=
  match ds with
  | [] => acc
  | d :: r => decimal_value (acc * 10 + (d - 48)) r
  end.

(* up to three digits, greedy *)
Definition take_digits3 (s : list N) : list N * list N :=
  match s with
  | a :: r1 =>
      if is_digit a then
        match r1 with
        | b :: r2 =>
            if is_digit b then
              match r2 with
              | c :: r3 => if is_digit c then ([a; b; c], r3) else ([a; b], r2)
              | [] => ([a; b], r2)
              end
            else ([a], r1)
        | [] => ([a], r1)
        end
      else ([], s)
  | [] => ([], s)
  end.

(* re.match on the status line: group 1 = HTTP/ digits . digits, then one or more
   SP/HT, group 2 = one to three digits (greedy), then any SP/HT, group 3 = all up
   to the first CR or LF.  No alternative needs backtracking. *)
Definition parse_status_line (line : list N) : option (list N * N * list N) :=
  match strip_prefix s_http line with
  | None => None
  | Some r0 =>
      let d1 := take_while is_digit r0 in
      let r1 := drop_while is_digit r0 in
      match d1, r1 with
      | _ :: _, 46 :: r2 =>
          let d2 := take_while is_digit r2 in
          let r3 := drop_while is_digit r2 in
          match d2, take_while is_sp_ht r3 with
          | _ :: _, _ :: _ =>
              let r4 := drop_while is_sp_ht r3 in
              let '(code, r5) := take_digits3 r4 in
              match code with
              | [] => None
              | _ =>
                  let r6 := drop_while is_sp_ht r5 in
                  let reason := take_while (fun c => negb ((c =? 13) || (c =? 10))) r6 in
                  Some (s_http ++ d1 ++ [46] ++ d2, decimal_value 0 code, reason)
              end
          | _, _ => None
          end
      | _, _ => None
      end
  end.

(* Response.parse(data) on a fresh Response: data.split(b'\n', 1), status line,
   fields.parse(rest, strict=False) (latin-1: decoding is the identity) *)
Definition response_parse (data : list N) : option response :=
  match split_once 10 data with
  | None => None          (* cannot happen: every header line ends with LF *)
  | Some (line, rest) =>
      match parse_status_line line with
      | None => None
      | Some (v, code, reason) =>
          match fields_parse false rest [] with
          | None => None  (* cannot happen: not strict *)
          | Some fs => Some (mkResp v code reason fs)
          end
      end
  end.

(* ================= stream.py: read_response ================= *)
Definition is_blank_line (l : list N) : bool := list_eqb l [13; 10] || list_eqb l [10].

Fixpoint read_head (fuel : nat) (acc : list N) (nb : N) (s : st) : res (list N) :=
  match fuel with
  | O => Err OutOfFuel
  | S f =>
      match st_readline s with
      | (LineTooLong, _) => Err ProtocolErr                       (* 'Invalid header' *)
      | (Line l, s1) =>
          let s2 := notify l s1 in
          if negb (ends_with_lf l) then Err NetworkErr             (* 'Connection closed.' *)
          else if is_blank_line l then
            match acc with
            | [] => Err ProtocolErr                                (* 'No header received.' *)
            | _ => Ok acc s2
            end
          else
            let nb' := nb + N.of_nat (length l) in
            if 32768 <? nb' then Err ProtocolErr                   (* 'Header too big.' *)
            else read_head f (acc ++ l) nb' s2
      end
  end.

(* 1xx other than 101: an interim response, the final one follows (RFC 7230 6.2) *)
Definition is_interim (code : N) : bool := in_range 100 199 code && negb (code =? 101).

Fixpoint read_response_loop (fuel : nat) (s : st) : res response :=
  match fuel with
  | O => Err OutOfFuel
  | S f =>
      match read_head (fuel_of s) [] 0 s with
      | Err e => Err e
      | Ok data s1 =>
          match response_parse data with
          | None => Err ProtocolErr                                (* 'Error parsing status line' *)
          | Some r => if is_interim (r_status r) then read_response_loop f s1 else Ok r s1
          end
      end
  end.

Definition read_response (s : st) : res response := read_response_loop (fuel_of s) s.

(* ================= stream.py: framing decisions ================= *)
Record params := mkParams {
  p_head : bool;            (* request.method.upper() == 'HEAD' *)
  p_http10 : bool;          (* request.version == 'HTTP/1.0' *)
  p_keep_alive : bool;      (* Stream(keep_alive=...) *)
  p_ignore_length : bool    (* Stream(ignore_length=...) *)
}.

Definition no_content_code (c : N) : bool := in_range 100 199 c || (c =? 204) || (c =? 304).

Definition is_no_body (P : params) (r : response) : bool :=
  no_content_code (r_status r) || p_head P.

Inductive strategy := SChunked | SLength | SClose.

(* re.match(r'chunked($|;)', fields.get('Transfer-Encoding', '')) *)
Definition get_read_strategy (r : response) : strategy :=
  let te := match fget s_transfer_encoding (r_fields r) with Some v => v | None => [] end in
  if list_eqb te s_chunked || starts_with s_chunked_semi te then SChunked
  else if fcontains s_content_length (r_fields r) then SLength
  else SClose.

Definition content_kind (r : response) : kind :=
  let enc := flat_map to_lower
               (match fget s_content_encoding (r_fields r) with Some v => v | None => [] end) in
  if list_eqb enc s_gzip then KGzip
  else if list_eqb enc s_deflate then KDeflate
  else KIdentity.

Definition remove_char (x : N) (s : list N) : list N := filter (fun c => negb (c =? x)) s.

(* util.should_close(request.version, response.fields.get('Connection')) *)
Definition should_close (http10 : bool) (connection_field : option (list N)) : bool :=
  let f := flat_map to_lower (match connection_field with Some v => v | None => [] end) in
  if http10 then negb (list_eqb (remove_char 45 f) s_keepalive)
  else list_eqb f s_close.

(* ================= stream.py: body readers ================= *)
Section Readers.
  Variable zst : Type.
  Variable zinit : wbits -> zst.
  Variable zstep : zst -> N -> option (zst * list N).
  Variable zeof : zst -> bool.
  Variable zfl : zst -> list N.
  Variable o : oracle.

  Notation dstate := (dstate zst).
  Notation decompress := (decompress zst zinit zstep).
  Notation flush := (flush zst zeof zfl).

  (* _flush_decompressor after a loop: zlib.error -> ProtocolError *)
  Definition finish (x : res (dstate * list N)) : res (list N) :=
    match x with
    | Err e => Err e
    | Ok (ds, out) s =>
        match flush ds with
        | None => Err ProtocolErr
        | Some fl => Ok (out ++ fl) s
        end
    end.

  (* _read_body_until_close *)
  Fixpoint until_close_loop (fuel : nat) (ds : dstate) (out : list N) (s : st) : res (dstate * list N) :=
    match fuel with
    | O => Err OutOfFuel
    | S f =>
        let '(d, s1) := st_read o read_size s in
        match d with
        | [] => Ok (ds, out) s1
        | _ =>
            let s2 := notify d s1 in
            match decompress ds d with
            | None => Err ProtocolErr
            | Some (ds', o') => until_close_loop f ds' (out ++ o') s2
            end
        end
    end.

  Definition read_body_until_close (ds : dstate) (s : st) : res (list N) :=
    finish (until_close_loop (fuel_of s) ds [] s).

  (* the while loop of _read_body_by_length; returns the final bytes_left
     (0 also stands for "negative": the loop has ended without a shortfall) *)
  Fixpoint length_loop (fuel : nat) (rem : N) (ds : dstate) (out : list N) (s : st)
    : res (dstate * list N * N) :=
    match fuel with
    | O => Err OutOfFuel
    | S f =>
        if rem =? 0 then Ok (ds, out, 0) s
        else
          let '(d, s1) := st_read o read_size s in
          match d with
          | [] => Ok (ds, out, rem) s1
          | _ =>
              let n := N.of_nat (length d) in
              let '(d', s2, rem') :=
                if rem <? n then (firstn (N.to_nat rem) d, close s1, 0)     (* 'Content overrun.' *)
                else (d, s1, rem - n) in
              let s3 := notify d' s2 in
              match decompress ds d' with
              | None => Err ProtocolErr
              | Some (ds', o') => length_loop f rem' ds' (out ++ o') s3
              end
          end
    end.

  Definition read_body_by_length (r : response) (ds : dstate) (s : st) : res (list N) :=
    let cl := match fget s_content_length (r_fields r) with Some v => v | None => [] end in
    match py_int10_str cl with
    | None => read_body_until_close ds s                       (* 'Invalid content length' *)
    | Some z =>
        if (z <? 0)%Z then read_body_until_close ds s
        else
          match length_loop (fuel_of s) (Z.to_N z) ds [] s with
          | Err e => Err e
          | Ok (ds', out, rem) s1 =>
              if 0 <? rem then Err NetworkErr                   (* 'Connection closed.' *)
              else finish (Ok (ds', out) s1)
          end
    end.

  (* inner loop of _read_body_by_chunk: one chunk's data and its terminator *)
  Fixpoint chunk_data_loop (fuel : nat) (rem : N) (ds : dstate) (out : list N) (s : st)
    : res (dstate * list N) :=
    match fuel with
    | O => Err OutOfFuel
    | S f =>
        match read_chunk_body o rem s with
        | Err e => Err e
        | Ok (CBData d rem') s1 =>
            let s2 := notify d s1 in
            match d with
            | [] => Ok (ds, out) s2                              (* 'if not content: break' at EOF *)
            | _ =>
                match decompress ds d with
                | None => Err ProtocolErr
                | Some (ds', o') => chunk_data_loop f rem' ds' (out ++ o') s2
                end
            end
        | Ok (CBEnd nl) s1 => Ok (ds, out) (notify nl s1)
        end
    end.

  (* outer loop of _read_body_by_chunk *)
  Fixpoint chunks_loop (fuel : nat) (ds : dstate) (out : list N) (s : st) : res (dstate * list N) :=
    match fuel with
    | O => Err OutOfFuel
    | S f =>
        match read_chunk_header s with
        | Err e => Err e
        | Ok (size, line) s1 =>
            let s2 := notify line s1 in
            if size =? 0 then Ok (ds, out) s2
            else
              match chunk_data_loop (fuel_of s2) size ds out s2 with
              | Err e => Err e
              | Ok (ds', out') s3 => chunks_loop f ds' out' s3
              end
        end
    end.

  Definition read_body_by_chunk (r : response) (ds : dstate) (s : st) : res (response * list N) :=
    match finish (chunks_loop (fuel_of s) ds [] s) with
    | Err e => Err e
    | Ok body s1 =>
        match read_trailer (fuel_of s1) [] s1 with
        | Err e => Err e
        | Ok tr s2 =>
            let s3 := notify tr s2 in
            match fields_parse false tr (r_fields r) with          (* response.fields.parse(trailer_data, strict=False) *)
            | None => Err ValueErr                                 (* cannot happen: not strict *)
            | Some fs => Ok (mkResp (r_version r) (r_status r) (r_reason r) fs, body) s3
            end
        end
    end.

  (* read_body(request, response, file) *)
  Definition read_body (P : params) (r : response) (s : st) : res (response * list N) :=
    if is_no_body P r then Ok (r, []) s
    else
      let ds := dinit zst (content_kind r) in
      let strat := get_read_strategy r in
      let strat := match strat with
                   | SLength => if p_ignore_length P then SClose else SLength
                   | x => x
                   end in
      let body :=
        match strat with
        | SChunked => read_body_by_chunk r ds s
        | SLength => match read_body_by_length r ds s with Err e => Err e | Ok b s1 => Ok (r, b) s1 end
        | SClose => match read_body_until_close ds s with Err e => Err e | Ok b s1 => Ok (r, b) s1 end
        end in
      match body with
      | Err e => Err e
      | Ok (r', b) s1 =>
          let sc := should_close (p_http10 P) (fget s_connection (r_fields r')) in
          Ok (r', b) (if negb (p_keep_alive P) || sc then close s1 else s1)
      end.

  (* one response on the connection: Stream.read_response then Stream.read_body *)
  Definition exchange (P : params) (s : st) : res (response * list N) :=
    match read_response s with
    | Err e => Err e
    | Ok r s1 => read_body P r s1
    end.

  Definition start (bs : list N) : st := mkSt (mkConn bs false) [] false.

  Definition run (P : params) (bs : list N) : res (response * list N) := exchange P (start bs).

  (* a persistent connection used in lockstep (client.py Session on a pooled
     connection): the bytes of response k+1 reach the connection only after
     exchange k has completed, because the client sends request k+1 only then.
     [recd] is restarted for every exchange (one recorder session, one record
     block, per exchange).  The sequence stops at the first error and when wpull
     has closed the connection (the next request would use a new one). *)
  Fixpoint lockstep (xs : list (params * list N)) (s : st) : list (res (response * list N)) :=
    match xs with
    | [] => []
    | (P, bs) :: r =>
        match exchange P (mkSt (mkConn (pending (cn s) ++ bs) (eof_hit (cn s))) [] (closed s)) with
        | Err e => [Err e]
        | Ok a s1 => Ok a s1 :: (if closed s1 then [] else lockstep r s1)
        end
    end.
End Readers.
