(* Glue for the vm_compute correspondence of C10 / C11 (definitions only): table
   instances of the oracles of Model/Url.v (filled per case by the implementation
   driver from the answers of the real library) and the observation
   [observe] = everything the comparator looks at, as a list of strings in the
   same layout harness/impl/c10_impl.py produces. *)
From Coq Require Import List NArith ZArith Bool Ascii String.
From Wpull Require Import Lib.Hex Model.UrlLib Model.Url.
Import ListNotations.
Open Scope N_scope.

(* compact text literals written by the harness: printable ASCII stands for itself,
   a backslash is followed by the six hex digits of one code point *)
Fixpoint uq (s : string) : list N :=
  match s with
  | EmptyString => []
  | String c r =>
      if N_of_ascii c =? 92 then
        match r with
        | String a (String b (String c2 (String d (String e (String f r'))))) =>
            (((((hexval a * 16 + hexval b) * 16 + hexval c2) * 16 + hexval d) * 16 + hexval e) * 16 + hexval f)
              :: uq r'
        | _ => []
        end
      else N_of_ascii c :: uq r
  end.

Definition NONE : N := 1114113.   (* 0x110001 *)
Definition ERRM : N := 1114114.   (* 0x110002 *)
Definition QK : N := 1114115.
Definition QV : N := 1114116.
Definition MISS : str := [1114119; 1114119].   (* an oracle table miss: never equal to anything real *)

Fixpoint lookup {B} (t : list (str * B)) (s : str) : option B :=
  match t with
  | [] => None
  | (k, v) :: r => if str_eqb k s then Some v else lookup r s
  end.

Record oracles := {
  o_enc : option (list (str * option (list N)));     (* None: the codec is UTF-8 (concrete) *)
  o_lower : list (str * str);
  o_idna : list (str * option str);
  o_ipv6 : list (str * option str);
  o_int : list (str * (N * option Z));
  o_unq : list (str * str) }.

Definition enc_of (o : oracles) : str -> option (list N) :=
  match o_enc o with
  | None => utf8
  | Some t => fun s => match lookup t s with Some r => r | None => Some MISS end
  end.
Definition lower_of (o : oracles) (s : str) : str := match lookup (o_lower o) s with Some r => r | None => MISS end.
Definition idna_of (o : oracles) (s : str) : option str := match lookup (o_idna o) s with Some r => r | None => Some MISS end.
Definition ipv6_of (o : oracles) (s : str) : option str := match lookup (o_ipv6 o) s with Some r => r | None => Some MISS end.
Definition int_of (o : oracles) (base : N) (s : str) : option Z :=
  match lookup (o_int o) s with
  | Some (b, r) => if b =? base then r else Some (-99999999)%Z
  | None => Some (-99999999)%Z
  end.
Definition unq_of (o : oracles) (s : str) : str := match lookup (o_unq o) s with Some r => r | None => MISS end.

Definition kind_code (k : ekind) : N :=
  match k with
  | ValueErr => 1 | UnicodeErr => 2 | AddressValueErr => 3 | LookupErr => 4 | IndexErr => 5 | KeyErr => 6
  | AssertErr => 7 | RecursionErr => 8 | TypeErr => 9 | AttributeErr => 10
  end.

Definition r_str (r : result str) : str := match r with Ok s => s | Err k => [ERRM; kind_code k] end.
Definition b_str (b : bool) : str := if b then [1] else [0].

Definition qmap_ser (m : list (str * list str)) : str :=
  flat_map (fun kv => QK :: fst kv ++ flat_map (fun v => QV :: v) (snd kv)) m.

Definition observe (o : oracles) (url : str) : list str :=
  let P := parse (enc_of o) (lower_of o) (idna_of o) (ipv6_of o) (int_of o) (unq_of o) url in
  let pol := match parse_url_or_log (enc_of o) (lower_of o) (idna_of o) (ipv6_of o) (int_of o) (unq_of o) url with
             | Ok None => [0] | Ok (Some _) => [1] | Err k => [ERRM; kind_code k]
             end in
  match P with
  | Err k => [[ERRM; kind_code k]; pol]
  | Ok i =>
      let nn (s : str) := if u_network i then s else [NONE] in
      [ [1]; b_str (u_network i); u_raw i; u_scheme i; nn (u_authority i); u_path i; nn (u_query i);
        nn (u_fragment i); nn (u_userinfo i); nn (u_username i); nn (u_password i); nn (u_host i);
        nn (u_hostname i); nn [u_port i]; nn (u_resource i);
        r_str (url_of (enc_of o) i); r_str (hostname_with_port i);
        match is_port_default i with None => [NONE] | Some b => b_str b end;
        nn (b_str (is_ipv6 i));
        fst (split_path i); snd (split_path i);
        match query_map i with
        | Ok None => [NONE] | Ok (Some m) => qmap_ser m | Err k => [ERRM; kind_code k]
        end;
        pol ]
  end.

Fixpoint lstr_eqb (a b : list str) : bool :=
  match a, b with
  | [], [] => true
  | x :: a', y :: b' => str_eqb x y && lstr_eqb a' b'
  | _, _ => false
  end.

(* index of the first differing field (for diagnostics) *)
Fixpoint first_diff (n : nat) (a b : list str) : option nat :=
  match a, b with
  | [], [] => None
  | x :: a', y :: b' => if str_eqb x y then first_diff (S n) a' b' else Some n
  | _, _ => Some n
  end.

Definition res_str_eqb (r : result str) (e : option str) (ek : N) : bool :=
  match r, e with
  | Ok s, Some s' => str_eqb s s'
  | Err k, None => kind_code k =? ek
  | _, _ => false
  end.

Definition opt_str_eqb (r : option str) (e : option str) : bool :=
  match r, e with
  | Some s, Some s' => str_eqb s s'
  | None, None => true
  | _, _ => false
  end.

Definition opt_Z_eqb (r e : option Z) : bool :=
  match r, e with
  | Some a, Some b => Z.eqb a b
  | None, None => true
  | _, _ => false
  end.

(* oracle-free instance for the helper functions that need none *)
Definition o_none : oracles :=
  {| o_enc := None; o_lower := []; o_idna := []; o_ipv6 := []; o_int := []; o_unq := [] |}.
Definition normalize_hostname_c (s : str) : result str := normalize_hostname (idna_of o_none) s.
Definition normalize_ipv4_c (s : str) : option str := normalize_ipv4_address (int_of o_none) s.

(* ---- urljoin / urljoin_safe: the library join is a table of the calls the real
   code made (arguments -> result or failure kind) ---- *)
Fixpoint lookup2 {B} (t : list (str * str * B)) (a b : str) : option B :=
  match t with
  | [] => None
  | (k1, k2, v) :: r => if str_eqb k1 a && str_eqb k2 b then Some v else lookup2 r a b
  end.
Definition lib_of (t : list (str * str * result str)) (b u : str) : result str :=
  match lookup2 t b u with Some r => r | None => Ok MISS end.
Definition observe_join (t : list (str * str * result str)) (b u : str) : list str :=
  [ r_str (urljoin (lib_of t) b u);
    match urljoin_safe (lib_of t) b u with
    | Ok None => [NONE] | Ok (Some s) => s | Err k => [ERRM; kind_code k]
    end ].
Definition kind_of_code (n : N) : ekind :=
  if n =? 1 then ValueErr else if n =? 2 then UnicodeErr else if n =? 3 then AddressValueErr
  else if n =? 4 then LookupErr else if n =? 5 then IndexErr else if n =? 6 then KeyErr
  else if n =? 7 then AssertErr else if n =? 8 then RecursionErr else if n =? 9 then TypeErr else AttributeErr.
