(* Crawl engine of wpull as a labelled transition system (C01, C03).
   Definitions only.

   Transcribed from (line numbers of the pinned tree):
     wpull/pipeline/session.py     URLItemSource.get_item (check_out todo, then error),
                                   ItemSession.skip / set_status / add_child_url /
                                   child_url_record / finish
     wpull/database/sqltable.py    add_many (INSERT OR IGNORE in list order), check_out
                                   (first row with the status), check_in (status, try_count+1),
                                   update_one (status_code), release
     wpull/processor/web.py        WebProcessorSession.process / _process_robots /
                                   _process_loop / _fetch_one / _handle_response
     wpull/processor/rule.py       ProcessingRule._process_scrape_info (pre-filter consults the
                                   filters with the PAGE's request URL and the CHILD's record),
                                   ResultRule.handle_document / handle_no_document /
                                   handle_document_error / handle_error
     wpull/protocol/http/web.py    WebSession._process_redirect, redirect.py RedirectTracker
     wpull/pipeline/pipeline.py    Producer / Worker (producer checks items out ahead of the
                                   workers; FIFO queue; [conc] workers)
     wpull/application/tasks/database.py   start-up: release(), then add_many(start URLs)

   One transition = one table transaction (commit point) or one wire request or one
   scheduling decision.  A visit never READS the table after its check-out, so the
   sequence of actions of a visit is a function [plan] of the checked-out record; an
   in-flight item is the list of actions it still has to perform, and the LTS
   interleaves these lists arbitrarily.  [LCrash] drops all volatile state at any point.

   Not modelled (stated boundary): robots.txt (checks run with --no-robots; C20), cookies,
   authentication loop, FTP, plugins/hooks,
   the scraper's link order (a set iteration order: an input of the site).

   The hostnames table (sqltable.add_many, after the F33 repair: only rows of level 0, i.e.
   the URLs given on the command line, contribute) and its single read at start-up
   (URLFiltersPostURLImportSetupTask, after InputURLTask) into the span-hosts filter are
   modelled: [st_hosts] is persistent, [st_span] is what the running process holds. *)
From Coq Require Import List NArith Bool Arith.
From Wpull Require Import Gen.Consts.
Import ListNotations.
Open Scope N_scope.

Definition url := N.

Inductive status := Todo | InProgress | Done | Error | Skipped.

Definition status_eqb (a b : status) : bool :=
  match a, b with
  | Todo, Todo | InProgress, InProgress | Done, Done | Error, Error | Skipped, Skipped => true
  | _, _ => false
  end.

(* "final" in the sense of the property: done or skipped *)
Definition is_final (s : status) : bool :=
  match s with Done | Skipped => true | _ => false end.

(* the columns fixed at insertion *)
Record rinfo := mkInfo {
  ri_url : url; ri_level : N; ri_inline : option N; ri_parent : url; ri_root : url }.

Record row := mkRow { r_info : rinfo; r_status : status; r_tries : N; r_code : option N }.

Definition r_url (r : row) : url := ri_url (r_info r).

Definition new_row (i : rinfo) : row := mkRow i Todo 0 None.
Definition set_status (s : status) (r : row) : row := mkRow (r_info r) s (r_tries r) (r_code r).
Definition set_code (c : N) (r : row) : row := mkRow (r_info r) (r_status r) (r_tries r) (Some c).
(* URLTable.check_in: new status, try_count + 1 *)
Definition checkin (s : status) (r : row) : row := mkRow (r_info r) s (r_tries r + 1) (r_code r).

(* ---- the URL table: rows in insertion (id) order, keyed by URL ---- *)
Definition table := list row.

Definition has_url (u : url) (t : table) : bool := existsb (fun r => r_url r =? u) t.

(* INSERT OR IGNORE of one row *)
Definition add_one (t : table) (i : rinfo) : table :=
  if has_url (ri_url i) t then t else t ++ [new_row i].
Definition add_many (l : list rinfo) (t : table) : table := fold_left add_one l t.

(* the rows add_many really inserted (QueuedURL.watch_urls_inserted), in order *)
Definition added (l : list rinfo) (t : table) : list rinfo :=
  map r_info (skipn (length t) (add_many l t)).

(* INSERT OR IGNORE INTO hostnames *)
Definition add_host (hs : list N) (h : N) : list N :=
  if existsb (N.eqb h) hs then hs else hs ++ [h].

(* UPDATE ... WHERE url = u *)
Definition upd (u : url) (f : row -> row) (t : table) : table :=
  map (fun r => if r_url r =? u then f r else r) t.

Fixpoint find_status (s : status) (t : table) : option row :=
  match t with
  | [] => None
  | r :: t' => if status_eqb (r_status r) s then Some r else find_status s t'
  end.

(* URLItemSource.get_item: todo first, then error; lowest id *)
Definition pick (t : table) : option row :=
  match find_status Todo t with
  | Some r => Some r
  | None => find_status Error t
  end.

Definition release (t : table) : table :=
  map (fun r => if status_eqb (r_status r) InProgress then set_status Todo r else r) t.

(* ---- the site ---- *)
Inductive page :=
| Doc (code : N) (links : list (url * bool))     (* document status; links (normalised target, inline?) in scraper order *)
| NoDoc (code : N)                               (* 401 403 404 405 410: no document *)
| Err (code : N)                                 (* any other status: server error *)
| Redirect (code : N) (target : option url).     (* 301 302 303 307 308; None = no Location *)

Inductive action :=
| ARequest (u : url) (initial : bool)   (* one request on the wire *)
| ASetCode (c : N)                      (* update_one(status_code=...) commit *)
| AAddMany (l : list rinfo)             (* add_many commit *)
| ACheckIn (s : status).                (* check_in commit *)

Record item := mkItem { it_info : rinfo; it_tries : N; it_started : bool; it_todo : list action }.

Inductive mode := Down | Starting | Running.

(* request log entry: (item URL, requested URL, initial request?) - newest first *)
Definition logent := (url * url * bool)%type.

Record state := mkState {
  st_tbl : table;
  st_hosts : list N;                  (* the hostnames table (persistent) *)
  st_span : list N;                   (* SpanHostsFilter._hostnames of the running process (volatile) *)
  st_items : list item; st_log : list logent;
  st_colog : list url;                (* ghost: URLs checked out, newest first *)
  st_mode : mode;
  st_batch : nat }.                   (* start-up: how many of the start URLs the committed input batches cover *)

Inductive label :=
| LCheckout            (* producer: URLItemSource.get_item *)
| LStart               (* a free worker takes the oldest queued item *)
| LAct (n : nat)       (* the n-th in-flight item performs its next action *)
| LCrash               (* process killed: all volatile state is lost *)
| LRelease             (* start-up: URLTable.release() *)
| LAddStarts           (* start-up: add_many(start URLs) completed, hostnames table read *)
| LAddBatch (n : nat). (* start-up: InputURLTask commits the input in batches (of 1000): add_many of the next n start URLs *)

Definition start_info (u : url) : rinfo := mkInfo u 0 None u u.

(* the size at which ItemSession.add_url flushes its batch: READ FROM THE SOURCE on every run (Gen/Consts.v
   gen_child_batch_size, regenerated from wpull/pipeline/session.py); the proofs use only that it is positive, so a
   different batch size in the code changes the model with it and leaves every theorem standing *)
Definition flush_size : nat := N.to_nat gen_child_batch_size.
Fixpoint chunks (fuel : nat) (l : list rinfo) : list (list rinfo) :=
  match fuel with
  | O => []
  | S f => match l with [] => [] | _ => firstn flush_size l :: chunks f (skipn flush_size l) end
  end.

Section Plan.
  Variable site : url -> page.
  (* the filter verdict: is_redirect, tested URL, record (fixed columns), try_count *)
  Variable in_scope : bool -> url -> rinfo -> N -> bool.
  Variable maxredir : nat.

  (* ItemSession.add_child_url / child_url_record *)
  Definition child_info (p : rinfo) (l : url * bool) : rinfo :=
    mkInfo (fst l) (ri_level p + 1)
           (if snd l then Some (match ri_inline p with Some k => k | None => 0 end + 1) else None)
           (ri_url p) (ri_root p).

  (* ProcessingRule._process_scrape_info: the filters are consulted with the URL of the
     request that fetched the page ([f]) and the child's record *)
  Definition children (p : rinfo) (f : url) (links : list (url * bool)) : list rinfo :=
    filter (fun ci => in_scope false f ci 0) (map (child_info p) links).

  (* ItemSession.add_url commits the batch of admitted children whenever it has grown to [flush_size] entries
     (in the middle of the scrape); set_status / skip commit the remainder; add_many of an empty batch opens
     no transaction.  A kill may fall between two of these commits. *)
  Definition flush (l : list rinfo) : list action := map AAddMany (chunks (length l) l).

  (* _process_loop: [fuel] = redirects still allowed (RedirectTracker.exceeded) *)
  Fixpoint fetch (fuel : nat) (p : rinfo) (tries : N) (u : url) (initial : bool) : list action :=
    ARequest u initial ::
    match site u with
    | Doc code links => ASetCode code :: flush (children p u links) ++ [ACheckIn Done]
    | NoDoc code => [ASetCode code; ACheckIn Skipped]
    | Err code => [ASetCode code; ACheckIn Error]
    | Redirect code None => [ACheckIn Error]
    | Redirect code (Some t) =>
        match fuel with
        | O => [ACheckIn Error]                       (* "Too many redirects" raised in start() *)
        | S f => ASetCode code ::
                 (if in_scope true t p tries then fetch f p tries t false else [ACheckIn Skipped])
        end
    end.

  Definition plan (p : rinfo) (tries : N) : list action :=
    if in_scope false (ri_url p) p tries then fetch maxredir p tries (ri_url p) true
    else [ACheckIn Skipped].

  (* the URLs a visit of the record [p] (checked out with [tries]) adds to the table *)
  Fixpoint adds_of (l : list action) : list rinfo :=
    match l with
    | [] => []
    | AAddMany k :: l' => k ++ adds_of l'
    | _ :: l' => adds_of l'
    end.
  Definition kids (p : rinfo) (tries : N) : list rinfo := adds_of (plan p tries).

  (* "no fetch fails": from [u], at most [fuel] redirects lead to a page that is not an error *)
  Fixpoint resolves (fuel : nat) (u : url) : bool :=
    match site u with
    | Doc _ _ | NoDoc _ => true
    | Err _ => false
    | Redirect _ None => false
    | Redirect _ (Some t) => match fuel with O => false | S f => resolves f t end
    end.
End Plan.

Section Engine.
  Variable site : url -> page.
  Variable host : url -> N.            (* URLInfo.hostname of a table URL *)
  (* the filter verdict given the span-hosts list the process loaded at start-up *)
  Variable in_scope : list N -> bool -> url -> rinfo -> N -> bool.
  Variable maxredir : nat.
  Variable starts : list url.
  Variable conc : nat.

  (* add_many: hostnames of the inserted rows of level 0 *)
  Definition hosts_after (l : list rinfo) (t : table) (hs : list N) : list N :=
    fold_left add_host (map (fun i => host (ri_url i)) (filter (fun i => ri_level i =? 0) (added l t))) hs.

  Definition apply_hosts (a : action) (t : table) (hs : list N) : list N :=
    match a with AAddMany l => hosts_after l t hs | _ => hs end.

  Definition apply_tbl (u : url) (a : action) (t : table) : table :=
    match a with
    | ARequest _ _ => t
    | ASetCode c => upd u (set_code c) t
    | AAddMany l => add_many l t
    | ACheckIn s => upd u (checkin s) t
    end.

  Definition apply_log (u : url) (a : action) (lg : list logent) : list logent :=
    match a with ARequest q ini => (u, q, ini) :: lg | _ => lg end.

  Definition set_todo (l : list action) (it : item) : item :=
    mkItem (it_info it) (it_tries it) (it_started it) l.
  Definition set_started (it : item) : item :=
    mkItem (it_info it) (it_tries it) true (it_todo it).

  (* the n-th item, if started, gives up its next action; an item with nothing left is removed *)
  Fixpoint act_items (n : nat) (its : list item) : option (item * action * list item) :=
    match its with
    | [] => None
    | it :: rest =>
        match n with
        | O => if it_started it then
                 match it_todo it with
                 | [] => None
                 | a :: more => Some (it, a, match more with [] => rest | _ => set_todo more it :: rest end)
                 end
               else None
        | S n' => match act_items n' rest with
                  | Some (x, a, rest') => Some (x, a, it :: rest')
                  | None => None
                  end
        end
    end.

  (* FIFO queue: the oldest item not yet started *)
  Fixpoint start_first (its : list item) : option (list item) :=
    match its with
    | [] => None
    | it :: rest => if it_started it then option_map (cons it) (start_first rest)
                    else Some (set_started it :: rest)
    end.

  Definition n_started (its : list item) : nat := length (filter it_started its).

  Definition fire (l : label) (s : state) : option state :=
    match l, st_mode s with
    | LCheckout, Running =>
        match pick (st_tbl s) with
        | None => None
        | Some r =>
            Some (mkState (upd (r_url r) (set_status InProgress) (st_tbl s)) (st_hosts s) (st_span s)
                          (st_items s ++ [mkItem (r_info r) (r_tries r) false
                                                 (plan site (in_scope (st_span s)) maxredir (r_info r) (r_tries r))])
                          (st_log s) (r_url r :: st_colog s) Running (st_batch s))
        end
    | LStart, Running =>
        if (n_started (st_items s) <? conc)%nat then
          match start_first (st_items s) with
          | Some its => Some (mkState (st_tbl s) (st_hosts s) (st_span s) its (st_log s) (st_colog s) Running (st_batch s))
          | None => None
          end
        else None
    | LAct n, Running =>
        match act_items n (st_items s) with
        | Some (it, a, its) =>
            let u := ri_url (it_info it) in
            Some (mkState (apply_tbl u a (st_tbl s)) (apply_hosts a (st_tbl s) (st_hosts s)) (st_span s)
                          its (apply_log u a (st_log s)) (st_colog s) Running (st_batch s))
        | None => None
        end
    | LCrash, _ => Some (mkState (st_tbl s) (st_hosts s) [] [] (st_log s) (st_colog s) Down 0)
    | LRelease, Down => Some (mkState (release (st_tbl s)) (st_hosts s) [] [] (st_log s) (st_colog s) Starting 0)
    | LAddStarts, Starting =>
        (* InputURLTask.add_many, then URLFiltersPostURLImportSetupTask reads the hostnames table *)
        let hs := hosts_after (map start_info starts) (st_tbl s) (st_hosts s) in
        Some (mkState (add_many (map start_info starts) (st_tbl s)) hs hs [] (st_log s) (st_colog s) Running 0)
    | LAddBatch n, Starting =>
        (* one committed batch of the input; a kill may fall between two batches *)
        if ((0 <? n) && (st_batch s + n <=? length starts))%nat then
          let b := map start_info (firstn n (skipn (st_batch s) starts)) in
          Some (mkState (add_many b (st_tbl s)) (hosts_after b (st_tbl s) (st_hosts s)) [] []
                        (st_log s) (st_colog s) Starting (st_batch s + n))
        else None
    | _, _ => None
    end.

  Definition init : state := mkState [] [] [] [] [] [] Down 0.

  Definition is_crash (l : label) : bool := match l with LCrash => true | _ => false end.

  (* one step of an execution that may be killed / of a crash-free execution *)
  Definition step (s s' : state) : Prop := exists l, fire l s = Some s'.
  Definition step_nc (s s' : state) : Prop := exists l, is_crash l = false /\ fire l s = Some s'.

  Inductive reach : state -> Prop :=
  | reach_init : reach init
  | reach_step s s' : reach s -> step s s' -> reach s'.

  Inductive reach_nc : state -> Prop :=
  | reach_nc_init : reach_nc init
  | reach_nc_step s s' : reach_nc s -> step_nc s s' -> reach_nc s'.

  Inductive steps : state -> state -> Prop :=
  | steps_refl s : steps s s
  | steps_step s s' s'' : steps s s' -> step s' s'' -> steps s s''.

  Definition quiescent (s : state) : Prop := forall s', ~ step_nc s s'.

  (* ---- executable schedules (correspondence) ---- *)
  Fixpoint run_labels (ls : list label) (s : state) : option state :=
    match ls with
    | [] => Some s
    | l :: ls' => match fire l s with Some s' => run_labels ls' s' | None => None end
    end.

  (* the sequential schedule: check out, start, run the visit to its end, repeat *)
  Fixpoint seq_run (fuel : nat) (s : state) : option state :=
    match fuel with
    | O => None
    | S f =>
        match st_items s with
        | [] => match fire LCheckout s with Some s' => seq_run f s' | None => Some s end
        | it :: _ =>
            if it_started it then
              match fire (LAct 0) s with Some s' => seq_run f s' | None => Some s end
            else
              match fire LStart s with Some s' => seq_run f s' | None => Some s end
        end
    end.

  Definition boot (s : state) : option state :=
    match fire LRelease s with Some s1 => fire LAddStarts s1 | None => None end.

  (* a whole (re)run of the command on the database [t]: start-up, then crawl *)
  Definition run_on (fuel : nat) (t : table) (hs : list N) (lg : list logent) : option state :=
    match boot (mkState t hs [] [] lg [] Down 0) with
    | Some s => seq_run fuel s
    | None => None
    end.

End Engine.

(* ---- finite sites for evaluation ---- *)
Fixpoint site_of (l : list (url * page)) (u : url) : page :=
  match l with
  | [] => NoDoc 404
  | (k, p) :: l' => if k =? u then p else site_of l' u
  end.
