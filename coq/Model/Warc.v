(* Executable model of wpull's WARC writer (C05, C07):
     warc/format.py    WARCRecord.set_common_fields, set_content_length,
                       compute_checksum, __iter__ (serialisation)
     namevalue.py      NameValueRecord.__setitem__/__getitem__/to_str as used for
                       the named fields of a record (wrap_width None)
     warc/recorder.py  WARCRecorder.__init__, _start_new_warc_file,
                       _generate_warc_filename, _start_new_cdx_file,
                       _populate_warcinfo, flush_session (rollover),
                       set_length_and_maybe_checksums, write_record, close (log
                       record, meta file), _write_cdx_header, _write_cdx_field;
                       HTTPWARCRecorderSession (payload offset recorded at
                       begin_response, revisit truncation), FTPWARCRecorderSession
   over Lib/FsModel (files as byte strings) and Lib/Decimal (str(int)).
   Definitions only.

   What is NOT wpull code enters through the record [oracles]: SHA-1 + base32
   ([o_H]), gzip.GzipFile(mode='ab') writing one member ([o_gz], indexed by the
   number of the write because the member header carries mtime), uuid4 and the
   clock ([o_id], [o_date], indexed by the number of the set_common_fields call),
   strptime/timegm of the WARC-Date ([o_ts]) and the status/MIME sniffing of a
   response block ([o_sniff]; its model of get_http_header/parse_mimetype is
   Model/WarcText.v, the theorems about the writer hold for every sniffing
   function).  The event order of one recorder session is the one
   http/client.py Session.start/download and ftp/client.py emit; it is kept as a
   stage number in the session state and an event out of order is an error
   ([None]).  The journal file of write_record (C06) and move_to are not part
   of this model. *)
From Coq Require Import String Ascii.
From Coq Require Import List NArith Bool.
From Wpull Require Import Lib.Decimal Lib.FsModel.
Import ListNotations.
Open Scope N_scope.
Open Scope bool_scope.

Fixpoint bs (x : string) : bytes :=
  match x with
  | EmptyString => []
  | String a r => N_of_ascii a :: bs r
  end.

Definition crlf : bytes := [13; 10].

(* ---------------------------------------------------------------- *)
(* named fields: NameValueRecord with unique, already normalised names *)

Definition wfields := list (bytes * bytes).

(* fields[name] = value : replace in place, or append *)
Fixpoint fset (n v : bytes) (fs : wfields) : wfields :=
  match fs with
  | [] => [(n, v)]
  | (k, x) :: r => if leqb k n then (k, v) :: r else (k, x) :: fset n v r
  end.

Fixpoint fget (n : bytes) (fs : wfields) : option bytes :=
  match fs with
  | [] => None
  | (k, x) :: r => if leqb k n then Some x else fget n r
  end.

(* every name below is its own normal form: all are members of
   WARCRecord.NAME_OVERRIDES *)
Definition n_type := bs "WARC-Type".
Definition n_ctype := bs "Content-Type".
Definition n_date := bs "WARC-Date".
Definition n_id := bs "WARC-Record-ID".
Definition n_clen := bs "Content-Length".
Definition n_bdig := bs "WARC-Block-Digest".
Definition n_pdig := bs "WARC-Payload-Digest".
Definition n_info := bs "WARC-Warcinfo-ID".
Definition n_uri := bs "WARC-Target-URI".
Definition n_ip := bs "WARC-IP-Address".
Definition n_conc := bs "WARC-Concurrent-To".
Definition n_refers := bs "WARC-Refers-To".
Definition n_profile := bs "WARC-Profile".
Definition n_trunc := bs "WARC-Truncated".

Definition t_warcinfo := bs "warcinfo".
Definition t_request := bs "request".
Definition t_response := bs "response".
Definition t_revisit := bs "revisit".
Definition t_resource := bs "resource".
Definition t_metadata := bs "metadata".
Definition ct_fields := bs "application/warc-fields".
Definition ct_request := bs "application/http;msgtype=request".
Definition ct_response := bs "application/http;msgtype=response".
Definition ct_text := bs "text/plain".
Definition ct_ftpctl := bs "text/x-ftp-control-conversation".
Definition ct_octet := bs "application/octet-stream".
Definition v_profile := bs "http://netpreserve.org/warc/1.0/revisit/identical-payload-digest".
Definition v_length := bs "length".
Definition v_loguri := bs "urn:X-wpull:log".
Definition v_sha1 := bs "sha1:".
Definition v_version := bs "WARC/1.0".

Record wrec := mkRec { w_fields : wfields; w_block : bytes }.

(* NameValueRecord.to_str: 'name: value' or 'name:' per pair, CR LF after each *)
Definition field_line (kv : bytes * bytes) : bytes :=
  fst kv ++ (match snd kv with [] => [58] | v => 58 :: 32 :: v end) ++ crlf.
Definition fields_bytes (fs : wfields) : bytes := concat (map field_line fs).

(* WARCRecord.__iter__ *)
Definition serialize (r : wrec) : bytes :=
  v_version ++ crlf ++ fields_bytes (w_fields r) ++ crlf ++ w_block r ++ crlf ++ crlf.

(* ---------------------------------------------------------------- *)
Record oracles := mkOracles {
  o_H : bytes -> bytes;              (* base32(sha1(x)), 32 characters *)
  o_gz : nat -> bytes -> bytes;      (* the k-th gzip write: one member *)
  o_id : nat -> bytes;               (* '<urn:uuid:...>' of the k-th record created *)
  o_date : nat -> bytes;             (* datetime_str() at that moment *)
  o_ts : bytes -> bytes;             (* str(int(parse_iso8601_str(date))) *)
  o_sniff : bytes -> bytes * bytes   (* block -> (mime type, status) as written to the CDX *)
}.

Record cfg := mkCfg {
  c_dir : bytes;                     (* directory part of the prefix, '' or ending in '/' *)
  c_base : bytes;                    (* basename of the prefix (no '/') *)
  c_compress : bool;
  c_digests : bool;
  c_max_size : option N;
  c_appending : bool;
  c_log : bool;
  c_cdx : bool;
  c_info_block : bytes               (* bytes(info_fields) + CR LF, see WarcText.warcinfo_block *)
}.

(* a record under construction; [p_k] = number of its set_common_fields call (ghost) *)
Record prec := mkPrec { p_fields : wfields; p_block : bytes; p_k : nat }.

Definition set_common_fields (O : oracles) (k : nat) (t ct : bytes) (fs : wfields) : wfields :=
  fset n_id (o_id O k) (fset n_date (o_date O k) (fset n_ctype ct (fset n_type t fs))).

Definition blen (b : bytes) : N := N.of_nat (length b).

Definition set_content_length (fs : wfields) (block : bytes) : wfields :=
  fset n_clen (dec (blen block)) fs.

(* compute_checksum(payload_offset): the block hasher sees the whole block, the
   payload hasher what follows the first payload_offset bytes *)
Definition compute_checksum (O : oracles) (fs : wfields) (block : bytes) (poff : option N) : wfields :=
  let fs1 := fset n_bdig (v_sha1 ++ o_H O block) fs in
  let fs2 := match poff with
             | Some off => fset n_pdig (v_sha1 ++ o_H O (skipn (N.to_nat off) block)) fs1
             | None => fs1
             end in
  fset n_clen (dec (blen block)) fs2.

Definition set_length_and_maybe_checksums (O : oracles) (C : cfg) (fs : wfields) (block : bytes)
  (poff : option N) : wfields :=
  if c_digests C then compute_checksum O fs block poff else set_content_length fs block.

(* ---------------------------------------------------------------- *)
(* what write_record did, in order (ghost, used by the theorems only) *)
Inductive ghost :=
| GPlain
| GRequest (off : N)                       (* request: payload offset used *)
| GResponse (head : bytes) (off : N)       (* response: bytes received before begin_response, offset used *)
| GRevisit (head : bytes) (off : N) (orig : bytes).
                                           (* revisit: the same, and the block before it was cut *)

Record wevent := mkEv {
  e_file : name;                     (* full path of the archive file *)
  e_base : bytes;                    (* its basename, as written to the CDX *)
  e_off : N;                         (* its size before the append *)
  e_len : N;                         (* growth *)
  e_bytes : bytes;                   (* what was appended *)
  e_idx : nat;                       (* number of the write (gzip oracle index) *)
  e_rec : wrec;                      (* the record as serialised *)
  e_k : nat;                         (* creation number of the record *)
  e_ghost : ghost
}.

Inductive tentry :=
| TWrite (e : wevent)
| TTrunc (f : name).                 (* truncate_file(f) *)

Record cdxline := mkLine {
  x_url : bytes; x_ts : bytes; x_mime : bytes; x_status : bytes; x_digest : bytes;
  x_size : N; x_off : N; x_file : bytes; x_id : bytes
}.

(* HTTP recorder session; stage: 0 new, 1 request begun, 2 request written,
   3 response begun, 4 response written *)
Record hsess := mkH {
  h_stage : nat;
  h_url : bytes; h_ip : bytes;
  h_req : option prec;
  h_resp : option prec;              (* its block is the temp file [h_tmp] *)
  h_tmp : bytes;                     (* _response_temp_file *)
  h_poff : N;                        (* _response_payload_offset *)
  h_head : bytes                     (* ghost: content of the temp file at begin_response *)
}.

(* FTP recorder session; stage: 0 new, 1 control begun, 2 transfer begun,
   3 transfer written, 4 control written *)
Record fsess := mkF {
  f_stage : nat;
  f_url : bytes; f_ip : bytes; f_port : N;
  f_ctrl : option prec;
  f_resp : option prec
}.

Inductive sess := SH (h : hsess) | SF (f : fsess).

Record state := mkSt {
  st_fs : fs;
  st_seq : N;                        (* _sequence_num *)
  st_cur : name;                     (* _warc_filename *)
  st_cur_base : bytes;               (* os.path.basename(_warc_filename) *)
  st_info_id : bytes;                (* _warcinfo_record.fields['WARC-Record-ID'] *)
  st_next : nat;                     (* records created so far *)
  st_widx : nat;                     (* writes so far *)
  st_trace : list tentry;
  st_lines : list cdxline;           (* CDX lines written by this recorder *)
  st_sess : list (nat * sess)
}.

(* ---------------------------------------------------------------- *)
(* file names *)
Definition ext (C : cfg) : bytes := if c_compress C then bs "warc.gz" else bs "warc".

(* '-{0:05d}'.format(seq) / '-meta' / '' *)
Definition seq_name (C : cfg) (seq : N) (meta : bool) : bytes :=
  match c_max_size C with
  | None => []
  | Some _ => if meta then bs "-meta" else 45 :: dec_pad 5 seq
  end.

Definition gen_base (C : cfg) (seq : N) (meta : bool) : bytes :=
  c_base C ++ seq_name C seq meta ++ [46] ++ ext C.
Definition gen_name (C : cfg) (seq : N) (meta : bool) : name := c_dir C ++ gen_base C seq meta.
Definition cdx_name (C : cfg) : name := c_dir C ++ c_base C ++ bs ".cdx".

(* 'if self._params.max_size': None and 0 are false *)
Definition max_size_truthy (C : cfg) : bool :=
  match c_max_size C with Some m => negb (m =? 0) | None => false end.

(* the 'while True: ... os.path.exists' loop of _start_new_warc_file *)
Fixpoint skip_existing (fuel : nat) (C : cfg) (s : fs) (seq : N) : option N :=
  match fuel with
  | O => None
  | S f => if exists_file s (gen_name C seq false) then skip_existing f C s (N.succ seq) else Some seq
  end.

(* ---------------------------------------------------------------- *)
(* CDX *)
Definition sp : bytes := [32].
Definition cdx_header : bytes := bs " CDX a b m s k S V g u" ++ [10].

Definition render_line (l : cdxline) : bytes :=
  x_url l ++ sp ++ x_ts l ++ sp ++ x_mime l ++ sp ++ x_status l ++ sp ++ x_digest l ++ sp
  ++ dec (x_size l) ++ sp ++ dec (x_off l) ++ sp ++ x_file l ++ sp ++ x_id l ++ [10].

Fixpoint strip_pref (p s : bytes) : option bytes :=
  match p, s with
  | [], _ => Some s
  | x :: p', y :: s' => if x =? y then strip_pref p' s' else None
  | _ :: _, [] => None
  end.
Fixpoint drop_sp (s : bytes) : bytes :=
  match s with
  | c :: r => if c =? 32 then drop_sp r else s
  | [] => []
  end.

(* re.match(r'application/http; *msgtype *= *response', value) *)
Definition ct_is_http_response (v : bytes) : bool :=
  match strip_pref (bs "application/http;") v with
  | None => false
  | Some r1 =>
      match strip_pref (bs "msgtype") (drop_sp r1) with
      | None => false
      | Some r2 =>
          match strip_pref [61] (drop_sp r2) with
          | None => false
          | Some r3 => match strip_pref t_response (drop_sp r3) with Some _ => true | None => false end
          end
      end
  end.

Definition opt_eqb (a : option bytes) (b : bytes) : bool :=
  match a with Some x => leqb x b | None => false end.

(* the guard at the top of _write_cdx_field *)
Definition is_cdx_record (fs : wfields) : bool :=
  opt_eqb (fget n_type fs) t_response
  && match fget n_ctype fs with Some v => ct_is_http_response v | None => false end.

Definition or_empty (a : option bytes) : bytes := match a with Some x => x | None => [] end.

(* checksum = fields.get('WARC-Payload-Digest', ''); 'sha1:' prefix removed, else '-' *)
Definition cdx_checksum (fs : wfields) : bytes :=
  match strip_pref v_sha1 (or_empty (fget n_pdig fs)) with
  | Some r => r
  | None => [45]
  end.

Definition make_line (O : oracles) (fs : wfields) (block : bytes) (size off : N) (fbase : bytes) : cdxline :=
  let '(mime, status) := o_sniff O block in
  mkLine (or_empty (fget n_uri fs)) (o_ts O (or_empty (fget n_date fs))) mime status
         (cdx_checksum fs) size off fbase (or_empty (fget n_id fs)).

Definition append_file (s : fs) (f : name) (b : bytes) : fs := set s f (content s f ++ b).

(* ---------------------------------------------------------------- *)
(* write_record *)
Definition encode (O : oracles) (C : cfg) (k : nat) (m : bytes) : bytes :=
  if c_compress C then o_gz O k m else m.

Definition write_record (O : oracles) (C : cfg) (st : state) (p : prec) (g : ghost) : state :=
  let fs' := fset n_info (st_info_id st) (p_fields p) in
  let r := mkRec fs' (p_block p) in
  let before := size (st_fs st) (st_cur st) in
  let data := encode O C (st_widx st) (serialize r) in
  let s1 := append_file (st_fs st) (st_cur st) data in
  let after := size s1 (st_cur st) in
  let ev := mkEv (st_cur st) (st_cur_base st) before (after - before) data (st_widx st) r (p_k p) g in
  let write_line := c_cdx C && is_cdx_record fs' in
  let line := make_line O fs' (p_block p) (after - before) before (st_cur_base st) in
  mkSt (if write_line then append_file s1 (cdx_name C) (render_line line) else s1)
       (st_seq st) (st_cur st) (st_cur_base st) (st_info_id st) (st_next st) (S (st_widx st))
       (st_trace st ++ [TWrite ev])
       (if write_line then st_lines st ++ [line] else st_lines st)
       (st_sess st).

(* _start_new_warc_file(meta) with _populate_warcinfo; None = the existence
   loop ran out of fuel *)
Definition choose_seq (fuel : nat) (C : cfg) (st : state) (meta : bool) : option N :=
  if max_size_truthy C && negb meta && c_appending C
  then skip_existing fuel C (st_fs st) (st_seq st) else Some (st_seq st).

(* the new current file (truncated unless appending) and the new warcinfo id *)
Definition open_file (O : oracles) (C : cfg) (st : state) (seq : N) (meta : bool) : state :=
  let f := gen_name C seq meta in
  let trunc := negb (c_appending C) in
  mkSt (if trunc then set (st_fs st) f [] else st_fs st) seq f (gen_base C seq meta) (o_id O (st_next st))
       (S (st_next st)) (st_widx st)
       (if trunc then st_trace st ++ [TTrunc f] else st_trace st)
       (st_lines st) (st_sess st).

Definition warcinfo_prec (O : oracles) (C : cfg) (k : nat) : prec :=
  let fields := set_common_fields O k t_warcinfo ct_fields [] in
  (* compute_checksum() is called for the warcinfo record whatever --warc-digests says *)
  mkPrec (compute_checksum O fields (c_info_block C) None) (c_info_block C) k.

Definition start_new_warc_file (fuel : nat) (O : oracles) (C : cfg) (st : state) (meta : bool) : option state :=
  match choose_seq fuel C st meta with
  | None => None
  | Some seq => Some (write_record O C (open_file O C st seq meta) (warcinfo_prec O C (st_next st)) GPlain)
  end.

Definition bump_seq (st : state) : state :=
  mkSt (st_fs st) (N.succ (st_seq st)) (st_cur st) (st_cur_base st) (st_info_id st)
       (st_next st) (st_widx st) (st_trace st) (st_lines st) (st_sess st).

(* flush_session *)
Definition flush_session (fuel : nat) (O : oracles) (C : cfg) (st : state) : option state :=
  match c_max_size C with
  | Some m =>
      if m <? size (st_fs st) (st_cur st)
      then start_new_warc_file fuel O C (bump_seq st) false
      else Some st
  | None => Some st
  end.

(* ---------------------------------------------------------------- *)
(* session table *)
Fixpoint sfind (sid : nat) (l : list (nat * sess)) : option sess :=
  match l with
  | [] => None
  | (i, s) :: r => if Nat.eqb i sid then Some s else sfind sid r
  end.
Fixpoint sdel (sid : nat) (l : list (nat * sess)) : list (nat * sess) :=
  match l with
  | [] => []
  | (i, s) :: r => if Nat.eqb i sid then sdel sid r else (i, s) :: sdel sid r
  end.
Definition sput (sid : nat) (s : sess) (l : list (nat * sess)) : list (nat * sess) :=
  (sid, s) :: sdel sid l.

Definition with_sess (st : state) (l : list (nat * sess)) : state :=
  mkSt (st_fs st) (st_seq st) (st_cur st) (st_cur_base st) (st_info_id st) (st_next st) (st_widx st)
       (st_trace st) (st_lines st) l.
Definition bump_next (st : state) : state :=
  mkSt (st_fs st) (st_seq st) (st_cur st) (st_cur_base st) (st_info_id st) (S (st_next st)) (st_widx st)
       (st_trace st) (st_lines st) (st_sess st).

(* ---------------------------------------------------------------- *)
(* HTTP recorder session *)
Inductive hev :=
| HNew                                         (* new_http_recorder_session *)
| HBeginRequest (url ip : bytes)
| HRequestData (d : bytes)
| HEndRequest (hlen : N)                       (* len(request.to_bytes()) *)
| HResponseData (d : bytes)
| HBeginResponse
| HEndResponse (reser : N) (revisit : option bytes)
      (* len(response.to_bytes()); what url_table.get_revisit_id returned (None also
         when there is no url_table) *)
| HClose
| HWriteFailed.
      (* the append attempted at the end of the request (stage 1) or of the response (stage 3) failed
         with an I/O error: write_record rolled the file back (C06_io_error_restores: content, journal and
         every other file exactly as before), wrote no CDX line and re-raised; the exception ends the
         session.  Nothing of the recorder's own state changed: offsets are read from the file again at
         the next append. *)

Definition truthy_id (o : option bytes) : option bytes :=
  match o with Some (c :: r) => Some (c :: r) | _ => None end.

Definition http_event (fuel : nat) (O : oracles) (C : cfg) (st : state) (sid : nat) (e : hev) : option state :=
  match e, sfind sid (st_sess st) with
  | HNew, None => Some (with_sess st (sput sid (SH (mkH 0 [] [] None None [] 0 [])) (st_sess st)))
  | HNew, Some _ => None
  | HBeginRequest url ip, Some (SH h) =>
      if Nat.eqb (h_stage h) 0 then
        let k := st_next st in
        let fields := fset n_ip ip (fset n_uri url (set_common_fields O k t_request ct_request [])) in
        let h' := mkH 1 url ip (Some (mkPrec fields [] k)) None (h_tmp h) (h_poff h) (h_head h) in
        Some (with_sess (bump_next st) (sput sid (SH h') (st_sess st)))
      else None
  | HRequestData d, Some (SH h) =>
      match h_stage h, h_req h with
      | 1%nat, Some p =>
          let h' := mkH 1 (h_url h) (h_ip h) (Some (mkPrec (p_fields p) (p_block p ++ d) (p_k p)))
                        None (h_tmp h) (h_poff h) (h_head h) in
          Some (with_sess st (sput sid (SH h') (st_sess st)))
      | _, _ => None
      end
  | HEndRequest hlen, Some (SH h) =>
      match h_stage h, h_req h with
      | 1%nat, Some p =>
          let fields := set_length_and_maybe_checksums O C (p_fields p) (p_block p) (Some hlen) in
          let p' := mkPrec fields (p_block p) (p_k p) in
          let st1 := write_record O C st p' (GRequest hlen) in
          (* write_record also left WARC-Warcinfo-ID in the record object *)
          let p'' := mkPrec (fset n_info (st_info_id st) fields) (p_block p) (p_k p) in
          let h' := mkH 2 (h_url h) (h_ip h) (Some p'') None (h_tmp h) (h_poff h) (h_head h) in
          Some (with_sess st1 (sput sid (SH h') (st_sess st)))
      | _, _ => None
      end
  | HResponseData d, Some (SH h) =>
      if Nat.eqb (h_stage h) 2 || Nat.eqb (h_stage h) 3 then
        let h' := mkH (h_stage h) (h_url h) (h_ip h) (h_req h) (h_resp h) (h_tmp h ++ d) (h_poff h) (h_head h) in
        Some (with_sess st (sput sid (SH h') (st_sess st)))
      else None
  | HBeginResponse, Some (SH h) =>
      match h_stage h, h_req h with
      | 2%nat, Some q =>
          let k := st_next st in
          let fields := fset n_conc (or_empty (fget n_id (p_fields q)))
                          (fset n_ip (h_ip h) (fset n_uri (h_url h)
                             (set_common_fields O k t_response ct_response []))) in
          let h' := mkH 3 (h_url h) (h_ip h) (h_req h) (Some (mkPrec fields [] k)) (h_tmp h)
                        (blen (h_tmp h)) (h_tmp h) in
          Some (with_sess (bump_next st) (sput sid (SH h') (st_sess st)))
      | _, _ => None
      end
  | HEndResponse reser revisit, Some (SH h) =>
      match h_stage h, h_resp h with
      | 3%nat, Some p =>
          (* payload_offset = self._response_payload_offset or len(response.to_bytes()) *)
          let off := if h_poff h =? 0 then reser else h_poff h in
          let fields := set_length_and_maybe_checksums O C (p_fields p) (h_tmp h) (Some off) in
          let '(fields, block, g) :=
            match truthy_id revisit with
            | Some ref =>
                let cut := truncate_to off (h_tmp h) in
                let f1 := set_length_and_maybe_checksums O C fields cut None in
                (fset n_trunc v_length (fset n_profile v_profile (fset n_refers ref (fset n_type t_revisit f1))),
                 cut, GRevisit (h_head h) off (h_tmp h))
            | None => (fields, h_tmp h, GResponse (h_head h) off)
            end in
          let st1 := write_record O C st (mkPrec fields block (p_k p)) g in
          let h' := mkH 4 (h_url h) (h_ip h) (h_req h) None block (h_poff h) (h_head h) in
          Some (with_sess st1 (sput sid (SH h') (st_sess st)))
      | _, _ => None
      end
  | HClose, Some (SH h) =>
      flush_session fuel O C (with_sess st (sdel sid (st_sess st)))
  | HWriteFailed, Some (SH h) =>
      if Nat.eqb (h_stage h) 1 || Nat.eqb (h_stage h) 3 then
        Some (with_sess st (sput sid (SH (mkH 5 (h_url h) (h_ip h) None None (h_tmp h) (h_poff h) (h_head h))) (st_sess st)))
      else None
  | _, _ => None
  end.

(* ---------------------------------------------------------------- *)
(* FTP recorder session *)
Inductive fev :=
| FNew
| FBeginControl (url ip : bytes) (port : N) (reused : bool)
| FSend (d : bytes)
| FRecv (d : bytes)
| FBeginTransfer (dhost : bytes) (dport : N)
| FData (d : bytes)
| FEndTransfer (dhost : bytes) (dport : N)
| FEndControl (closed : bool)
| FClose.

(* str.splitlines(True) boundaries that can occur in ASCII text *)
Definition ascii_linebreak (c : N) : bool :=
  ((10 <=? c) && (c <=? 13)) || ((28 <=? c) && (c <=? 30)).

(* textwrap.indent(text, prefix, predicate=lambda line: True) on ASCII text:
   the prefix goes in front of every line of text.splitlines(True) *)
Fixpoint indent_from (at_start : bool) (prefix s : bytes) : bytes :=
  match s with
  | [] => []
  | c :: r =>
      (if at_start then prefix else []) ++
      c :: (if ascii_linebreak c
            then (if c =? 13
                  then match r with
                       | d :: r' => if d =? 10 then d :: indent_from true prefix r' else indent_from true prefix r
                       | [] => []
                       end
                  else indent_from true prefix r)
            else indent_from false prefix r)
  end.
Definition indent (prefix s : bytes) : bytes := indent_from true prefix s.

Definition ends_with_lf (s : bytes) : bool :=
  match rev s with c :: _ => c =? 10 | [] => false end.

(* control_send_data / control_receive_data / _write_control_event *)
Definition ctrl_text (prefix d : bytes) : bytes :=
  indent prefix d ++ (if ends_with_lf d then [] else [10]).

Definition has_colon (s : bytes) : bool := existsb (fun c => c =? 58) s.
(* _request_hostname_port *)
Definition host_port (ip : bytes) (port : N) : bytes :=
  (if has_colon ip then [91] ++ ip ++ [93] else ip) ++ [58] ++ dec port.

Definition ctrl_add (p : prec) (t : bytes) : prec := mkPrec (p_fields p) (p_block p ++ t) (p_k p).

Definition ftp_event (fuel : nat) (O : oracles) (C : cfg) (st : state) (sid : nat) (e : fev) : option state :=
  match e, sfind sid (st_sess st) with
  | FNew, None => Some (with_sess st (sput sid (SF (mkF 0 [] [] 0 None None)) (st_sess st)))
  | FNew, Some _ => None
  | FBeginControl url ip port reused, Some (SF f) =>
      if Nat.eqb (f_stage f) 0 then
        let k := st_next st in
        let fields := fset n_ip ip (fset n_uri url (set_common_fields O k t_metadata ct_ftpctl [])) in
        let msg := (if reused then bs "Reusing control connection to " else bs "Opening control connection to ")
                   ++ host_port ip port in
        let f' := mkF 1 url ip port (Some (mkPrec fields (ctrl_text (bs "* ") msg) k)) None in
        Some (with_sess (bump_next st) (sput sid (SF f') (st_sess st)))
      else None
  | FSend d, Some (SF f) =>
      match f_ctrl f with
      | Some p =>
          if (Nat.leb 1 (f_stage f)) && (Nat.leb (f_stage f) 3) then
            let f' := mkF (f_stage f) (f_url f) (f_ip f) (f_port f) (Some (ctrl_add p (ctrl_text (bs "> ") d))) (f_resp f) in
            Some (with_sess st (sput sid (SF f') (st_sess st)))
          else None
      | None => None
      end
  | FRecv d, Some (SF f) =>
      match f_ctrl f with
      | Some p =>
          if (Nat.leb 1 (f_stage f)) && (Nat.leb (f_stage f) 3) then
            let f' := mkF (f_stage f) (f_url f) (f_ip f) (f_port f) (Some (ctrl_add p (ctrl_text (bs "< ") d))) (f_resp f) in
            Some (with_sess st (sput sid (SF f') (st_sess st)))
          else None
      | None => None
      end
  | FBeginTransfer dhost dport, Some (SF f) =>
      match f_stage f, f_ctrl f with
      | 1%nat, Some p =>
          let msg := bs "Opened data connection to " ++ dhost ++ [58] ++ dec dport in
          let k := st_next st in
          let fields := fset n_conc (or_empty (fget n_id (p_fields p)))
                          (fset n_ip (f_ip f) (fset n_uri (f_url f)
                             (set_common_fields O k t_resource ct_octet []))) in
          let f' := mkF 2 (f_url f) (f_ip f) (f_port f) (Some (ctrl_add p (ctrl_text (bs "* ") msg)))
                        (Some (mkPrec fields [] k)) in
          Some (with_sess (bump_next st) (sput sid (SF f') (st_sess st)))
      | _, _ => None
      end
  | FData d, Some (SF f) =>
      match f_stage f, f_resp f with
      | 2%nat, Some q =>
          let f' := mkF 2 (f_url f) (f_ip f) (f_port f) (f_ctrl f)
                        (Some (mkPrec (p_fields q) (p_block q ++ d) (p_k q))) in
          Some (with_sess st (sput sid (SF f') (st_sess st)))
      | _, _ => None
      end
  | FEndTransfer dhost dport, Some (SF f) =>
      match f_stage f, f_ctrl f, f_resp f with
      | 2%nat, Some p, Some q =>
          let msg := bs "Closed data connection to " ++ dhost ++ [58] ++ dec dport in
          let fields := set_length_and_maybe_checksums O C (p_fields q) (p_block q) None in
          let st1 := write_record O C st (mkPrec fields (p_block q) (p_k q)) GPlain in
          let f' := mkF 3 (f_url f) (f_ip f) (f_port f) (Some (ctrl_add p (ctrl_text (bs "* ") msg))) None in
          Some (with_sess st1 (sput sid (SF f') (st_sess st)))
      | _, _, _ => None
      end
  | FEndControl closed, Some (SF f) =>
      match f_ctrl f with
      | Some p =>
          if (Nat.leb 1 (f_stage f)) && (Nat.leb (f_stage f) 3) then
            let msg := (if closed then bs "Closed control connection to " else bs "Kept control connection to ")
                       ++ host_port (f_ip f) (f_port f) in
            let p1 := ctrl_add p (ctrl_text (bs "* ") msg) in
            let fields := set_length_and_maybe_checksums O C (p_fields p1) (p_block p1) None in
            let st1 := write_record O C st (mkPrec fields (p_block p1) (p_k p1)) GPlain in
            let f' := mkF 4 (f_url f) (f_ip f) (f_port f) None None in
            Some (with_sess st1 (sput sid (SF f') (st_sess st)))
          else None
      | None => None
      end
  | FClose, Some (SF f) =>
      flush_session fuel O C (with_sess st (sdel sid (st_sess st)))
  | _, _ => None
  end.

(* ---------------------------------------------------------------- *)
(* the recorder's life: __init__, events, close() *)
Inductive op :=
| OHttp (sid : nat) (e : hev)
| OFtp (sid : nat) (e : fev).

Definition step (fuel : nat) (O : oracles) (C : cfg) (st : state) (o : op) : option state :=
  match o with
  | OHttp sid e => http_event fuel O C st sid e
  | OFtp sid e => ftp_event fuel O C st sid e
  end.

Fixpoint run_ops (fuel : nat) (O : oracles) (C : cfg) (st : state) (ops : list op) : option state :=
  match ops with
  | [] => Some st
  | o :: r => match step fuel O C st o with Some st' => run_ops fuel O C st' r | None => None end
  end.

(* _start_new_cdx_file *)
Definition start_new_cdx_file (C : cfg) (s : fs) : fs :=
  if negb (c_appending C) then set s (cdx_name C) cdx_header
  else if exists_file s (cdx_name C) then s else set s (cdx_name C) cdx_header.

Definition init_state (s : fs) : state := mkSt s 0 [] [] [] 0 0 [] [] [].

Definition recorder_init (fuel : nat) (O : oracles) (C : cfg) (s : fs) : option state :=
  match start_new_warc_file fuel O C (init_state s) false with
  | None => None
  | Some st =>
      if c_cdx C then
        Some (mkSt (start_new_cdx_file C (st_fs st)) (st_seq st) (st_cur st) (st_cur_base st) (st_info_id st)
                   (st_next st) (st_widx st) (st_trace st) (st_lines st) (st_sess st))
      else Some st
  end.

(* close(): the log record (its block is the decompressed log temp file, an input) *)
Definition recorder_close (fuel : nat) (O : oracles) (C : cfg) (st : state) (logblock : bytes) : option state :=
  if c_log C then
    let k := st_next st in
    let fields := fset n_uri v_loguri (set_common_fields O k t_resource ct_text []) in
    let ost := match c_max_size C with
               | Some _ => start_new_warc_file fuel O C (bump_next st) true
               | None => Some (bump_next st)
               end in
    match ost with
    | None => None
    | Some st1 =>
        let fields := set_length_and_maybe_checksums O C fields logblock None in
        Some (write_record O C st1 (mkPrec fields logblock k) GPlain)
    end
  else Some st.

Definition lifetime (fuel : nat) (O : oracles) (C : cfg) (s : fs) (ops : list op) (logblock : bytes) : option state :=
  match recorder_init fuel O C s with
  | None => None
  | Some st0 =>
      match run_ops fuel O C st0 ops with
      | None => None
      | Some st1 => recorder_close fuel O C st1 logblock
      end
  end.

(* ---------------------------------------------------------------- *)
(* an independent strict WARC/1.0 reader *)

(* one line up to CR LF; a bare CR or LF is not allowed inside a line *)
Fixpoint read_line (s : bytes) : option (bytes * bytes) :=
  match s with
  | [] => None
  | c :: r =>
      if c =? 13 then
        match r with
        | d :: r' => if d =? 10 then Some ([], r') else None
        | [] => None
        end
      else if c =? 10 then None
      else match read_line r with
           | Some (l, r') => Some (c :: l, r')
           | None => None
           end
  end.

(* name ":" [ " " value ]; the name is not empty *)
Fixpoint split_colon (s : bytes) : option (bytes * bytes) :=
  match s with
  | [] => None
  | c :: r => if c =? 58 then Some ([], r)
              else match split_colon r with
                   | Some (a, b) => Some (c :: a, b)
                   | None => None
                   end
  end.
Definition parse_field (l : bytes) : option (bytes * bytes) :=
  match split_colon l with
  | Some (c :: n, []) => Some (c :: n, [])
  | Some (c :: n, sp1 :: v) => if sp1 =? 32 then Some (c :: n, v) else None
  | _ => None
  end.

(* named fields, one per line, up to the empty line *)
Fixpoint read_fields (fuel : nat) (s : bytes) : option (wfields * bytes) :=
  match fuel with
  | O => None
  | S f =>
      match read_line s with
      | None => None
      | Some ([], r) => Some ([], r)
      | Some (l, r) =>
          match parse_field l, read_fields f r with
          | Some kv, Some (fs, r') => Some (kv :: fs, r')
          | _, _ => None
          end
      end
  end.

Definition count_name (n : bytes) (fs : wfields) : nat :=
  length (filter (fun kv => leqb (fst kv) n) fs).

Definition has_field (n : bytes) (fs : wfields) : bool :=
  match fget n fs with Some _ => true | None => false end.

(* one record: version line, fields (the four mandatory ones present, exactly one
   Content-Length, a strict decimal), block of that length, CR LF CR LF *)
Definition read_record (s : bytes) : option (wrec * bytes) :=
  match read_line s with
  | Some (v, r1) =>
      if leqb v v_version then
        match read_fields (S (length r1)) r1 with
        | Some (fs, r2) =>
            if Nat.eqb (count_name n_clen fs) 1 && has_field n_type fs && has_field n_date fs && has_field n_id fs then
              match fget n_clen fs with
              | Some v =>
                  match undec v with
                  | Some n =>
                      if n <=? blen r2 then
                        let block := firstn (N.to_nat n) r2 in
                        match strip_pref (crlf ++ crlf) (skipn (N.to_nat n) r2) with
                        | Some r3 => Some (mkRec fs block, r3)
                        | None => None
                        end
                      else None
                  | None => None
                  end
              | None => None
              end
            else None
        | None => None
        end
      else None
  | None => None
  end.

Fixpoint strict_parse_fuel (fuel : nat) (s : bytes) : option (list wrec) :=
  match s with
  | [] => Some []
  | _ =>
      match fuel with
      | O => None
      | S f =>
          match read_record s with
          | Some (r, rest) =>
              match strict_parse_fuel f rest with
              | Some rs => Some (r :: rs)
              | None => None
              end
          | None => None
          end
      end
  end.
Definition strict_parse (s : bytes) : option (list wrec) := strict_parse_fuel (length s) s.

(* compressed archive: a sequence of members ([gunz] splits the first member off
   and returns its decompressed content), each holding exactly one record *)
Fixpoint strict_members_fuel (gunz : bytes -> option (bytes * bytes)) (fuel : nat) (s : bytes) : option (list wrec) :=
  match s with
  | [] => Some []
  | _ =>
      match fuel with
      | O => None
      | S f =>
          match gunz s with
          | Some (m, rest) =>
              match strict_parse m, strict_members_fuel gunz f rest with
              | Some [r], Some rs => Some (r :: rs)
              | _, _ => None
              end
          | None => None
          end
      end
  end.

(* byte range [off, off+len) *)
Definition slice (c : bytes) (off len : N) : bytes := firstn (N.to_nat len) (skipn (N.to_nat off) c).

(* trace projections *)
Definition writes (t : list tentry) : list wevent :=
  flat_map (fun x => match x with TWrite e => [e] | TTrunc _ => [] end) t.
Definition writes_to (f : name) (t : list tentry) : list wevent :=
  filter (fun e => leqb (e_file e) f) (writes t).
