(* C12 - executable model of wpull/network/pool.py (HostPool, ConnectionPool) and of
   the session discipline of wpull/protocol/abstract/client.py (BaseSession
   __exit__/abort/recycle), as a labelled transition system.  Definitions only.

   Granularity: one transition = the code one asyncio task runs between two real
   suspension points (DESIGN Appendix A).  From the 3.12 asyncio source:
     Lock.acquire    does not suspend when the lock is free and every queued waiter
                     is cancelled (fast path); otherwise the task queues FIFO.
     Lock.release    unlocks and wakes the first queued waiter if its future is pending.
     a queued waiter that is woken sets locked:=True when it RUNS; if it was cancelled
                     (future cancelled, or Task._must_cancel because the future was
                     already done) it leaves the queue, wakes the next waiter if the
                     lock is free, and raises CancelledError.
     Condition.wait  releases the lock, parks on a fresh future (appended to the
                     condition's waiter list), and when resumed - normally OR by
                     CancelledError - first removes its future, then RE-ACQUIRES the
                     lock (looping over further CancelledErrors) and only then returns
                     or re-raises.
     Condition.notify wakes the first waiter whose future is still pending.
     awaiting asyncio.shield(task): suspends iff the task is unfinished; cancelling the
                     awaiting task does not touch the shielded task.
   Threads: clients (any number, any keys) and release tasks created by
   no_wait_release / pool.clean() calls of the environment.  Set pops
   (ready.pop(), _release_tasks.pop()) are nondeterministic: the label carries the
   elements that were popped.

   The model is of the code AFTER the three fix commits of this property
   (try/finally in both acquires; notify on a failed acquire; shielded drain). *)
From Coq Require Import List Arith Bool ZArith Lia.
Import ListNotations.
Open Scope bool_scope.

Definition key := nat.
Definition cid := nat.
Definition cli := nat.
Definition rid := nat.

Inductive tid := TC (c : cli) | TR (r : rid).
Definition tid_eqb (a b : tid) : bool :=
  match a, b with
  | TC x, TC y => Nat.eqb x y
  | TR x, TR y => Nat.eqb x y
  | _, _ => false
  end.

(* state of the future a suspended task awaits *)
Inductive fstat := FPending | FDone | FCancelled.
Definition is_pending (f : fstat) := match f with FPending => true | _ => false end.
Definition is_fdone (f : fstat) := match f with FDone => true | _ => false end.
Definition is_cancelled (f : fstat) := match f with FCancelled => true | _ => false end.

(* primitive projections: [pools (mkState a ..)] reduces without exposing a match on variables
   (keeps the proof terms of Proofs/Pool*.v small; no effect on vm_compute results) *)
Set Primitive Projections.
(* ---------------- asyncio.Lock ---------------- *)
Record lock := mkLock { locked : bool; lwait : list (tid * fstat) }.
Definition free_lock := mkLock false [].
Definition fast_ok (l : lock) : bool :=
  negb (locked l) && forallb (fun e => is_cancelled (snd e)) (lwait l).
Definition wake_first (q : list (tid * fstat)) : list (tid * fstat) :=
  match q with
  | (t, FPending) :: r => (t, FDone) :: r
  | _ => q
  end.
Fixpoint lq_status (q : list (tid * fstat)) (t : tid) : option fstat :=
  match q with
  | [] => None
  | (u, f) :: r => if tid_eqb u t then Some f else lq_status r t
  end.
Fixpoint lq_remove (q : list (tid * fstat)) (t : tid) : list (tid * fstat) :=
  match q with
  | [] => []
  | (u, f) :: r => if tid_eqb u t then r else (u, f) :: lq_remove r t
  end.
Fixpoint lq_cancel (q : list (tid * fstat)) (t : tid) : list (tid * fstat) :=
  match q with
  | [] => []
  | (u, f) :: r => if tid_eqb u t then (u, FCancelled) :: r else (u, f) :: lq_cancel r t
  end.

(* ---------------- HostPool ---------------- *)
Record hpool := mkHP {
  ready : list cid;                 (* HostPool.ready  (a set) *)
  busy : list cid;                  (* HostPool.busy   (a set) *)
  hlock : lock;                     (* HostPool._lock, shared with _condition *)
  cwait : list (cli * fstat);       (* Condition._waiters, FIFO *)
  hwaiters : Z                      (* ConnectionPool._host_pool_waiters[key] *)
}.
Definition new_hpool := mkHP [] [] free_lock [] 1.

(* Condition._waiters *)
Fixpoint cw_status (q : list (cli * fstat)) (c : cli) : option fstat :=
  match q with
  | [] => None
  | (u, f) :: r => if Nat.eqb u c then Some f else cw_status r c
  end.
Fixpoint cw_remove (q : list (cli * fstat)) (c : cli) : list (cli * fstat) :=
  match q with
  | [] => []
  | (u, f) :: r => if Nat.eqb u c then r else (u, f) :: cw_remove r c
  end.
Fixpoint cw_cancel (q : list (cli * fstat)) (c : cli) : list (cli * fstat) :=
  match q with
  | [] => []
  | (u, f) :: r => if Nat.eqb u c then (u, FCancelled) :: r else (u, f) :: cw_cancel r c
  end.
(* Condition.notify(1): first waiter whose future is not done *)
Fixpoint cw_notify (q : list (cli * fstat)) : list (cli * fstat) :=
  match q with
  | [] => []
  | (u, FPending) :: r => (u, FDone) :: r
  | e :: r => e :: cw_notify r
  end.

(* the dict ConnectionPool._host_pools, in insertion order *)
Fixpoint aget (l : list (key * hpool)) (k : key) : option hpool :=
  match l with
  | [] => None
  | (j, v) :: r => if Nat.eqb j k then Some v else aget r k
  end.
Fixpoint aset (l : list (key * hpool)) (k : key) (v : hpool) : list (key * hpool) :=
  match l with
  | [] => [(k, v)]
  | (j, w) :: r => if Nat.eqb j k then (j, v) :: r else (j, w) :: aset r k v
  end.
Fixpoint adel (l : list (key * hpool)) (k : key) : list (key * hpool) :=
  match l with
  | [] => []
  | (j, w) :: r => if Nat.eqb j k then adel r k else (j, w) :: adel r k
  end.

Fixpoint mem (x : nat) (l : list nat) : bool :=
  match l with [] => false | y :: r => Nat.eqb y x || mem x r end.
Fixpoint remove1 (x : nat) (l : list nat) : list nat :=
  match l with [] => [] | y :: r => if Nat.eqb y x then r else y :: remove1 x r end.

(* ---------------- program counters ---------------- *)
(* where a CLIENT continues once it owns the lock it queued for *)
Inductive ccont :=
| KC_reg (k : key)                       (* ConnectionPool.acquire: first "with host_pools_lock" *)
| KC_loop (k : key)                      (* HostPool.acquire: after _condition.acquire() *)
| KC_rewait (k : key) (cancelled : bool) (* Condition.wait: re-acquire in its finally *)
| KC_dec (k : key) (res : option cid).   (* ConnectionPool.acquire: "finally: with host_pools_lock" *)

Inductive cpc :=
| C_idle                                 (* outside the pool, parked on the environment *)
| C_drain (r : rid) (k : key)            (* _process_no_wait_releases: awaiting shield(task r) *)
| C_lockq (cont : ccont)                 (* queued on a lock *)
| C_parked (k : key)                     (* HostPool.acquire: inside _condition.wait() *)
| C_holding (k : key) (x : cid)          (* acquire returned x; inside its BaseSession *)
| C_cancelled.                           (* task ended by CancelledError *)

(* where a RELEASE / CLEAN task continues once it owns the lock it queued for *)
Inductive rcont :=
| KR_rel (x : cid)                                   (* HostPool.release: after _condition.acquire() *)
| KR_clean (force : bool)                            (* ConnectionPool.clean: "with host_pools_lock" *)
| KR_cleank (k : key) (ks : list key) (force : bool). (* HostPool.clean of k: "with self._lock" *)

Inductive rpc :=
| R_none                                 (* no such task *)
| R_new (x : option cid) (force : bool)  (* created, first step not run: release(x) / clean(force) *)
| R_lockq (cont : rcont)
| R_done.

Definition lockid_of_ccont (c : ccont) : option key :=      (* None = the pool-wide host_pools_lock *)
  match c with
  | KC_reg _ => None
  | KC_loop k => Some k
  | KC_rewait k _ => Some k
  | KC_dec _ _ => None
  end.
Definition lockid_of_rcont (c : rcont) : option key :=
  match c with
  | KR_rel _ => None    (* resolved through the connection's key, see resume_rel *)
  | KR_clean _ => None
  | KR_cleank k _ _ => Some k
  end.

(* ---------------- global state ---------------- *)
Record state := mkState {
  pools : list (key * hpool);   (* _host_pools + _host_pool_waiters *)
  hplock : lock;                (* _host_pools_lock *)
  relset : list rid;            (* _release_tasks *)
  rtasks : rid -> rpc;
  next_rid : nat;
  clients : cli -> cpc;
  mcancel : cli -> bool;        (* Task._must_cancel / CancelledError pending for the next step *)
  creq : cli -> bool;           (* the environment has cancelled this client (it does so at most once) *)
  next_cid : nat;
  copen : cid -> bool;          (* not connection.closed() *)
  ckey : cid -> key;            (* connection.key *)
  err : bool                    (* an exception escaped pool code (KeyError, RuntimeError) *)
}.

Unset Primitive Projections.

Definition init : state :=
  mkState [] free_lock [] (fun _ => R_none) 0 (fun _ => C_idle) (fun _ => false) (fun _ => false)
          0 (fun _ => false) (fun _ => 0) false.

Definition upd {A} (f : nat -> A) (i : nat) (v : A) : nat -> A :=
  fun j => if Nat.eqb j i then v else f j.

Definition set_pools s v := mkState v (hplock s) (relset s) (rtasks s) (next_rid s) (clients s) (mcancel s) (creq s) (next_cid s) (copen s) (ckey s) (err s).
Definition set_hplock s v := mkState (pools s) v (relset s) (rtasks s) (next_rid s) (clients s) (mcancel s) (creq s) (next_cid s) (copen s) (ckey s) (err s).
Definition set_relset s v := mkState (pools s) (hplock s) v (rtasks s) (next_rid s) (clients s) (mcancel s) (creq s) (next_cid s) (copen s) (ckey s) (err s).
Definition set_rtasks s v := mkState (pools s) (hplock s) (relset s) v (next_rid s) (clients s) (mcancel s) (creq s) (next_cid s) (copen s) (ckey s) (err s).
Definition set_next_rid s v := mkState (pools s) (hplock s) (relset s) (rtasks s) v (clients s) (mcancel s) (creq s) (next_cid s) (copen s) (ckey s) (err s).
Definition set_clients s v := mkState (pools s) (hplock s) (relset s) (rtasks s) (next_rid s) v (mcancel s) (creq s) (next_cid s) (copen s) (ckey s) (err s).
Definition set_mcancel s v := mkState (pools s) (hplock s) (relset s) (rtasks s) (next_rid s) (clients s) v (creq s) (next_cid s) (copen s) (ckey s) (err s).
Definition set_creq s v := mkState (pools s) (hplock s) (relset s) (rtasks s) (next_rid s) (clients s) (mcancel s) v (next_cid s) (copen s) (ckey s) (err s).
Definition set_next_cid s v := mkState (pools s) (hplock s) (relset s) (rtasks s) (next_rid s) (clients s) (mcancel s) (creq s) v (copen s) (ckey s) (err s).
Definition set_copen s v := mkState (pools s) (hplock s) (relset s) (rtasks s) (next_rid s) (clients s) (mcancel s) (creq s) (next_cid s) v (ckey s) (err s).
Definition set_ckey s v := mkState (pools s) (hplock s) (relset s) (rtasks s) (next_rid s) (clients s) (mcancel s) (creq s) (next_cid s) (copen s) v (err s).
Definition set_err s := mkState (pools s) (hplock s) (relset s) (rtasks s) (next_rid s) (clients s) (mcancel s) (creq s) (next_cid s) (copen s) (ckey s) true.

Definition set_cpc s c pc := set_clients s (upd (clients s) c pc).
Definition set_rpc s r pc := set_rtasks s (upd (rtasks s) r pc).
Definition set_pool s k hp := set_pools s (aset (pools s) k hp).

Definition set_hlock (hp : hpool) (l : lock) := mkHP (ready hp) (busy hp) l (cwait hp) (hwaiters hp).
Definition set_cwait (hp : hpool) (q : list (cli * fstat)) := mkHP (ready hp) (busy hp) (hlock hp) q (hwaiters hp).
Definition set_ready (hp : hpool) (v : list cid) := mkHP v (busy hp) (hlock hp) (cwait hp) (hwaiters hp).
Definition set_busy (hp : hpool) (v : list cid) := mkHP (ready hp) v (hlock hp) (cwait hp) (hwaiters hp).
Definition set_hwaiters (hp : hpool) (v : Z) := mkHP (ready hp) (busy hp) (hlock hp) (cwait hp) v.

(* ---------------- locks inside the state; lock id: None = host_pools_lock, Some k = HostPool k ---------------- *)
Definition get_lock (s : state) (lk : option key) : option lock :=
  match lk with
  | None => Some (hplock s)
  | Some k => match aget (pools s) k with Some hp => Some (hlock hp) | None => None end
  end.
Definition put_lock (s : state) (lk : option key) (l : lock) : state :=
  match lk with
  | None => set_hplock s l
  | Some k => match aget (pools s) k with Some hp => set_pool s k (set_hlock hp l) | None => set_err s end
  end.

(* Lock.acquire by thread t: (state, acquired without suspending?) *)
Definition acquire (s : state) (t : tid) (lk : option key) : state * bool :=
  match get_lock s lk with
  | None => (set_err s, false)
  | Some l =>
      if fast_ok l then (put_lock s lk (mkLock true (lwait l)), true)
      else (put_lock s lk (mkLock (locked l) (lwait l ++ [(t, FPending)])), false)
  end.

(* Lock.release *)
Definition release (s : state) (lk : option key) : state :=
  match get_lock s lk with
  | None => set_err s
  | Some l => if locked l then put_lock s lk (mkLock false (wake_first (lwait l)))
              else set_err s                                  (* RuntimeError('Lock is not acquired.') *)
  end.

Section Params.
Variable M : nat.          (* max_host_count: connections per host key *)
Variable MAXC : nat.       (* max_count: above it release() cleans with force *)

(* ================= client code ================= *)

(* ConnectionPool.acquire, finally-block body, host_pools_lock held:
   _host_pool_waiters[key] -= 1; leave the with; return connection / re-raise *)
Definition run_dec (s : state) (c : cli) (k : key) (res : option cid) : state :=
  let s1 := match aget (pools s) k with
            | Some hp => set_pool s k (set_hwaiters hp (hwaiters hp - 1))
            | None => set_err s                                (* KeyError *)
            end in
  let s2 := release s1 None in
  set_cpc s2 c (match res with Some x => C_holding k x | None => C_cancelled end).

(* ConnectionPool.acquire: "finally: with (yield from self._host_pools_lock)" *)
Definition finally_dec (s : state) (c : cli) (k : key) (res : option cid) : state :=
  let '(s1, ok) := acquire s (TC c) None in
  if ok then run_dec s1 c k res else set_cpc s1 c (C_lockq (KC_dec k res)).

(* HostPool.acquire: the while loop, lock k held.  pk = element ready.pop() yields. *)
Definition run_loop (s : state) (c : cli) (k : key) (pk : cid) : option state :=
  match aget (pools s) k with
  | None => Some (set_err s)
  | Some hp =>
      match ready hp with
      | _ :: _ =>
          if mem pk (ready hp) then
            let hp1 := set_busy (set_ready hp (remove1 pk (ready hp))) (pk :: busy hp) in
            let s1 := release (set_pool s k hp1) (Some k) in
            Some (finally_dec (set_ckey s1 (upd (ckey s1) pk k)) c k (Some pk))
          else None
      | [] =>
          if length (busy hp) <? M then
            let x := next_cid s in
            let hp1 := set_busy hp (x :: busy hp) in
            let s1 := set_copen (set_next_cid (set_pool s k hp1) (S x)) (upd (copen s) x false) in
            let s2 := release s1 (Some k) in
            Some (finally_dec (set_ckey s2 (upd (ckey s2) x k)) c k (Some x))
          else
            (* Condition.wait: release, park on a new future *)
            let s1 := release s (Some k) in
            match aget (pools s1) k with
            | None => Some (set_err s1)
            | Some hp1 => Some (set_cpc (set_pool s1 k (set_cwait hp1 (cwait hp1 ++ [(c, FPending)]))) c (C_parked k))
            end
      end
  end.

(* HostPool.acquire: an exception (CancelledError) leaves the try block, lock k held:
   except BaseException: notify(); raise / finally: release  - then the caller's finally *)
Definition fail_locked (s : state) (c : cli) (k : key) : state :=
  let s1 := match aget (pools s) k with
            | Some hp => set_pool s k (set_cwait hp (cw_notify (cwait hp)))
            | None => set_err s
            end in
  finally_dec (release s1 (Some k)) c k None.

(* Condition.wait after its re-acquire succeeded, lock k held *)
Definition after_wait (s : state) (c : cli) (k : key) (cancelled : bool) (pk : cid) : option state :=
  if cancelled then Some (fail_locked s c k) else run_loop s c k pk.

(* Condition.wait, finally: "await self.acquire()" (looping over CancelledError) *)
Definition reacquire (s : state) (c : cli) (k : key) (cancelled : bool) (pk : cid) : option state :=
  let '(s1, ok) := acquire s (TC c) (Some k) in
  if ok then after_wait s1 c k cancelled pk else Some (set_cpc s1 c (C_lockq (KC_rewait k cancelled))).

(* HostPool.acquire entry: "yield from self._condition.acquire()" *)
Definition host_acquire (s : state) (c : cli) (k : key) (pk : cid) : option state :=
  let '(s1, ok) := acquire s (TC c) (Some k) in
  if ok then run_loop s1 c k pk else Some (set_cpc s1 c (C_lockq (KC_loop k))).

(* ConnectionPool.acquire, first with-block body (host_pools_lock held): look up / create, count the waiter *)
Definition run_reg (s : state) (c : cli) (k : key) (pk : cid) : option state :=
  let s1 := match aget (pools s) k with
            | None => set_pool s k new_hpool
            | Some hp => set_pool s k (set_hwaiters hp (hwaiters hp + 1))
            end in
  host_acquire (release s1 None) c k pk.

Definition cp_acquire (s : state) (c : cli) (k : key) (pk : cid) : option state :=
  let '(s1, ok) := acquire s (TC c) None in
  if ok then run_reg s1 c k pk else Some (set_cpc s1 c (C_lockq (KC_reg k))).

Definition rdone (s : state) (r : rid) : bool :=
  match rtasks s r with R_done => true | _ => false end.

(* _process_no_wait_releases: dr = the tasks _release_tasks.pop() yields, in order *)
Fixpoint drain (s : state) (c : cli) (k : key) (dr : list rid) (pk : cid) : option state :=
  match dr with
  | [] => match relset s with [] => cp_acquire s c k pk | _ => None end
  | r :: dr' =>
      if mem r (relset s) then
        let s1 := set_relset s (remove1 r (relset s)) in
        if rdone s r then drain s1 c k dr' pk
        else match dr' with [] => Some (set_cpc s1 c (C_drain r k)) | _ => None end
      else None
  end.

(* a client resumes from a lock queue *)
Definition resume_lockq (s : state) (c : cli) (cont : ccont) (pk : cid) : option state :=
  let lk := lockid_of_ccont cont in
  match get_lock s lk with
  | None => Some (set_err s)
  | Some l =>
      match lq_status (lwait l) (TC c) with
      | None => Some (set_err s)
      | Some FPending => None                                   (* not runnable *)
      | Some st =>
          let exc := is_cancelled st || mcancel s c in
          let s0 := set_mcancel s (upd (mcancel s) c false) in
          let q := lq_remove (lwait l) (TC c) in
          if exc then
            (* except CancelledError: if not self._locked: self._wake_up_first(); raise *)
            let s1 := put_lock s0 lk (mkLock (locked l) (if locked l then q else wake_first q)) in
            match cont with
            | KC_reg _ => Some (set_cpc s1 c C_cancelled)
            | KC_loop k => Some (finally_dec s1 c k None)
            | KC_rewait k _ => reacquire s1 c k true pk
            | KC_dec _ _ => Some (set_cpc s1 c C_cancelled)      (* count (and connection) leaked *)
            end
          else
            let s1 := put_lock s0 lk (mkLock true q) in
            match cont with
            | KC_reg k => run_reg s1 c k pk
            | KC_loop k => run_loop s1 c k pk
            | KC_rewait k cn => after_wait s1 c k cn pk
            | KC_dec k res => Some (run_dec s1 c k res)
            end
      end
  end.

(* BaseSession.__exit__ for a client holding x: abort() closes, recycle() = no_wait_release(x) *)
Definition session_exit (s : state) (c : cli) (x : cid) (abort : bool) (pc : cpc) : state :=
  let s1 := if abort then set_copen s (upd (copen s) x false) else s in
  let r := next_rid s1 in
  let s2 := set_next_rid (set_rpc s1 r (R_new (Some x) false)) (S r) in
  set_cpc (set_relset s2 (r :: relset s2)) c pc.

(* one step of client c whose awaited future is done (label LStep (TC c)) *)
Definition client_step (s : state) (c : cli) (dr : list rid) (pk : cid) : option state :=
  match clients s c with
  | C_idle => None
  | C_cancelled => None
  | C_drain r k =>
      if mcancel s c then
        Some (set_cpc (set_mcancel s (upd (mcancel s) c false)) c C_cancelled)
      else if rdone s r then drain s c k dr pk
      else None
  | C_lockq cont => resume_lockq s c cont pk
  | C_parked k =>
      match aget (pools s) k with
      | None => Some (set_err s)
      | Some hp =>
          match cw_status (cwait hp) c with
          | None => Some (set_err s)
          | Some FPending => None
          | Some st =>
              let exc := is_cancelled st || mcancel s c in
              let s0 := set_mcancel s (upd (mcancel s) c false) in
              reacquire (set_pool s0 k (set_cwait hp (cw_remove (cwait hp) c))) c k exc pk
          end
      end
  | C_holding k x =>
      if mcancel s c then
        Some (session_exit (set_mcancel s (upd (mcancel s) c false)) c x true C_cancelled)
      else None
  end.

(* ================= release / clean code ================= *)
Definition count_all (s : state) : nat :=
  fold_right (fun e n => length (ready (snd e)) + length (busy (snd e)) + n) 0 (pools s).

(* HostPool.clean body (lock k held), then the deletion test of ConnectionPool.clean *)
Definition clean_one (s : state) (k : key) (force : bool) : state :=
  match aget (pools s) k with
  | None => set_err s
  | Some hp =>
      let keep := filter (fun x => negb (force || negb (copen s x))) (ready hp) in
      let gone := filter (fun x => force || negb (copen s x)) (ready hp) in
      let s1 := set_copen s (fun x => if mem x gone then false else copen s x) in     (* connection.close() *)
      let s2 := release (set_pool s1 k (set_ready hp keep)) (Some k) in
      match aget (pools s2) k with
      | None => set_err s2
      | Some hp2 =>
          if (hwaiters hp2 =? 0)%Z && match ready hp2, busy hp2 with [], [] => true | _, _ => false end
          then set_pools s2 (adel (pools s2) k) else s2
      end
  end.

(* ConnectionPool.clean loop over the snapshot ks (host_pools_lock held) *)
Fixpoint run_cleank (s : state) (r : rid) (ks : list key) (force : bool) : state :=
  match ks with
  | [] => set_rpc (release s None) r R_done
  | k :: ks' =>
      let '(s1, ok) := acquire s (TR r) (Some k) in
      if ok then run_cleank (clean_one s1 k force) r ks' force
      else set_rpc s1 r (R_lockq (KR_cleank k ks' force))
  end.

Definition cp_clean (s : state) (r : rid) (force : bool) : state :=
  let '(s1, ok) := acquire s (TR r) None in
  if ok then run_cleank s1 r (map fst (pools s1)) force else set_rpc s1 r (R_lockq (KR_clean force)).

(* HostPool.release body (lock held), then ConnectionPool.release's count / clean *)
Definition run_rel (s : state) (r : rid) (x : cid) : state :=
  let k := ckey s x in
  match aget (pools s) k with
  | None => set_err s
  | Some hp =>
      if mem x (busy hp) then
        let hp1 := set_cwait (set_ready (set_busy hp (remove1 x (busy hp))) (x :: ready hp)) (cw_notify (cwait hp)) in
        let s1 := release (set_pool s k hp1) (Some k) in
        cp_clean s1 r (MAXC <? count_all s1)
      else set_err s                                             (* KeyError from busy.remove *)
  end.

Definition rel_start (s : state) (r : rid) (x : cid) : state :=
  let k := ckey s x in
  match aget (pools s) k with
  | None => set_err s                                            (* KeyError: self._host_pools[key] *)
  | Some _ =>
      let '(s1, ok) := acquire s (TR r) (Some k) in
      if ok then run_rel s1 r x else set_rpc s1 r (R_lockq (KR_rel x))
  end.

Definition rel_step (s : state) (r : rid) : option state :=
  match rtasks s r with
  | R_none => None
  | R_done => None
  | R_new (Some x) _ => Some (rel_start s r x)
  | R_new None force => Some (cp_clean s r force)
  | R_lockq cont =>
      let lk := match cont with KR_rel x => Some (ckey s x) | KR_clean _ => None | KR_cleank k _ _ => Some k end in
      match get_lock s lk with
      | None => Some (set_err s)
      | Some l =>
          match lq_status (lwait l) (TR r) with
          | Some FDone =>
              let s1 := put_lock s lk (mkLock true (lq_remove (lwait l) (TR r))) in
              Some (match cont with
                    | KR_rel x => run_rel s1 r x
                    | KR_clean force => run_cleank s1 r (map fst (pools s1)) force
                    | KR_cleank k ks force => run_cleank (clean_one s1 k force) r ks force
                    end)
          | Some FPending => None
          | _ => Some (set_err s)
          end
      end
  end.

(* ================= labels and the step function ================= *)
Inductive label :=
| LStart (c : cli) (k : key) (dr : list rid) (pk : cid)  (* idle client calls acquire(k) *)
| LStep (t : tid) (dr : list rid) (pk : cid)             (* a task whose awaited future is done runs *)
| LConnOK (c : cli)                                      (* holder: connect() succeeded *)
| LFinish (c : cli) (abort : bool)                       (* holder leaves its session (abort: after an error) *)
| LCancel (c : cli)                                      (* environment: task.cancel() on a suspended client *)
| LClose (x : cid)                                       (* environment: remote end closes connection x *)
| LClean (force : bool).                                 (* environment: create_task(pool.clean(force)) *)

Definition cancel_client (s : state) (c : cli) : option state :=
  if creq s c then None else
  let s0 := set_creq s (upd (creq s) c true) in
  let must := set_mcancel s0 (upd (mcancel s0) c true) in
  match clients s c with
  | C_idle => None
  | C_cancelled => None
  | C_drain _ _ => Some must
  | C_holding _ _ => Some must
  | C_parked k =>
      match aget (pools s) k with
      | None => Some (set_err s)
      | Some hp =>
          match cw_status (cwait hp) c with
          | Some FPending => Some (set_pool s0 k (set_cwait hp (cw_cancel (cwait hp) c)))
          | Some _ => Some must
          | None => Some (set_err s)
          end
      end
  | C_lockq cont =>
      let lk := lockid_of_ccont cont in
      match get_lock s lk with
      | None => Some (set_err s)
      | Some l =>
          match lq_status (lwait l) (TC c) with
          | Some FPending => Some (put_lock s0 lk (mkLock (locked l) (lq_cancel (lwait l) (TC c))))
          | Some _ => Some must
          | None => Some (set_err s)
          end
      end
  end.

Definition step (s : state) (l : label) : option state :=
  match l with
  | LStart c k dr pk =>
      match clients s c with
      | C_idle => drain s c k dr pk
      | _ => None
      end
  | LStep (TC c) dr pk => client_step s c dr pk
  | LStep (TR r) _ _ => rel_step s r
  | LConnOK c =>
      match clients s c with
      | C_holding _ x => if mcancel s c then None else Some (set_copen s (upd (copen s) x true))
      | _ => None
      end
  | LFinish c abort =>
      match clients s c with
      | C_holding _ x => if mcancel s c then None else Some (session_exit s c x abort C_idle)
      | _ => None
      end
  | LCancel c => cancel_client s c
  | LClose x => if x <? next_cid s then Some (set_copen s (upd (copen s) x false)) else None
  | LClean force =>
      let r := next_rid s in
      Some (set_next_rid (set_rpc s r (R_new None force)) (S r))
  end.

Inductive reachable : state -> Prop :=
| reach_init : reachable init
| reach_step : forall s l s', reachable s -> step s l = Some s' -> reachable s'.

(* executions without cancellation *)
Definition is_cancel (l : label) : bool := match l with LCancel _ => true | _ => false end.
Inductive reachable_nc : state -> Prop :=
| reachnc_init : reachable_nc init
| reachnc_step : forall s l s', reachable_nc s -> is_cancel l = false -> step s l = Some s' -> reachable_nc s'.

(* run a whole label sequence *)
Fixpoint run (s : state) (ls : list label) : option state :=
  match ls with
  | [] => Some s
  | l :: r => match step s l with Some s' => run s' r | None => None end
  end.

(* ================= what "runnable" means (a ready handle exists) ================= *)
Definition c_runnable (s : state) (c : cli) : bool :=
  match clients s c with
  | C_idle => false
  | C_cancelled => false
  | C_drain r _ => mcancel s c || rdone s r
  | C_holding _ _ => mcancel s c
  | C_parked k =>
      match aget (pools s) k with
      | Some hp => match cw_status (cwait hp) c with Some FPending => false | Some _ => true | None => false end
      | None => false
      end
  | C_lockq cont =>
      match get_lock s (lockid_of_ccont cont) with
      | Some l => match lq_status (lwait l) (TC c) with Some FPending => false | Some _ => true | None => false end
      | None => false
      end
  end.
Definition r_runnable (s : state) (r : rid) : bool :=
  match rtasks s r with
  | R_new _ _ => true
  | R_lockq cont =>
      let lk := match cont with KR_rel x => Some (ckey s x) | KR_clean _ => None | KR_cleank k _ _ => Some k end in
      match get_lock s lk with
      | Some l => match lq_status (lwait l) (TR r) with Some FPending => false | Some _ => true | None => false end
      | None => false
      end
  | _ => false
  end.

End Params.

(* ================= observation, for the trace-inclusion check against the real classes ================= *)
Definition fcode (f : fstat) : nat := match f with FPending => 0 | FDone => 1 | FCancelled => 2 end.

Record obs_pool := mkOP {
  o_ready : list cid; o_busy : list cid; o_waiters : Z; o_locked : bool;
  o_lockq : list nat; o_cond : list nat }.

Definition obs_of_pool (hp : hpool) : obs_pool :=
  mkOP (ready hp) (busy hp) (hwaiters hp) (locked (hlock hp))
       (map (fun e => fcode (snd e)) (lwait (hlock hp))) (map (fun e => fcode (snd e)) (cwait hp)).

(* client "where": 0 idle, 1 inside acquire, 2 holding, 3 cancelled *)
Definition where_code (p : cpc) : nat :=
  match p with C_idle => 0 | C_holding _ _ => 2 | C_cancelled => 3 | _ => 1 end.
Definition holding_code (p : cpc) : option cid :=
  match p with C_holding _ x => Some x | _ => None end.

Fixpoint same_set (a b : list nat) : bool :=
  match a with
  | [] => match b with [] => true | _ => false end
  | x :: r => mem x b && same_set r (remove1 x b)
  end.
Fixpoint list_nat_eqb (a b : list nat) : bool :=
  match a, b with
  | [], [] => true
  | x :: r, y :: q => Nat.eqb x y && list_nat_eqb r q
  | _, _ => false
  end.

Definition obs_pool_eqb (a b : obs_pool) : bool :=
  same_set (o_ready a) (o_ready b) && same_set (o_busy a) (o_busy b) && (o_waiters a =? o_waiters b)%Z
  && Bool.eqb (o_locked a) (o_locked b) && list_nat_eqb (o_lockq a) (o_lockq b) && list_nat_eqb (o_cond a) (o_cond b).

Definition opt_pool_eqb (a b : option obs_pool) : bool :=
  match a, b with
  | None, None => true
  | Some x, Some y => obs_pool_eqb x y
  | _, _ => false
  end.

Definition opt_nat_eqb (a b : option nat) : bool :=
  match a, b with
  | None, None => true
  | Some x, Some y => Nat.eqb x y
  | _, _ => false
  end.

(* what the harness reads off the real objects after every action *)
Record obs := mkObs {
  ob_pools : list (option obs_pool);     (* per key 0..H-1 *)
  ob_hp_locked : bool; ob_hp_q : list nat;
  ob_relset : list rid;                  (* _release_tasks *)
  ob_live : list rid;                    (* release/clean tasks not finished *)
  ob_where : list nat;                   (* per client 0..N-1 *)
  ob_holding : list (option cid);
  ob_open : list bool;                   (* per connection id 0..next_cid-1 *)
  ob_run_c : list cli; ob_run_r : list rid   (* tasks with a ready handle *)
}.

Fixpoint forall2b {A B} (f : A -> B -> bool) (a : list A) (b : list B) : bool :=
  match a, b with
  | [], [] => true
  | x :: r, y :: q => f x y && forall2b f r q
  | _, _ => false
  end.

Definition observe (s : state) (H N : nat) : obs :=
  mkObs (map (fun k => option_map obs_of_pool (aget (pools s) k)) (seq 0 H))
        (locked (hplock s)) (map (fun e => fcode (snd e)) (lwait (hplock s)))
        (relset s)
        (filter (fun r => match rtasks s r with R_new _ _ => true | R_lockq _ => true | _ => false end) (seq 0 (next_rid s)))
        (map (fun c => where_code (clients s c)) (seq 0 N))
        (map (fun c => holding_code (clients s c)) (seq 0 N))
        (map (copen s) (seq 0 (next_cid s)))
        (filter (c_runnable s) (seq 0 N))
        (filter (r_runnable s) (seq 0 (next_rid s))).

Definition obs_eqb (a b : obs) : bool :=
  forall2b opt_pool_eqb (ob_pools a) (ob_pools b)
  && Bool.eqb (ob_hp_locked a) (ob_hp_locked b) && list_nat_eqb (ob_hp_q a) (ob_hp_q b)
  && same_set (ob_relset a) (ob_relset b) && same_set (ob_live a) (ob_live b)
  && list_nat_eqb (ob_where a) (ob_where b) && forall2b opt_nat_eqb (ob_holding a) (ob_holding b)
  && forall2b Bool.eqb (ob_open a) (ob_open b)
  && same_set (ob_run_c a) (ob_run_c b) && same_set (ob_run_r a) (ob_run_r b).

(* Run a recorded trace: after every label the model must offer the step and show the
   observation the implementation showed.  Returns the index of the first mismatch:
   None = accepted; Some (i, false) = label i not enabled in the model; Some (i, true) =
   observation after label i differs. *)
Fixpoint check_trace (M MAXC H N : nat) (s : state) (i : nat) (tr : list (label * obs)) : option (nat * bool) :=
  match tr with
  | [] => None
  | (l, o) :: r =>
      match step M MAXC s l with
      | None => Some (i, false)
      | Some s' => if err s' then Some (i, true)
                   else if obs_eqb (observe s' H N) o then check_trace M MAXC H N s' (S i) r else Some (i, true)
      end
  end.

Definition trace_ok (M MAXC H N : nat) (tr : list (label * obs)) : bool :=
  match check_trace M MAXC H N init 0 tr with None => true | Some _ => false end.
