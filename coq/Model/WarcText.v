(* Executable model of the text-level helpers of the WARC writer (C05, C07):
     warc/format.py    WARCRecord.get_http_header (read the header block line by
                       line up to the empty line, skip interim 1xx responses,
                       Response.parse_status_line, NameValueRecord.parse)
     warc/recorder.py  WARCRecorder.parse_mimetype, the status/MIME part of
                       _write_cdx_field, the warcinfo block of _populate_warcinfo
                       (NameValueRecord(wrap_width=1024).to_str for values that
                       fit on one line)
     namevalue.py      NameValueRecord.parse/add/get, normalize_name, unfold_lines,
                       split_lines (the same transcription as in Model/HttpMsg.v,
                       and the latin-1 text primitives of Model/PyText.v, repeated
                       here so that this file depends on Lib/ only)
     protocol/http/request.py  Response.parse_status_line
   on latin-1 text (Response fields are decoded as latin-1, so decoding is the
   identity).  Definitions only. *)
From Coq Require Import String Ascii.
From Coq Require Import List NArith Bool.
From Wpull Require Import Lib.Decimal Lib.FsModel Model.Warc.
Import ListNotations.
Open Scope N_scope.
Open Scope bool_scope.


(* ================= Python text primitives on latin-1 (as in Model/PyText.v) ================= *)
Definition in_range (lo hi c : N) : bool := (lo <=? c) && (c <=? hi).

Fixpoint list_eqb (a b : list N) : bool :=
  match a, b with
  | [], [] => true
  | x :: a', y :: b' => (x =? y) && list_eqb a' b'
  | _, _ => false
  end.

Fixpoint starts_with (p s : list N) : bool :=
  match p, s with
  | [], _ => true
  | x :: p', y :: s' => (x =? y) && starts_with p' s'
  | _ :: _, [] => false
  end.

Fixpoint drop_while (f : N -> bool) (s : list N) : list N :=
  match s with
  | [] => []
  | c :: r => if f c then drop_while f r else s
  end.

Fixpoint take_while (f : N -> bool) (s : list N) : list N :=
  match s with
  | [] => []
  | c :: r => if f c then c :: take_while f r else []
  end.

(* (rev' = rev_append _ []: the linear-time reverse; List.rev is quadratic under vm_compute) *)
Definition strip_with (f : N -> bool) (s : list N) : list N :=
  rev' (drop_while f (rev' (drop_while f s))).

(* str.isspace / str.strip() on latin-1 *)
Definition py_space (c : N) : bool :=
  in_range 9 13 c || in_range 28 32 c || (c =? 133) || (c =? 160).
(* bytes.strip() / Py_ISSPACE *)
Definition ascii_space (c : N) : bool := in_range 9 13 c || (c =? 32).

Definition py_strip := strip_with py_space.
Definition bytes_strip := strip_with ascii_space.

(* line boundaries of str.splitlines() on latin-1 ... *)
Definition py_linebreak (c : N) : bool :=
  in_range 10 13 c || in_range 28 30 c || (c =? 133).
(* ... and of a splitter that knows only CR, LF, CRLF *)
Definition crlf_linebreak (c : N) : bool := (c =? 10) || (c =? 13).

(* str.splitlines(): a boundary character ends the current line (CR LF is one
   boundary); no empty last line *)
Fixpoint splitlines_with (isb : N -> bool) (s : list N) : list (list N) :=
  match s with
  | [] => []
  | c :: r =>
      if isb c then
        [] :: (if c =? 13
               then match r with
                    | d :: r' => if d =? 10 then splitlines_with isb r' else splitlines_with isb r
                    | [] => splitlines_with isb r
                    end
               else splitlines_with isb r)
      else
        match splitlines_with isb r with
        | [] => [[c]]
        | l :: ls => (c :: l) :: ls
        end
  end.

(* text.split(sep, 1) for a one-character separator: None when absent *)
Fixpoint split_once (sep : N) (s : list N) : option (list N * list N) :=
  match s with
  | [] => None
  | c :: r =>
      if c =? sep then Some ([], r)
      else match split_once sep r with
           | None => None
           | Some (a, b) => Some (c :: a, b)
           end
  end.

(* ---- str.title() on latin-1 ---- *)
Definition is_cased (c : N) : bool :=
  in_range 65 90 c || in_range 97 122 c || (c =? 170) || (c =? 181) || (c =? 186)
  || in_range 192 214 c || in_range 216 246 c || in_range 248 255 c.

Definition to_title (c : N) : list N :=
  if in_range 97 122 c then [c - 32]
  else if c =? 181 then [924]
  else if c =? 223 then [83; 115]
  else if in_range 224 246 c || in_range 248 254 c then [c - 32]
  else if c =? 255 then [376]
  else [c].

Definition to_lower (c : N) : list N :=
  if in_range 65 90 c || in_range 192 214 c || in_range 216 222 c then [c + 32] else [c].

Fixpoint title_from (prev_cased : bool) (s : list N) : list N :=
  match s with
  | [] => []
  | c :: r => (if prev_cased then to_lower c else to_title c) ++ title_from (is_cased c) r
  end.
Definition py_title (s : list N) : list N := title_from false s.


(* ================= namevalue.py ================= *)
(* namevalue.split_lines: CR LF, LF, CR *)
Definition splitlines := splitlines_with crlf_linebreak.

(* unfold_lines *)
Fixpoint unfold_from (first : bool) (lines : list (list N)) : list N :=
  match lines with
  | [] => []
  | l :: r =>
      (match l with
       | c :: _ => if (c =? 32) || (c =? 9) then [32]
                   else if first then [] else [13; 10]
       | [] => if first then [] else [13; 10]
       end) ++ py_strip l ++ unfold_from false r
  end.
Definition unfold_lines (s : list N) : list N := unfold_from true (splitlines s) ++ [13; 10].

(* the ordered multimap: normalised name -> values, in order of first appearance *)
Definition hfields := list (list N * list (list N)).

Definition normalize_name (n : list N) : list N := py_title n.

Fixpoint fadd_norm (k v : list N) (m : hfields) : hfields :=
  match m with
  | [] => [(k, [v])]
  | (k', vs) :: r => if list_eqb k k' then (k', vs ++ [v]) :: r else (k', vs) :: fadd_norm k v r
  end.
Definition fadd (name value : list N) (m : hfields) : hfields := fadd_norm (normalize_name name) value m.

(* get(name): the first value *)
Fixpoint hget_norm (k : list N) (m : hfields) : option (list N) :=
  match m with
  | [] => None
  | (k', vs) :: r => if list_eqb k k' then hd_error vs else hget_norm k r
  end.
Definition hget (name : list N) (m : hfields) : option (list N) := hget_norm (normalize_name name) m.

(* get_all(): flat (name, value) pairs *)
Definition fget_all (m : hfields) : list (list N * list N) :=
  flat_map (fun kv => map (fun v => (fst kv, v)) (snd kv)) m.

(* NameValueRecord.parse(strict=False) on decoded text *)
Fixpoint parse_lines (lines : list (list N)) (m : hfields) : hfields :=
  match lines with
  | [] => m
  | [] :: r => parse_lines r m
  | l :: r =>
      match split_once 58 l with
      | None => parse_lines r m
      | Some (name, value) => parse_lines r (fadd (py_strip name) (py_strip value) m)
      end
  end.
Definition fields_parse (text : list N) : hfields :=
  parse_lines (splitlines (unfold_lines text)) [].

(* ================= request.py: Response.parse_status_line ================= *)
Definition is_digit (c : N) : bool := in_range 48 57 c.
Definition is_sp_ht (c : N) : bool := (c =? 32) || (c =? 9).
Definition s_http : list N := [72; 84; 84; 80; 47].  (* HTTP/ *)

Fixpoint decimal_value (acc : N) (ds : list N) : N :=
  match ds with
  | [] => acc
  | d :: r => decimal_value (acc * 10 + (d - 48)) r
  end.

(* up to three digits, greedy *)
Definition take_digits3 (s : list N) : list N * list N :=
  match s with
  | a :: r1 =>
      if is_digit a then
        match r1 with
        | b :: r2 =>
            if is_digit b then
              match r2 with
              | c :: r3 => if is_digit c then ([a; b; c], r3) else ([a; b], r2)
              | [] => ([a; b], r2)
              end
            else ([a], r1)
        | [] => ([a], r1)
        end
      else ([], s)
  | [] => ([], s)
  end.

(* Response.parse_status_line: HTTP/ digits . digits, one or more SP/HT, one to three
   digits (greedy), then anything; only the status code is kept *)
Definition parse_status_code (line : list N) : option N :=
  match strip_pref s_http line with
  | None => None
  | Some r0 =>
      match take_while is_digit r0, drop_while is_digit r0 with
      | _ :: _, 46 :: r2 =>
          let r3 := drop_while is_digit r2 in
          match take_while is_digit r2, take_while is_sp_ht r3 with
          | _ :: _, _ :: _ =>
              match take_digits3 (drop_while is_sp_ht r3) with
              | ([], _) => None
              | (code, _) => Some (decimal_value 0 code)
              end
          | _, _ => None
          end
      | _, _ => None
      end
  end.

(* 1xx other than 101: an interim response, the final one follows (RFC 7230 6.2) *)
Definition is_interim (code : N) : bool := in_range 100 199 code && negb (code =? 101).

(* ================= warc/format.py: get_http_header ================= *)
(* file.readline(): through the first LF; None when the rest has no LF (the
   caller gives up: 'not line.endswith(b"\n")') *)
Fixpoint take_line (s : bytes) : option (bytes * bytes) :=
  match s with
  | [] => None
  | c :: r =>
      if c =? 10 then Some ([c], r)
      else match take_line r with
           | Some (l, r') => Some (c :: l, r')
           | None => None
           end
  end.

Definition blank_line (l : bytes) : bool := leqb l [13; 10] || leqb l [10].

(* the inner loop of get_http_header: lines up to and including the empty one *)
Fixpoint read_header_block (fuel : nat) (s : bytes) : option (bytes * bytes) :=
  match fuel with
  | O => None
  | S f =>
      match take_line s with
      | None => None
      | Some (l, r) =>
          if blank_line l then Some (l, r)
          else match read_header_block f r with
               | Some (h, r') => Some (l ++ h, r')
               | None => None
               end
      end
  end.

(* get_http_header: (status code, fields) of the final response in the block *)
Fixpoint get_http_header_fuel (fuel : nat) (s : bytes) : option (N * hfields) :=
  match fuel with
  | O => None
  | S f =>
      match read_header_block (S (length s)) s with
      | None => None
      | Some (hd, rest) =>
          match split_once 10 hd with            (* header_data.partition(b'\n') *)
          | None => None
          | Some (status_line, field_str) =>
              match parse_status_code status_line with
              | None => None
              | Some code =>
                  if is_interim code then get_http_header_fuel f rest
                  else Some (code, fields_parse field_str)
              end
          end
      end
  end.
Definition get_http_header (s : bytes) : option (N * hfields) :=
  get_http_header_fuel (S (length s)) s.

(* RFC 7230 token characters, the class of the repaired parse_mimetype regex *)
Definition is_tchar (c : N) : bool :=
  in_range 48 57 c || in_range 65 90 c || in_range 97 122 c
  || existsb (fun d => c =? d) [33; 35; 36; 37; 38; 39; 42; 43; 45; 46; 94; 95; 96; 124; 126].

(* re.match(r'(token+/token+)', value) *)
Definition parse_mimetype (v : bytes) : option bytes :=
  let t1 := take_while is_tchar v in
  match t1, drop_while is_tchar v with
  | _ :: _, 47 :: r =>
      match take_while is_tchar r with
      | [] => None
      | t2 => Some (t1 ++ [47] ++ t2)
      end
  | _, _ => None
  end.

Definition s_content_type : bytes := bs "Content-Type".
Definition dash : bytes := [45].

(* the (mime_type, response_code) pair of _write_cdx_field *)
Definition sniff (block : bytes) : bytes * bytes :=
  match get_http_header block with
  | Some (code, fs) =>
      let ct := match hget s_content_type fs with Some v => v | None => [] end in
      (match parse_mimetype ct with Some m => m | None => dash end, dec code)
  | None => (dash, dash)
  end.

(* ---- the warcinfo block ---- *)
(* NameValueRecord(wrap_width=1024).to_str for values that textwrap.wrap leaves
   on one line: no TAB/LF/VT/FF/CR and at most 1023 characters *)
Definition wrap_guard (v : bytes) : bool :=
  (N.of_nat (length v) <? 1024) && forallb (fun c => negb (in_range 9 13 c)) v.

Definition info_line (kv : bytes * bytes) : bytes :=
  fst kv ++ (match snd kv with [] => [58] | v => 58 :: 32 :: v end) ++ [13; 10].

Definition warcinfo_fields (software : bytes) (extra : list (bytes * bytes)) : hfields :=
  fold_left (fun m kv => fadd (fst kv) (snd kv) m) extra
    (fadd (bs "conformsTo") (bs "http://bibnum.bnf.fr/WARC/WARC_ISO_28500_version1_latestdraft.pdf")
       (fadd (bs "format") (bs "WARC File Format 1.0")
          (fadd (bs "Software") software []))).

Definition warcinfo_block (software : bytes) (extra : list (bytes * bytes)) : bytes :=
  List.concat (map info_line (fget_all (warcinfo_fields software extra))) ++ [13; 10].

Definition warcinfo_guard (software : bytes) (extra : list (bytes * bytes)) : bool :=
  wrap_guard software && forallb (fun kv => wrap_guard (snd kv)) extra.

(* the oracles record with the concrete sniffing function *)
Definition with_sniff (O : oracles) : oracles :=
  mkOracles (o_H O) (o_gz O) (o_id O) (o_date O) (o_ts O) sniff.
