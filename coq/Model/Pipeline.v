(* C13 - executable LTS model of wpull/pipeline/pipeline.py (ItemQueue, Worker,
   Producer, Pipeline.process/_process_one_worker/_shutdown_processing/stop/
   _run_producer_wrapper/_kill_workers/concurrency setter), AFTER the three fix:
   commits (stop() sets the unpause event; shutdown cancels a producer that is not
   done once all workers exited; process() does not set the unpause event when it
   starts with concurrency 0).  Definitions only.

   Granularity: one internal transition = the code ONE coroutine runs between two
   real asyncio suspension points (Python 3.12 asyncio: an uncontended
   Lock/Condition.acquire, Condition.notify_all, Queue.put_nowait, Queue.get on a
   non-empty queue, Event.set and awaiting a finished task do NOT suspend;
   Condition.wait, Queue.get on an empty queue, Event.wait on a clear event,
   asyncio.wait and awaiting an unfinished task do).  The condition's lock is free at
   every suspension point (every segment that acquires it releases it), so acquire
   never suspends and the lock needs no state.  Calls into the environment
   (source.get_item, task.process) always count as a suspension: the environment
   answers with a separate action, possibly at once.

   The only finer-than-real step: with t = 0 tasks a worker that took an item goes to
   [W_loop] (runnable, about to call get() again) instead of looping inside one
   transition; that only adds interleavings.

   asyncio pieces modelled concretely:
   - PriorityQueue: [q_pills] poison pills (priority 0) are taken before [q_items]
     (priority 1, FIFO by entry count); [getters] = FIFO of workers parked in
     Queue.get; put_nowait wakes the head getter ([W_woken]: its future is set, it has
     not run yet, the entry is still in the queue; when it runs and finds the queue
     empty it parks again at the tail).
   - Condition _worker_ready_condition: only the producer ever waits on it
     ([P_put_parked]/[P_wait_parked] with a notified flag); notify_all sets the flag.
   - Event _unpaused_event: [unpaused] is its value; a waiter is woken by the
     False->True edge ([M_wait_unpaused true]) and stays woken if the event is cleared.
   - asyncio.wait(FIRST_COMPLETED / ALL_COMPLETED) and awaiting the producer task:
     the main coroutine is runnable iff the awaited condition holds.
   - Task.cancel(): [prod_cancel]; the producer's next step ends it in [P_cancelled]
     whatever it was doing (parked on the condition, awaiting the source, or with a
     wake-up pending: _must_cancel). *)
From Coq Require Import List Arith Bool.
Import ListNotations.

(* ---- data ---------------------------------------------------------------- *)
Inductive ev := Ev (is_start : bool) (item : nat) (task : nat).
Definition Start := Ev true.
Definition End_ := Ev false.

Inductive wpc :=
| W_new                       (* task created, first step not run *)
| W_parked                    (* suspended in Queue.get, in [getters] *)
| W_woken                     (* getter future set, step pending *)
| W_loop                      (* t = 0 only: about to call get() again *)
| W_task (i k : nat)          (* suspended inside task k of item i *)
| W_ret (i k : nat)           (* task k of item i completed, step pending *)
| W_exc (i k : nat)           (* task k of item i raised, step pending *)
| W_exited                    (* took a poison pill, returned *)
| W_raised.                   (* died with the task's exception (item never reported done) *)

Record worker := { pc : wpc; inset : bool (* still in Pipeline._worker_tasks *) }.

Inductive ppc :=
| P_absent                    (* producer task not created yet *)
| P_new                       (* created, first step not run *)
| P_src                       (* suspended in source.get_item() *)
| P_src_item (i : nat)        (* the source answered item i, step pending *)
| P_src_none                  (* the source answered None, step pending *)
| P_src_exc                   (* the source raised, step pending *)
| P_put_parked (i : nat) (notified : bool)   (* put_item: Condition.wait, queue was not empty *)
| P_wait_parked (notified : bool)            (* wait_for_worker: Condition.wait *)
| P_done | P_raised | P_cancelled.

Inductive mpc :=
| M_new                       (* process() called, first step not run *)
| M_spin                      (* runnable at the head of the `while running` loop (Event.wait returned at once) *)
| M_wait_first                (* asyncio.wait(worker_tasks, FIRST_COMPLETED) *)
| M_wait_unpaused (woken : bool)   (* _unpaused_event.wait() *)
| M_sd_wait_workers           (* _shutdown_processing: asyncio.wait(worker_tasks) *)
| M_sd_wait_prod              (* _shutdown_processing: yield from producer_task (after cancel) *)
| M_returned | M_raised.

Inductive pst := St_stopped | St_running | St_stopping.

Record state := {
  src_left : nat;             (* items the source may still yield *)
  next_item : nat;            (* id the next yielded item gets; yielded so far: 1 .. next_item-1 *)
  q_pills : nat;
  q_items : list nat;
  getters : list nat;
  unfinished : nat;           (* ItemQueue._unfinished_items *)
  prod : ppc;
  prod_running : bool;        (* Producer._running *)
  prod_cancel : bool;         (* cancel() was called on the producer task and not yet delivered *)
  workers : list worker;      (* index = creation order *)
  mainpc : mpc;
  pstate : pst;
  conc : nat;
  unpaused : bool;
  log : list ev;              (* newest first *)
  stopped_at : option nat     (* ghost: length of the log when the state left `running` *)
}.

Inductive label :=
| L_main | L_prod | L_worker (w : nat)                       (* internal: one coroutine step *)
| E_task_done (i : nat) | E_task_raise (i : nat)              (* environment *)
| E_src_item | E_src_none | E_src_raise
| E_stop | E_conc (k : nat).

(* ---- record updates ------------------------------------------------------ *)
Definition set_workers (s : state) ws :=
  {| src_left := src_left s; next_item := next_item s; q_pills := q_pills s; q_items := q_items s;
     getters := getters s; unfinished := unfinished s; prod := prod s; prod_running := prod_running s;
     prod_cancel := prod_cancel s; workers := ws; mainpc := mainpc s; pstate := pstate s; conc := conc s;
     unpaused := unpaused s; log := log s; stopped_at := stopped_at s |}.
Definition set_getters (s : state) g :=
  {| src_left := src_left s; next_item := next_item s; q_pills := q_pills s; q_items := q_items s;
     getters := g; unfinished := unfinished s; prod := prod s; prod_running := prod_running s;
     prod_cancel := prod_cancel s; workers := workers s; mainpc := mainpc s; pstate := pstate s; conc := conc s;
     unpaused := unpaused s; log := log s; stopped_at := stopped_at s |}.
Definition set_pills (s : state) p :=
  {| src_left := src_left s; next_item := next_item s; q_pills := p; q_items := q_items s;
     getters := getters s; unfinished := unfinished s; prod := prod s; prod_running := prod_running s;
     prod_cancel := prod_cancel s; workers := workers s; mainpc := mainpc s; pstate := pstate s; conc := conc s;
     unpaused := unpaused s; log := log s; stopped_at := stopped_at s |}.
Definition set_items (s : state) q :=
  {| src_left := src_left s; next_item := next_item s; q_pills := q_pills s; q_items := q;
     getters := getters s; unfinished := unfinished s; prod := prod s; prod_running := prod_running s;
     prod_cancel := prod_cancel s; workers := workers s; mainpc := mainpc s; pstate := pstate s; conc := conc s;
     unpaused := unpaused s; log := log s; stopped_at := stopped_at s |}.
Definition set_unfinished (s : state) u :=
  {| src_left := src_left s; next_item := next_item s; q_pills := q_pills s; q_items := q_items s;
     getters := getters s; unfinished := u; prod := prod s; prod_running := prod_running s;
     prod_cancel := prod_cancel s; workers := workers s; mainpc := mainpc s; pstate := pstate s; conc := conc s;
     unpaused := unpaused s; log := log s; stopped_at := stopped_at s |}.
Definition set_prod (s : state) p :=
  {| src_left := src_left s; next_item := next_item s; q_pills := q_pills s; q_items := q_items s;
     getters := getters s; unfinished := unfinished s; prod := p; prod_running := prod_running s;
     prod_cancel := prod_cancel s; workers := workers s; mainpc := mainpc s; pstate := pstate s; conc := conc s;
     unpaused := unpaused s; log := log s; stopped_at := stopped_at s |}.
Definition set_prod_running (s : state) b :=
  {| src_left := src_left s; next_item := next_item s; q_pills := q_pills s; q_items := q_items s;
     getters := getters s; unfinished := unfinished s; prod := prod s; prod_running := b;
     prod_cancel := prod_cancel s; workers := workers s; mainpc := mainpc s; pstate := pstate s; conc := conc s;
     unpaused := unpaused s; log := log s; stopped_at := stopped_at s |}.
Definition set_prod_cancel (s : state) b :=
  {| src_left := src_left s; next_item := next_item s; q_pills := q_pills s; q_items := q_items s;
     getters := getters s; unfinished := unfinished s; prod := prod s; prod_running := prod_running s;
     prod_cancel := b; workers := workers s; mainpc := mainpc s; pstate := pstate s; conc := conc s;
     unpaused := unpaused s; log := log s; stopped_at := stopped_at s |}.
Definition set_main (s : state) m :=
  {| src_left := src_left s; next_item := next_item s; q_pills := q_pills s; q_items := q_items s;
     getters := getters s; unfinished := unfinished s; prod := prod s; prod_running := prod_running s;
     prod_cancel := prod_cancel s; workers := workers s; mainpc := m; pstate := pstate s; conc := conc s;
     unpaused := unpaused s; log := log s; stopped_at := stopped_at s |}.
Definition set_pstate (s : state) p :=
  {| src_left := src_left s; next_item := next_item s; q_pills := q_pills s; q_items := q_items s;
     getters := getters s; unfinished := unfinished s; prod := prod s; prod_running := prod_running s;
     prod_cancel := prod_cancel s; workers := workers s; mainpc := mainpc s; pstate := p; conc := conc s;
     unpaused := unpaused s; log := log s; stopped_at := stopped_at s |}.
Definition set_conc (s : state) c :=
  {| src_left := src_left s; next_item := next_item s; q_pills := q_pills s; q_items := q_items s;
     getters := getters s; unfinished := unfinished s; prod := prod s; prod_running := prod_running s;
     prod_cancel := prod_cancel s; workers := workers s; mainpc := mainpc s; pstate := pstate s; conc := c;
     unpaused := unpaused s; log := log s; stopped_at := stopped_at s |}.
Definition set_unpaused (s : state) b :=
  {| src_left := src_left s; next_item := next_item s; q_pills := q_pills s; q_items := q_items s;
     getters := getters s; unfinished := unfinished s; prod := prod s; prod_running := prod_running s;
     prod_cancel := prod_cancel s; workers := workers s; mainpc := mainpc s; pstate := pstate s; conc := conc s;
     unpaused := b; log := log s; stopped_at := stopped_at s |}.
Definition add_log (s : state) (e : ev) :=
  {| src_left := src_left s; next_item := next_item s; q_pills := q_pills s; q_items := q_items s;
     getters := getters s; unfinished := unfinished s; prod := prod s; prod_running := prod_running s;
     prod_cancel := prod_cancel s; workers := workers s; mainpc := mainpc s; pstate := pstate s; conc := conc s;
     unpaused := unpaused s; log := e :: log s; stopped_at := stopped_at s |}.
Definition set_stopped_at (s : state) o :=
  {| src_left := src_left s; next_item := next_item s; q_pills := q_pills s; q_items := q_items s;
     getters := getters s; unfinished := unfinished s; prod := prod s; prod_running := prod_running s;
     prod_cancel := prod_cancel s; workers := workers s; mainpc := mainpc s; pstate := pstate s; conc := conc s;
     unpaused := unpaused s; log := log s; stopped_at := o |}.
Definition take_source (s : state) :=
  {| src_left := pred (src_left s); next_item := S (next_item s); q_pills := q_pills s; q_items := q_items s;
     getters := getters s; unfinished := unfinished s; prod := P_src_item (next_item s); prod_running := prod_running s;
     prod_cancel := prod_cancel s; workers := workers s; mainpc := mainpc s; pstate := pstate s; conc := conc s;
     unpaused := unpaused s; log := log s; stopped_at := stopped_at s |}.

(* ---- workers ------------------------------------------------------------- *)
Definition wpc_at (ws : list worker) (w : nat) : option wpc :=
  match nth_error ws w with Some x => Some (pc x) | None => None end.

Fixpoint upd_pc (ws : list worker) (w : nat) (p : wpc) : list worker :=
  match ws, w with
  | [], _ => []
  | x :: r, O => {| pc := p; inset := inset x |} :: r
  | x :: r, S w' => x :: upd_pc r w' p
  end.

Definition set_wpc (s : state) (w : nat) (p : wpc) := set_workers s (upd_pc (workers s) w p).

Definition wdone (p : wpc) : bool := match p with W_exited | W_raised => true | _ => false end.
Definition wraised (p : wpc) : bool := match p with W_raised => true | _ => false end.

Definition count_inset (ws : list worker) : nat := length (filter inset ws).
Definition in_done (x : worker) : bool := inset x && wdone (pc x).
Definition in_raised (x : worker) : bool := inset x && wraised (pc x).
Definition in_live (x : worker) : bool := inset x && negb (wdone (pc x)).
(* remove the finished tasks from _worker_tasks *)
Definition reap (ws : list worker) : list worker :=
  map (fun x => if in_done x then {| pc := pc x; inset := false |} else x) ws.
Definition clear_set (ws : list worker) : list worker :=
  map (fun x => {| pc := pc x; inset := false |}) ws.

(* ---- queue and condition ------------------------------------------------- *)
Definition qsize (s : state) : nat := q_pills s + length (q_items s).

(* Queue._wakeup_next after one put_nowait *)
Definition wake_one (s : state) : state :=
  match getters s with
  | [] => s
  | w :: r => set_getters (set_wpc s w W_woken) r
  end.
Fixpoint wake_n (k : nat) (s : state) : state :=
  match k with O => s | S k' => wake_n k' (wake_one s) end.
(* k times put_poison_nowait *)
Definition put_pills (k : nat) (s : state) : state := wake_n k (set_pills s (q_pills s + k)).

(* Condition.notify_all: only the producer ever waits on the condition *)
Definition notify_all (s : state) : state :=
  match prod s with
  | P_put_parked i false => set_prod s (P_put_parked i true)
  | P_wait_parked false => set_prod s (P_wait_parked true)
  | _ => s
  end.

(* Event.set(): waiters are woken on the False->True edge only *)
Definition event_set (s : state) : state :=
  if unpaused s then s
  else let s1 := set_unpaused s true in
       match mainpc s1 with M_wait_unpaused _ => set_main s1 (M_wait_unpaused true) | _ => s1 end.

(* ---- Pipeline.stop() ------------------------------------------------------- *)
Definition pipeline_stop (s : state) : state :=
  match pstate s with
  | St_running =>
      let s1 := set_stopped_at (set_pstate s St_stopping) (Some (length (log s))) in
      let s2 := set_prod_running s1 false in                       (* Producer.stop() *)
      let s3 := put_pills (count_inset (workers s2)) s2 in         (* _kill_workers *)
      event_set s3                                                 (* fix: wake a paused process() *)
  | _ => s
  end.

(* ---- Pipeline.concurrency setter ------------------------------------------- *)
Definition set_concurrency (k : nat) (s : state) : state :=
  let old := conc s in
  let s1 := set_conc s k in
  match pstate s with
  | St_running =>
      let s2 := if k <? old then put_pills (old - k) s1
                else if old <? k then put_pills 1 s1 else s1 in
      if 0 <? k then event_set s2 else set_unpaused s2 false        (* Event.set() / Event.clear() *)
  | _ => s1
  end.

(* ---- Worker ---------------------------------------------------------------- *)
(* ItemQueue.get() + what follows in Worker.process_one, up to the next suspension *)
Definition worker_get (t : nat) (w : nat) (s : state) : state :=
  match q_pills s with
  | S p => set_wpc (notify_all (set_pills s p)) w W_exited          (* POISON_PILL: return, break *)
  | O =>
      match q_items s with
      | [] => set_getters (set_wpc s w W_parked) (getters s ++ [w])  (* Queue.get suspends *)
      | i :: r =>
          let s1 := notify_all (set_items s r) in
          match t with
          | O => (* no tasks: item_done() at once *)
              match unfinished s1 with
              | O => set_wpc s1 w W_raised                           (* assert _unfinished_items >= 0 *)
              | S u => set_wpc (notify_all (set_unfinished s1 u)) w W_loop
              end
          | S _ => set_wpc (add_log s1 (Start i 0)) w (W_task i 0)
          end
      end
  end.

Definition worker_step (t : nat) (w : nat) (s : state) : option state :=
  match wpc_at (workers s) w with
  | Some W_new | Some W_woken | Some W_loop => Some (worker_get t w s)
  | Some (W_ret i k) =>
      let s1 := add_log s (End_ i k) in
      if S k <? t then Some (set_wpc (add_log s1 (Start i (S k))) w (W_task i (S k)))
      else (* last task: item_done(), then the next get() in the same segment *)
        match unfinished s1 with
        | O => Some (set_wpc s1 w W_raised)
        | S u => Some (worker_get t w (notify_all (set_unfinished s1 u)))
        end
  | Some (W_exc i k) => Some (set_wpc s w W_raised)
  | _ => None
  end.

(* ---- Producer -------------------------------------------------------------- *)
Definition pdone (p : ppc) : bool := match p with P_done | P_raised | P_cancelled => true | _ => false end.

(* back at `while self._running` after process_one *)
Definition prod_loop (s : state) : state :=
  if prod_running s then set_prod s P_src
  else set_prod (pipeline_stop s) P_done.                            (* wrapper: else: self.stop() *)

(* ItemQueue.put_item(i) from its `while qsize() > 0` test *)
Definition prod_put (i : nat) (s : state) : state :=
  match qsize s with
  | O => prod_loop (wake_one (set_items (set_unfinished s (S (unfinished s))) (q_items s ++ [i])))
  | S _ => set_prod s (P_put_parked i false)
  end.

Definition prod_step (s : state) : option state :=
  if pdone (prod s) then None
  else match prod s with
  | P_absent => None
  | _ =>
    if prod_cancel s then Some (set_prod_cancel (set_prod s P_cancelled) false)
    else match prod s with
    | P_new => Some (prod_loop (set_prod_running s true))
    | P_src_item i => Some (prod_put i s)
    | P_put_parked i true => Some (prod_put i s)
    | P_src_none =>
        match unfinished s with
        | O => Some (set_prod (pipeline_stop (set_prod_running s false)) P_done)
        | S _ => Some (set_prod s (P_wait_parked false))
        end
    | P_wait_parked true => Some (prod_loop s)
    | P_src_exc => Some (set_prod (pipeline_stop s) P_raised)        (* wrapper: except: self.stop(); raise *)
    | _ => None
    end
  end.

(* ---- Pipeline.process ------------------------------------------------------ *)
Definition finish_prod (s : state) : state :=
  match prod s with
  | P_raised => set_main s M_raised
  | _ => set_main (set_pstate s St_stopped) M_returned
  end.

Definition sd_after_workers (s : state) : state :=
  let s1 := set_workers s (clear_set (workers s)) in
  if pdone (prod s1) then finish_prod s1
  else set_main (set_prod_cancel s1 true) M_sd_wait_prod.

Definition spawn (s : state) : state :=
  set_workers s (workers s ++ repeat {| pc := W_new; inset := true |} (conc s - count_inset (workers s))).

(* the `while self._state == running` test and one _process_one_worker up to its suspension *)
Definition main_loop (s : state) : state :=
  match pstate s with
  | St_running =>
      let s1 := spawn s in
      if 0 <? count_inset (workers s1) then set_main s1 M_wait_first
      else if unpaused s1 then set_main s1 M_spin
      else set_main s1 (M_wait_unpaused false)
  | _ =>
      if 0 <? count_inset (workers s) then set_main s M_sd_wait_workers
      else sd_after_workers s
  end.

Definition main_step (s : state) : option state :=
  match mainpc s with
  | M_new =>
      match pstate s with
      | St_stopped =>
          let s1 := set_prod (set_pstate s St_running) P_new in
          Some (main_loop (set_unpaused s1 (0 <? conc s1)))
      | _ => Some (main_loop s)
      end
  | M_spin => Some (main_loop s)
  | M_wait_first =>
      if existsb in_done (workers s) then
        if existsb in_raised (workers s) then Some (set_main s M_raised)     (* task.result() raises *)
        else Some (main_loop (set_workers s (reap (workers s))))
      else None
  | M_wait_unpaused true => Some (main_loop s)
  | M_sd_wait_workers =>
      if existsb in_live (workers s) then None else Some (sd_after_workers s)
  | M_sd_wait_prod => if pdone (prod s) then Some (finish_prod s) else None
  | _ => None
  end.

(* ---- environment ----------------------------------------------------------- *)
Fixpoint find_task (ws : list worker) (i : nat) (w : nat) : option (nat * nat) :=
  match ws with
  | [] => None
  | x :: r => match pc x with
              | W_task j k => if j =? i then Some (w, k) else find_task r i (S w)
              | _ => find_task r i (S w)
              end
  end.

Definition step (t : nat) (s : state) (l : label) : option state :=
  match l with
  | L_main => main_step s
  | L_prod => prod_step s
  | L_worker w => worker_step t w s
  | E_task_done i =>
      match find_task (workers s) i 0 with
      | Some (w, k) => Some (set_wpc s w (W_ret i k)) | None => None end
  | E_task_raise i =>
      match find_task (workers s) i 0 with
      | Some (w, k) => Some (set_wpc s w (W_exc i k)) | None => None end
  | E_src_item =>
      match prod s, prod_cancel s, src_left s with
      | P_src, false, S _ => Some (take_source s) | _, _, _ => None end
  | E_src_none =>
      match prod s, prod_cancel s with P_src, false => Some (set_prod s P_src_none) | _, _ => None end
  | E_src_raise =>
      match prod s, prod_cancel s with P_src, false => Some (set_prod s P_src_exc) | _, _ => None end
  | E_stop => Some (pipeline_stop s)
  | E_conc k => Some (set_concurrency k s)
  end.

Definition init (n c : nat) : state :=
  {| src_left := n; next_item := 1; q_pills := 0; q_items := []; getters := []; unfinished := 0;
     prod := P_absent; prod_running := false; prod_cancel := false; workers := []; mainpc := M_new;
     pstate := St_stopped; conc := c; unpaused := false; log := []; stopped_at := None |}.

Definition internal (l : label) : bool :=
  match l with L_main | L_prod | L_worker _ => true | _ => false end.

(* ---- "nothing runnable" ------------------------------------------------------ *)
Definition enabled (t : nat) (s : state) (l : label) : bool :=
  match step t s l with Some _ => true | None => false end.

Definition worker_enabled (p : wpc) : bool :=
  match p with W_new | W_woken | W_loop | W_ret _ _ | W_exc _ _ => true | _ => false end.
Definition worker_in_env (p : wpc) : bool := match p with W_task _ _ => true | _ => false end.

(* an action the environment still owes: a task in flight will complete or raise,
   the source will answer, a paused running pipeline will be unpaused *)
Definition env_owes (s : state) : bool :=
  existsb (fun x => worker_in_env (pc x)) (workers s)
  || (match prod s with P_src => negb (prod_cancel s) | _ => false end)
  || (match pstate s with St_running => conc s =? 0 | _ => false end).

Definition no_internal (t : nat) (s : state) : Prop :=
  step t s L_main = None /\ step t s L_prod = None /\ forall w, step t s (L_worker w) = None.

Definition finished (s : state) : bool :=
  match mainpc s with M_returned | M_raised => true | _ => false end.

(* ---- runs --------------------------------------------------------------------- *)
Fixpoint run (t : nat) (s : state) (ls : list label) : option state :=
  match ls with
  | [] => Some s
  | l :: r => match step t s l with Some s' => run t s' r | None => None end
  end.

(* ---- lockstep replay of an observed run (correspondence) ------------------------- *)
Definition ev_eqb (a b : ev) : bool :=
  match a, b with Ev x i k, Ev y j m => Bool.eqb x y && (i =? j) && (k =? m) end.
Fixpoint evs_eqb (a b : list ev) : bool :=
  match a, b with
  | [], [] => true
  | x :: a', y :: b' => ev_eqb x y && evs_eqb a' b'
  | _, _ => false
  end.

Inductive actor := A_main | A_prod | A_worker (w : nat).
Definition actor_label (a : actor) : label :=
  match a with A_main => L_main | A_prod => L_prod | A_worker w => L_worker w end.
Definition actor_eqb (a b : actor) : bool :=
  match a, b with
  | A_main, A_main | A_prod, A_prod => true
  | A_worker x, A_worker y => x =? y
  | _, _ => false
  end.

(* the actors with a pending step, in the order main, prod, worker 0, 1, ... *)
Definition ready_actors (t : nat) (s : state) : list actor :=
  (if enabled t s L_main then [A_main] else []) ++
  (if enabled t s L_prod then [A_prod] else []) ++
  map A_worker (filter (fun w => enabled t s (L_worker w)) (seq 0 (length (workers s)))).

Fixpoint actors_eqb (a b : list actor) : bool :=
  match a, b with
  | [], [] => true
  | x :: a', y :: b' => actor_eqb x y && actors_eqb a' b'
  | _, _ => false
  end.

Inductive obs :=
| O_run (ready : list actor) (a : actor) (emitted : list ev)   (* ready set before the step; events in order *)
| O_env (l : label).

(* one REAL worker step may be several model steps while the worker is at W_loop (t = 0) *)
Fixpoint run_actor (fuel : nat) (t : nat) (a : actor) (s : state) : option state :=
  match step t s (actor_label a) with
  | None => None
  | Some s' =>
      match a, fuel with
      | A_worker w, S f =>
          match wpc_at (workers s') w with
          | Some W_loop => run_actor f t a s'
          | _ => Some s'
          end
      | _, _ => Some s'
      end
  end.

Inductive verdict := V_ok (s : state) | V_reject (at_ : nat) (why : nat).
(* why: 1 ready set differs, 2 step not enabled, 3 emitted events differ, 4 env action not enabled *)

Fixpoint replay (t : nat) (s : state) (tr : list obs) (pos : nat) : verdict :=
  match tr with
  | [] => V_ok s
  | O_run rdy a evs :: r =>
      if negb (actors_eqb (ready_actors t s) rdy) then V_reject pos 1
      else match run_actor (S (length (q_items s))) t a s with
           | None => V_reject pos 2
           | Some s' =>
               if evs_eqb (log s') (rev evs ++ log s) then replay t s' r (S pos) else V_reject pos 3
           end
  | O_env l :: r =>
      if internal l then V_reject pos 4
      else match step t s l with
           | None => V_reject pos 4
           | Some s' => replay t s' r (S pos)
           end
  end.

Inductive terminal := T_returned | T_raised | T_stuck.

Definition stuckb (t : nat) (s : state) : bool :=
  match ready_actors t s with [] => negb (env_owes s) | _ => false end.

(* (0,0) = accepted; otherwise (why, position+1); why 9: terminal observation differs *)
Definition accept_why (t n c : nat) (tr : list obs) (term : terminal) : nat * nat :=
  match replay t (init n c) tr 0 with
  | V_reject p why => (why, S p)
  | V_ok s =>
      match term, mainpc s with
      | T_returned, M_returned => (0, 0)
      | T_raised, M_raised => (0, 0)
      | T_stuck, _ => if stuckb t s && negb (finished s) then (0, 0) else (9, 0)
      | _, _ => (9, 0)
      end
  end.
Definition accept (t n c : nat) (tr : list obs) (term : terminal) : bool :=
  match accept_why t n c tr term with (0, _) => true | _ => false end.
