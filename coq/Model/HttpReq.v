(* C16 - executable model of how wpull builds the bytes of every HTTP request of
   a fetch, hop by hop.  Definitions only (proofs: Proofs/HttpReqProofs.v).

   Transcribed from (line numbers of the tree the model was written against):
     wpull/namevalue.py        NameValueRecord __getitem__/__setitem__/__delitem__/add/
                               get_all/to_str/to_bytes                      -> nv_*, nv_to_str
     wpull/protocol/http/request.py  RawRequest.to_bytes, Request.prepare_for_send,
                               Request.copy                                  -> to_bytes, prepare_for_send
     wpull/protocol/http/stream.py   Stream.write_request                    -> write_request
     wpull/protocol/http/web.py      WebSession.__init__/start/_process_response/
                               _process_redirect/_process_authentication/
                               _add_basic_auth_header/_add_cookies          -> sess_init, hop, run
     wpull/protocol/http/redirect.py RedirectTracker.load/is_redirect/is_repeat/exceeded
     wpull/cookiewrapper.py    convert_http_request + CookieJarWrapper.add_cookie_header,
                               with urllib.request.Request.add_header/has_header/header_items and
                               http.cookiejar.CookieJar.add_cookie_header's
                               "if not request.has_header('Cookie')" rule     -> cookie_glue
     wpull/processor/web.py    _new_initial_request/_populate_common_request/_add_referrer/
                               _add_post_data                                -> initial_request
     wpull/url.py              URLInfo.url, URLInfo.hostname_with_port (the parser itself is NOT
                               modelled here: parsed components are inputs)  -> url_of, hostname_with_port

   Text is [list N] of code points; bytes are [list N] of values < 256.
   Field names are the already normalised names kept by NameValueRecord
   (str.title(); the harness passes them normalised). *)
From Coq Require Import List NArith Bool Ascii String.
From Wpull Require Import Lib.Hex.
Import ListNotations.
Open Scope bool_scope.
Open Scope N_scope.

Definition str := list N.

Definition lit (s : string) : str := map N_of_ascii (list_ascii_of_string s).

Definition str_eqb : str -> str -> bool := list_eqb.
Definition nonempty (s : str) : bool := match s with [] => false | _ => true end.

Definition crlf : list N := [13; 10].
Definition SP : N := 32.
Definition COLON : N := 58.

(* names and constant values set by wpull *)
Definition s_Host := lit "Host".
Definition s_Cookie := lit "Cookie".
Definition s_Authorization := lit "Authorization".
Definition s_Referer := lit "Referer".
Definition s_Connection := lit "Connection".
Definition s_Content_Type := lit "Content-Type".
Definition s_Content_Length := lit "Content-Length".
Definition s_close := lit "close".
Definition s_form := lit "application/x-www-form-urlencoded".
Definition s_GET := lit "GET".
Definition s_POST := lit "POST".
Definition s_version := lit "HTTP/1.1".
Definition s_Basic := lit "Basic ".
Definition s_http := lit "http".
Definition s_https := lit "https".
Definition s_css := lit "://".

(* ---------------------------------------------------------------- *)
(* Small library pieces modelled concretely                          *)
(* ---------------------------------------------------------------- *)

(* '{}'.format(int) for a non-negative int *)
Fixpoint dec_aux (fuel : nat) (n : N) (acc : list N) : list N :=
  match fuel with
  | O => acc
  | S f => let acc' := (48 + n mod 10) :: acc in
           if n <? 10 then acc' else dec_aux f (n / 10) acc'
  end.
Definition dec (n : N) : list N := dec_aux (S (N.size_nat n)) n [].

(* str.encode('utf-8', 'replace'): lone surrogates become '?' *)
Definition utf8_cp (c : N) : list N :=
  if c <? 128 then [c]
  else if c <? 2048 then [192 + c / 64; 128 + c mod 64]
  else if (55296 <=? c) && (c <=? 57343) then [63]
  else if c <? 65536 then [224 + c / 4096; 128 + (c / 64) mod 64; 128 + c mod 64]
  else [240 + c / 262144; 128 + (c / 4096) mod 64; 128 + (c / 64) mod 64; 128 + c mod 64].
Definition utf8_replace (s : str) : list N := flat_map utf8_cp s.

(* base64.b64encode *)
Definition b64char (i : N) : N :=
  if i <? 26 then 65 + i
  else if i <? 52 then 97 + (i - 26)
  else if i <? 62 then 48 + (i - 52)
  else if i =? 62 then 43 else 47.
Fixpoint b64 (l : list N) : list N :=
  match l with
  | a :: b :: c :: r =>
      b64char (a / 4) :: b64char ((a mod 4) * 16 + b / 16) :: b64char ((b mod 16) * 4 + c / 64)
        :: b64char (c mod 64) :: b64 r
  | [a; b] => [b64char (a / 4); b64char ((a mod 4) * 16 + b / 16); b64char ((b mod 16) * 4); 61]
  | [a] => [b64char (a / 4); b64char ((a mod 4) * 16); 61; 61]
  | [] => []
  end.

(* str.encode('latin-1', errors='replace') and the strict variant *)
Definition enc_replace (s : str) : list N := map (fun c => if c <? 256 then c else 63) s.
Definition enc_strict (s : str) : option (list N) :=
  if forallb (fun c => c <? 256) s then Some s else None.

(* ---------------------------------------------------------------- *)
(* wpull/namevalue.py: NameValueRecord (ordered map name -> values)  *)
(* ---------------------------------------------------------------- *)
Definition nvr := list (str * list str).

Fixpoint nv_find (n : str) (f : nvr) : option (list str) :=
  match f with
  | [] => None
  | (m, vs) :: r => if str_eqb m n then Some vs else nv_find n r
  end.
(* __getitem__ (first value; KeyError when missing or empty) via Mapping.get *)
Definition nv_get (n : str) (f : nvr) : option str :=
  match nv_find n f with Some (v :: _) => Some v | _ => None end.
(* Mapping.__contains__: try self[key] *)
Definition nv_contains (n : str) (f : nvr) : bool :=
  match nv_get n f with Some _ => true | None => false end.
Definition nv_get_list (n : str) (f : nvr) : list str :=
  match nv_find n f with Some vs => vs | None => [] end.
(* __setitem__: self._map[name][:] = (value,) *)
Fixpoint nv_set (n v : str) (f : nvr) : nvr :=
  match f with
  | [] => [(n, [v])]
  | (m, vs) :: r => if str_eqb m n then (m, [v]) :: r else (m, vs) :: nv_set n v r
  end.
(* add: self._map[name].append(value) *)
Fixpoint nv_add (n v : str) (f : nvr) : nvr :=
  match f with
  | [] => [(n, [v])]
  | (m, vs) :: r => if str_eqb m n then (m, vs ++ [v]) :: r else (m, vs) :: nv_add n v r
  end.
Definition nv_del (n : str) (f : nvr) : nvr :=
  filter (fun p => negb (str_eqb (fst p) n)) f.
(* MutableMapping.pop(name, None) *)
Definition nv_pop (n : str) (f : nvr) : nvr :=
  if nv_contains n f then nv_del n f else f.
Definition nv_get_all (f : nvr) : list (str * str) :=
  flat_map (fun p => map (fun v => (fst p, v)) (snd p)) f.

(* to_str (wrap_width is None for request fields) *)
Definition field_line (p : str * str) : str :=
  match snd p with
  | [] => fst p ++ [COLON]
  | _ => fst p ++ [COLON; SP] ++ snd p
  end.
Definition nv_to_str (f : nvr) : str :=
  List.concat (map (fun p => field_line p ++ crlf) (nv_get_all f)).

(* ---------------------------------------------------------------- *)
(* URL components (inputs; produced by wpull/url.py URLInfo.parse)   *)
(* ---------------------------------------------------------------- *)
Record urlc := {
  u_scheme : str;          (* 'http', 'https', ... *)
  u_defport : N;           (* RELATIVE_SCHEME_DEFAULT_PORTS.get(scheme) or 0 *)
  u_hostname : str;        (* hostname (IPv6 without brackets) *)
  u_ipv6 : bool;           (* is_ipv6() *)
  u_port : N;
  u_path : str;
  u_query : str;
  u_user : str;            (* username, percent-decoded *)
  u_pass : str;            (* password, percent-decoded *)
  u_user_enc : str;        (* normalize_username(username) *)
  u_pass_enc : str         (* normalize_password(password) *)
}.

Definition bracketed (u : urlc) : str :=
  if u_ipv6 u then [91] ++ u_hostname u ++ [93] else u_hostname u.

(* URLInfo.hostname_with_port *)
Definition hostname_with_port (u : urlc) : str :=
  if u_defport u =? 0 then []
  else if u_defport u =? u_port u then bracketed u
  else bracketed u ++ [COLON] ++ dec (u_port u).

(* URLInfo.url (relative schemes) *)
Definition url_of (u : urlc) : str :=
  u_scheme u ++ s_css
  ++ (if nonempty (u_user u) then u_user_enc u else [])
  ++ (if nonempty (u_pass u) then [COLON] ++ u_pass_enc u else [])
  ++ (if nonempty (u_user u) || nonempty (u_pass u) then [64] else [])
  ++ bracketed u
  ++ (if u_defport u =? u_port u then [] else [COLON] ++ dec (u_port u))
  ++ u_path u
  ++ (if nonempty (u_query u) then [63] ++ u_query u else []).

(* the referrer built by _add_referrer: scheme://hostname_with_port path [?query] *)
Definition referrer_of (p : urlc) : str :=
  u_scheme p ++ s_css ++ hostname_with_port p ++ u_path p
  ++ (if nonempty (u_query p) then [63] ++ u_query p else []).

(* Request.prepare_for_send: resource_path *)
Definition target_of (full_url : bool) (u : urlc) : str :=
  if full_url then url_of u
  else if nonempty (u_query u) then u_path u ++ [63] ++ u_query u
  else u_path u.

(* ---------------------------------------------------------------- *)
(* Request objects                                                   *)
(* ---------------------------------------------------------------- *)
Record req := {
  q_url : urlc;
  q_post : bool;            (* method 'POST' (else 'GET') *)
  q_fields : nvr;
  q_user : str;             (* request.username ('' for None) *)
  q_pass : str              (* request.password *)
}.

Definition with_fields (q : req) (f : nvr) : req :=
  {| q_url := q_url q; q_post := q_post q; q_fields := f; q_user := q_user q; q_pass := q_pass q |}.
Definition with_url (q : req) (u : urlc) : req :=
  {| q_url := u; q_post := q_post q; q_fields := q_fields q; q_user := q_user q; q_pass := q_pass q |}.

Definition method_of (q : req) : str := if q_post q then s_POST else s_GET.

(* RawRequest.to_bytes after prepare_for_send(full_url) *)
Definition to_bytes (full_url : bool) (q : req) : option (list N) :=
  match enc_strict (method_of q ++ [SP] ++ target_of full_url (q_url q) ++ [SP] ++ s_version) with
  | Some status => Some (status ++ crlf ++ enc_replace (nv_to_str (q_fields q)) ++ crlf)
  | None => None            (* UnicodeEncodeError *)
  end.

(* Request.prepare_for_send, the part that changes the fields *)
Definition prepare_for_send (q : req) : req :=
  if nv_contains s_Host (q_fields q) then q
  else with_fields q (nv_set s_Host (hostname_with_port (q_url q)) (q_fields q)).

(* Stream.write_request *)
Definition write_request (ignore_length : bool) (q : req) : req :=
  let q1 := prepare_for_send q in
  if ignore_length then with_fields q1 (nv_set s_Connection s_close (q_fields q1)) else q1.

(* WebSession._add_basic_auth_header *)
Definition pick (a b : str) : str := if nonempty a then a else b.
Definition basic_value (user pass : str) : str :=
  s_Basic ++ b64 (utf8_replace (user ++ [COLON] ++ pass)).
Definition add_basic_auth (q : req) : req :=
  let user := pick (u_user (q_url q)) (q_user q) in
  let pass := pick (u_pass (q_url q)) (q_pass q) in
  if nonempty user && nonempty pass
  then with_fields q (nv_set s_Authorization (basic_value user pass) (q_fields q))
  else q.

(* ---------------------------------------------------------------- *)
(* wpull/cookiewrapper.py + urllib.request.Request + http.cookiejar  *)
(* ---------------------------------------------------------------- *)
(* a Python dict keyed by header name (insertion ordered) *)
Fixpoint dict_set (k v : str) (d : list (str * str)) : list (str * str) :=
  match d with
  | [] => [(k, v)]
  | (k', v') :: r => if str_eqb k' k then (k', v) :: r else (k', v') :: dict_set k v r
  end.
Definition dict_has (k : str) (d : list (str * str)) : bool :=
  existsb (fun p => str_eqb (fst p) k) d.

(* ans = what the jar wants to send for this request's URL (None: no cookies).
   convert_http_request: add_header for every (name, value) of get_all();
   CookieJar.add_cookie_header: add_unredirected_header('Cookie', ..) unless has_header('Cookie');
   then fields.clear() and fields.add() for every header_items() entry
   (unredirected headers first). *)
Definition cookie_glue (ans : option str) (f : nvr) : nvr :=
  let hdrs := fold_left (fun d p => dict_set (fst p) (snd p) d) (nv_get_all f) [] in
  let unred := match ans with
               | Some v => if dict_has s_Cookie hdrs then [] else [(s_Cookie, v)]
               | None => []
               end in
  fold_left (fun g p => nv_add (fst p) (snd p) g) (unred ++ hdrs) [].

(* ---------------------------------------------------------------- *)
(* wpull/processor/web.py: the first request of a fetch              *)
(* ---------------------------------------------------------------- *)
(* base = fields of a request made by the request factory (User-Agent, --referer,
   --header, Accept-Encoding, ...): the same for every URL. *)
Definition fresh (base : nvr) (u : urlc) : req :=
  {| q_url := u; q_post := false; q_fields := base; q_user := []; q_pass := [] |}.

Definition add_referrer (parent : urlc) (q : req) : req :=
  if str_eqb (u_scheme parent) s_https && str_eqb (u_scheme (q_url q)) s_http then q
  else with_fields q (nv_set s_Referer (referrer_of parent) (q_fields q)).

Definition populate_common (parent : option urlc) (login : option (str * str)) (q : req) : req :=
  let q1 := match parent with
            | Some p => match nv_get s_Referer (q_fields q) with
                        | Some (_ :: _) => q
                        | _ => add_referrer p q
                        end
            | None => q
            end in
  match login with
  | Some (lu, lp) => {| q_url := q_url q1; q_post := q_post q1; q_fields := q_fields q1; q_user := lu; q_pass := lp |}
  | None => q1
  end.

Definition add_post_data (len : N) (q : req) : req :=
  {| q_url := q_url q; q_post := true;
     q_fields := nv_set s_Content_Length (dec len) (nv_set s_Content_Type s_form (q_fields q));
     q_user := q_user q; q_pass := q_pass q |}.

Definition initial_request (base : nvr) (u : urlc) (parent : option urlc)
           (login : option (str * str)) (post : option N) : req :=
  let q := populate_common parent login (fresh base u) in
  match post with Some len => add_post_data len q | None => q end.

(* ---------------------------------------------------------------- *)
(* wpull/protocol/http/web.py: WebSession                            *)
(* ---------------------------------------------------------------- *)
Inductive loc :=
| LocNone                  (* no (or empty) Location field *)
| LocBadJoin               (* urljoin raised ValueError *)
| LocBadParse              (* URLInfo.parse of the joined URL raised ValueError *)
| LocUrl (u : urlc).       (* components of the joined, parsed location *)

Record resp := {
  r_status : N;
  r_loc : loc;
  r_full : bool;            (* the connection used for this exchange was an untunnelled proxy *)
  r_xraise : bool           (* CookieJar.extract_cookies raised ValueError for this response (http.cookiejar calls
                               urllib.parse.urlsplit on the request URL, which refuses e.g. a '[' in the user-info) *)
}.

Inductive nxt := NOrig | NOther (q : req) | NDone.

Record sess := {
  ss_orig : req;            (* _original_request (same object as _next_request while NOrig) *)
  ss_next : nxt;
  ss_loop_auth : bool;      (* _loop_type == LoopType.authentication *)
  ss_auths : list str;      (* _hostnames_with_auth *)
  ss_nredir : N;            (* RedirectTracker._num_redirects *)
  ss_t : nat                (* number of questions asked to the cookie jar so far *)
}.

Record cfg := {
  c_base : nvr;
  c_use_jar : bool;
  c_max_redirects : N;
  c_ignore_length : bool;
  c_copy_body_fails : bool  (* Request.copy() of a request with a body raises (measured on the
                               implementation by the harness: deepcopy of wpull.body.Body recurses) *)
}.

Definition is_repeat (status : N) : bool := (status =? 307) || (status =? 308).
Definition is_redirect (status : N) : bool :=
  (status =? 301) || (status =? 302) || (status =? 303) || is_repeat status.

(* what is observable of one start(): the URL of the request, the proxy flag,
   the request as it was serialised, and the bytes *)
Record sent := {
  sn_url : urlc;
  sn_full : bool;
  sn_req : req;
  sn_bytes : option (list N)
}.

Inductive outcome := OSess (s : sess) | OErr (code : N).

(* what asking the cookie jar for a request gives: nothing to send, a header value, or
   urllib.request.Request(url) refusing the URL with ValueError before the jar is reached
   (e.g. "Invalid IPv6 URL" for a bracket in the user-info) *)
Inductive jans := JNone | JSome (v : str) | JRaise.
Definition ERR_TOO_MANY : N := 1.
Definition ERR_LOC_MISSING : N := 2.
Definition ERR_LOC_INVALID : N := 3.
Definition ERR_COPY : N := 4.
Definition ERR_COOKIE_URL : N := 5.

Section Session.
  Variable c : cfg.
  (* the cookie jar: the header value it wants to send for a URL when asked the t-th time *)
  Variable jar : nat -> urlc -> jans.

  Definition cur (s : sess) : option req :=
    match ss_next s with NOrig => Some (ss_orig s) | NOther q => Some q | NDone => None end.

  (* write through the alias _next_request *)
  Definition upd (s : sess) (q : req) : sess :=
    match ss_next s with
    | NOrig => {| ss_orig := q; ss_next := NOrig; ss_loop_auth := ss_loop_auth s; ss_auths := ss_auths s;
                  ss_nredir := ss_nredir s; ss_t := ss_t s |}
    | _ => {| ss_orig := ss_orig s; ss_next := NOther q; ss_loop_auth := ss_loop_auth s; ss_auths := ss_auths s;
              ss_nredir := ss_nredir s; ss_t := ss_t s |}
    end.

  Definition add_cookies (t : nat) (q : req) : option req :=
    match jar t (q_url q) with
    | JRaise => None
    | JNone => Some (with_fields q (cookie_glue None (q_fields q)))
    | JSome v => Some (with_fields q (cookie_glue (Some v) (q_fields q)))
    end.

  (* WebSession.__init__ *)
  Definition sess_init (q : req) : option sess :=
    if c_use_jar c
    then match add_cookies 0 q with
         | Some q' => Some {| ss_orig := q'; ss_next := NOrig; ss_loop_auth := false; ss_auths := [];
                              ss_nredir := 0; ss_t := 1 |}
         | None => None
         end
    else Some {| ss_orig := q; ss_next := NOrig; ss_loop_auth := false; ss_auths := []; ss_nredir := 0; ss_t := 0 |}.

  (* _process_redirect, repeat branch: copy of the original request for the new URL with
     Host / Cookie / Authorization reset to those of a new request *)
  Definition reset_field (n : str) (f : nvr) : nvr :=
    fold_left (fun g v => nv_add n v g) (nv_get_list n (c_base c)) (nv_pop n f).
  Definition repeat_request (orig : req) (u : urlc) : req :=
    let q := with_url orig u in
    with_fields q (reset_field s_Authorization (reset_field s_Cookie (reset_field s_Host (q_fields q)))).

  (* _process_response after the cookie-independent part: _extract_cookies, then
     _add_cookies(_next_request) when there is one *)
  Definition cookies_after (s : sess) : option sess :=
    if c_use_jar c then
      match cur s with
      | Some q =>
          match add_cookies (ss_t s) q with
          | Some q' => let s' := upd s q' in
                       Some {| ss_orig := ss_orig s'; ss_next := ss_next s'; ss_loop_auth := ss_loop_auth s';
                               ss_auths := ss_auths s'; ss_nredir := ss_nredir s'; ss_t := S (ss_t s) |}
          | None => None
          end
      | None => Some s
      end
    else Some s.

  Definition finish (r : resp) (sn : sent) (s : sess) : sent * outcome :=
    if c_use_jar c && r_xraise r then (sn, OErr ERR_COOKIE_URL)      (* _extract_cookies raised *)
    else
    match cookies_after s with
    | Some s' => (sn, OSess s')
    | None => (sn, OErr ERR_COOKIE_URL)
    end.

  (* one start(): request q is the current _next_request *)
  Definition hop (s : sess) (q : req) (r : resp) : sent * outcome :=
    (* start() *)
    let q1 := if nonempty (u_pass (q_url q)) || existsb (str_eqb (hostname_with_port (q_url q))) (ss_auths s)
              then add_basic_auth q else q in
    (* session.start -> Stream.write_request *)
    let q2 := write_request (c_ignore_length c) q1 in
    let sn := {| sn_url := q_url q2; sn_full := r_full r; sn_req := q2; sn_bytes := to_bytes (r_full r) q2 |} in
    let s1 := upd s q2 in
    (* _process_response: RedirectTracker.load *)
    let n' := match r_loc r with LocNone => ss_nredir s1 | _ => ss_nredir s1 + 1 end in
    if is_redirect (r_status r) then
      if c_max_redirects c <? n' then (sn, OErr ERR_TOO_MANY)
      else
        (* request = self._original_request.copy() happens after urljoin and before URLInfo.parse *)
        let copy_fails := is_repeat (r_status r) && q_post (ss_orig s1) && c_copy_body_fails c in
        match r_loc r with
        (* ProtocolError('Redirect location missing.') is a ValueError raised inside the try:
           it is caught and re-raised as 'Invalid redirect location.' *)
        | LocNone => (sn, OErr ERR_LOC_INVALID)
        | LocBadJoin => (sn, OErr ERR_LOC_INVALID)
        | LocBadParse => (sn, OErr (if copy_fails then ERR_COPY else ERR_LOC_INVALID))
        | LocUrl u =>
            if copy_fails then (sn, OErr ERR_COPY) else
            let nq := if is_repeat (r_status r) then repeat_request (ss_orig s1) u else fresh (c_base c) u in
            let nq := prepare_for_send nq in
            finish r sn (
                          {| ss_orig := ss_orig s1; ss_next := NOther nq; ss_loop_auth := false;
                             ss_auths := ss_auths s1; ss_nredir := n'; ss_t := ss_t s1 |})
        end
    else if (r_status r =? 401) && nonempty (q_pass q2) then
      if ss_loop_auth s1 then
        finish r sn (
                      {| ss_orig := ss_orig s1; ss_next := NDone; ss_loop_auth := false;
                         ss_auths := ss_auths s1; ss_nredir := n'; ss_t := ss_t s1 |})
      else
        let s2 := upd s1 (add_basic_auth q2) in
        finish r sn (
                      {| ss_orig := ss_orig s2; ss_next := ss_next s2; ss_loop_auth := true;
                         ss_auths := hostname_with_port (q_url q2) :: ss_auths s2;
                         ss_nredir := n'; ss_t := ss_t s2 |})
    else
      finish r sn (
                    {| ss_orig := ss_orig s1; ss_next := NDone; ss_loop_auth := false;
                       ss_auths := ss_auths s1; ss_nredir := n'; ss_t := ss_t s1 |}).

  (* the whole fetch: one request per response the server side supplies *)
  Fixpoint run (s : sess) (rs : list resp) : list sent * N :=
    match rs with
    | [] => ([], match cur s with None => 0 | Some _ => 9 end)
    | r :: rs' =>
        match cur s with
        | None => ([], 0)
        | Some q =>
            match hop s q r with
            | (sn, OSess s') => let (l, e) := run s' rs' in (sn :: l, e)
            | (sn, OErr e) => ([sn], e)
            end
        end
    end.

  Definition fetch (u : urlc) (parent : option urlc) (login : option (str * str)) (post : option N)
             (rs : list resp) : list sent * N :=
    match sess_init (initial_request (c_base c) u parent login post) with
    | Some s => run s rs
    | None => ([], ERR_COOKIE_URL)
    end.
End Session.

(* observation compared with the implementation: the bytes of every request and how the fetch ended
   (0 done, 9 server script exhausted, 1/2/3 ProtocolError kinds, 4 copy of a request body failed,
   5 urllib refused the URL while the cookie header was added or the cookies were extracted) *)
Definition observe (x : list sent * N) : list (option (list N)) * N := (map sn_bytes (fst x), snd x).

(* the jar instantiated by a recorded table of answers *)
Definition table_jar (answers : list jans) : nat -> urlc -> jans :=
  fun t _ => nth t answers JNone.

Fixpoint obs_eqb (a b : list (option (list N))) : bool :=
  match a, b with
  | [], [] => true
  | x :: a', y :: b' => opt_list_eqb x y && obs_eqb a' b'
  | _, _ => false
  end.
