(* The connection as wpull's FTP streams see it (wpull/network/connection.py
   Connection.readline / Connection.read on top of asyncio.StreamReader), with a
   segmentation oracle.  Own small model for C17 (Lib/Conn.v belongs to another
   property).  Definitions only.

   c_buf     = StreamReader._buffer: bytes received but not yet consumed
   c_pending = bytes the peer has sent (or will send) before closing, not yet
               delivered to the reader; [] means the next wait ends in EOF
   c_sched   = the segmentation oracle: the i-th wait for data delivers
               min (S k_i) |pending| bytes (an exhausted oracle delivers single
               bytes).  Quantifying over every c_sched quantifies over every way
               the kernel / event loop can cut the stream. *)
From Coq Require Import List NArith Bool Arith.
Import ListNotations.
Open Scope N_scope.

Record conn := mkConn { c_buf : list N; c_pending : list N; c_sched : list nat }.

(* what the peer's byte stream still holds for this reader *)
Definition stream (c : conn) : list N := c_buf c ++ c_pending c.

Definition seg_len (c : conn) : nat :=
  match c_sched c with [] => 1%nat | k :: _ => S k end.

(* StreamReader._wait_for_data: one segment arrives (feed_data); with nothing
   pending this is feed_eof and changes nothing *)
Definition deliver (c : conn) : conn :=
  mkConn (c_buf c ++ firstn (seg_len c) (c_pending c))
         (skipn (seg_len c) (c_pending c))
         (tl (c_sched c)).

Fixpoint find_lf (l : list N) : option nat :=
  match l with
  | [] => None
  | x :: r => if x =? 10 then Some 0%nat else option_map S (find_lf r)
  end.

Definition lenN (l : list N) : N := N.of_nat (length l).

(* StreamReader.readline = readuntil(b'\n') with the 3.12 rules:
     separator found at isep: isep > limit -> LimitOverrunError else the line;
     not found: buffered length > limit -> LimitOverrunError;
                EOF -> IncompleteReadError, readline returns the partial line;
                otherwise wait for more data.
   LimitOverrunError becomes ValueError in readline (RlOverrun). *)
Inductive rl :=
| RlLine (line : list N) (c : conn)
| RlOverrun
| RlFuel.

Fixpoint readline (limit : N) (fuel : nat) (c : conn) : rl :=
  match fuel with
  | O => RlFuel
  | S f =>
      match find_lf (c_buf c) with
      | Some i =>
          if limit <? N.of_nat i then RlOverrun
          else RlLine (firstn (S i) (c_buf c)) (mkConn (skipn (S i) (c_buf c)) (c_pending c) (c_sched c))
      | None =>
          if limit <? lenN (c_buf c) then RlOverrun
          else match c_pending c with
               | [] => RlLine (c_buf c) (mkConn [] [] (c_sched c))
               | _ :: _ => readline limit f (deliver c)
               end
      end
  end.

(* fuel that always suffices: every wait delivers at least one byte *)
Definition readline_fuel (c : conn) : nat := S (S (length (c_pending c))).

(* the same as a function of the byte stream alone *)
Inductive rls :=
| SLine (line rest : list N)
| SOverrun.

Definition readline_spec (limit : N) (s : list N) : rls :=
  match find_lf s with
  | Some i => if limit <? N.of_nat i then SOverrun else SLine (firstn (S i) s) (skipn (S i) s)
  | None => if limit <? lenN s then SOverrun else SLine s []
  end.

(* StreamReader.read(n), n > 0: at most ONE wait when the buffer is empty, then
   up to n buffered bytes; b'' exactly at EOF *)
Definition conn_read (n : nat) (c : conn) : list N * conn :=
  let c1 := match c_buf c with [] => deliver c | _ :: _ => c end in
  (firstn n (c_buf c1), mkConn (skipn n (c_buf c1)) (c_pending c1) (c_sched c1)).

(* bytes that arrive while nobody waits for them: the event loop calls
   feed_data on this connection's StreamReader while the client task is
   suspended elsewhere; they go from the wire into the buffer.  The segmentation
   oracle is untouched. *)
Definition push (k : nat) (c : conn) : conn :=
  mkConn (c_buf c ++ firstn k (c_pending c)) (skipn k (c_pending c)) (c_sched c).
