(* Executable model of wpull/decompression.py (GzipDecompressor,
   DeflateDecompressor, identity) over an ABSTRACT zlib: a byte-at-a-time
   inflate machine given as Section variables.  Definitions only.

   zlib itself is not wpull code.  The machine abstraction says: what zlib has
   output / whether it has failed / whether it has seen the end marker after
   consuming a prefix of the input is a function of that prefix (sampled
   against the real library on every run, see harness/corr/c19.py). *)
From Coq Require Import List NArith Bool.
Import ListNotations.
Open Scope N_scope.
Open Scope bool_scope.

Inductive wbits := W31 (* gzip wrapper *) | W15 (* zlib wrapper *) | WRaw (* raw deflate *).

Section Zlib.
  Variable zst : Type.
  Variable zinit : wbits -> zst.
  Variable zstep : zst -> N -> option (zst * list N).   (* None = zlib.error *)
  Variable zeof : zst -> bool.                          (* decompressobj.eof *)
  Variable zfl : zst -> list N.                         (* decompressobj.flush() output *)

  (* decompressobj.decompress(bytes) *)
  Fixpoint zfeed (z : zst) (bs : list N) : option (zst * list N) :=
    match bs with
    | [] => Some (z, [])
    | b :: r =>
        match zstep z b with
        | None => None
        | Some (z1, o1) =>
            match zfeed z1 r with
            | None => None
            | Some (z2, o2) => Some (z2, o1 ++ o2)
            end
        end
    end.

  (* SimpleGzipDecompressor.flush after the fix: error unless eof *)
  Definition zflush (z : zst) : option (list N) :=
    if zeof z then Some (zfl z) else None.

  (* ---- GzipDecompressor ---- *)
  Inductive gz_state := GUnchecked | GPass | GZ (z : zst).

  Definition gz_decompress (s : gz_state) (v : list N) : option (gz_state * list N) :=
    match s with
    | GZ z => match zfeed z v with Some (z', o) => Some (GZ z', o) | None => None end
    | GPass => Some (GPass, v)
    | GUnchecked =>
        match v with
        | 31 :: _ => match zfeed (zinit W31) v with Some (z', o) => Some (GZ z', o) | None => None end
        | _ => Some (GPass, v)
        end
    end.

  Definition gz_flush (s : gz_state) : option (list N) :=
    match s with
    | GZ z => zflush z
    | _ => Some []
    end.

  (* ---- DeflateDecompressor (after the fix: decision on the 2-byte header) ---- *)
  Definition is_zlib_header (cmf flg : N) : bool :=
    (N.land cmf 15 =? 8) && (N.shiftr cmf 4 <=? 7)
    && ((cmf * 256 + flg) mod 31 =? 0) && (N.land flg 32 =? 0).

  Inductive df_state := DHdr (buf : list N) | DZ (z : zst).

  Definition df_decompress (s : df_state) (v : list N) : option (df_state * list N) :=
    match s with
    | DZ z => match zfeed z v with Some (z', o) => Some (DZ z', o) | None => None end
    | DHdr buf =>
        match buf ++ v with
        | c :: f :: r =>
            let z0 := if is_zlib_header c f then zinit W15 else zinit WRaw in
            match zfeed z0 (c :: f :: r) with Some (z', o) => Some (DZ z', o) | None => None end
        | short => Some (DHdr short, [])
        end
    end.

  Definition df_flush (s : df_state) : option (list N) :=
    match s with
    | DZ z => zflush z
    | DHdr [] => Some []
    | DHdr _ => None
    end.

  (* ---- the three decoders behind one interface, as http/stream.py uses them ---- *)
  Inductive kind := KGzip | KDeflate | KIdentity.
  Inductive dstate := SG (s : gz_state) | SD (s : df_state) | SI.

  Definition dinit (k : kind) : dstate :=
    match k with KGzip => SG GUnchecked | KDeflate => SD (DHdr []) | KIdentity => SI end.

  Definition decompress (s : dstate) (v : list N) : option (dstate * list N) :=
    match s with
    | SG g => match gz_decompress g v with Some (g', o) => Some (SG g', o) | None => None end
    | SD d => match df_decompress d v with Some (d', o) => Some (SD d', o) | None => None end
    | SI => Some (SI, v)
    end.

  Definition flush (s : dstate) : option (list N) :=
    match s with SG g => gz_flush g | SD d => df_flush d | SI => Some [] end.

  (* feed the pieces in order, then flush; None = zlib.error (-> ProtocolError) *)
  Fixpoint run_from (s : dstate) (pieces : list (list N)) : option (list N) :=
    match pieces with
    | [] => flush s
    | p :: r =>
        match decompress s p with
        | None => None
        | Some (s', o) => match run_from s' r with None => None | Some o' => Some (o ++ o') end
        end
    end.

  Definition run (k : kind) (pieces : list (list N)) : option (list N) := run_from (dinit k) pieces.

  (* decoding the whole body at once (an empty body is never fed: the reader loop
     stops on an empty read) *)
  Definition oneshot (k : kind) (body : list N) : option (list N) :=
    match body with [] => run k [] | _ => run k [body] end.

  (* reference: what "decoding" means, independent of the streaming glue *)
  Definition whole (w : wbits) (body : list N) : option (list N) :=
    match zfeed (zinit w) body with
    | None => None
    | Some (z, o) => if zeof z then Some (o ++ zfl z) else None
    end.

  Definition reference (k : kind) (body : list N) : option (list N) :=
    match k, body with
    | KIdentity, _ => Some body
    | _, [] => Some []
    | KGzip, 31 :: _ => whole W31 body
    | KGzip, _ => Some body                      (* documented: not gzip magic -> passed through *)
    | KDeflate, [_] => None                      (* one byte can be neither wrapper *)
    | KDeflate, c :: f :: _ => whole (if is_zlib_header c f then W15 else WRaw) body
    end.
End Zlib.

(* ---- a concrete instance driven by a table recorded from the real zlib:
   entry i (0-based) describes the machine after consuming byte i:
   (error?, eof?, number of output bytes newly available).  Used only by the
   correspondence check, never by a theorem. ---- *)
Record ztab := { zt_rows : list (bool * bool * nat); zt_out : list N }.
Record tst := { t_tab : ztab; t_pos : nat; t_outpos : nat; t_eof : bool }.

Definition tab_step (s : tst) (_ : N) : option (tst * list N) :=
  match nth_error (zt_rows (t_tab s)) (t_pos s) with
  | None => None
  | Some (err, eof, k) =>
      if err then None
      else Some ({| t_tab := t_tab s; t_pos := S (t_pos s); t_outpos := (t_outpos s + k)%nat; t_eof := eof |},
                 firstn k (skipn (t_outpos s) (zt_out (t_tab s))))
  end.

Definition tab_init (t31 t15 traw : ztab) (w : wbits) : tst :=
  {| t_tab := match w with W31 => t31 | W15 => t15 | WRaw => traw end;
     t_pos := 0; t_outpos := 0; t_eof := false |}.

Definition tab_run (t31 t15 traw : ztab) (k : kind) (pieces : list (list N)) : option (list N) :=
  run tst (tab_init t31 t15 traw) tab_step t_eof (fun _ => []) k pieces.
