(* Executable model of wpull/url.py: URLInfo.parse, parse_authority / parse_host /
   parse_hostname / parse_ipv6_hostname / parse_userinfo, normalize_hostname,
   parse_ipv4_int, normalize_ipv4_address, normalize_path / query / fragment /
   username / password, percent_encode(_plus), uppercase_percent_encoding,
   flatten_path, the accessors url, query_map, hostname_with_port,
   is_port_default, is_ipv6, split_path, and parse_url_or_log.

   Line-by-line transcription of the decision logic of the code as it is in the
   tree under check (with the fix: commits for F01-F04 and the user-info fixes).
   Library calls (DESIGN 1.2):
     - str.strip / partition / rpartition / find / split / join / count / slicing,
       ASCII lower/upper, UTF-8, int() on ASCII text, the ASCII fast path of the
       idna codec, '{}'.format(int): concrete (Model/UrlLib.v);
     - any other codec [enc], str.lower on non-ASCII text [lower_o], the non-ASCII
       path of the idna codec [idna_o], IPv6Address(..).compressed [ipv6_o], int()
       on non-ASCII text [int_o], urllib.parse.unquote on text containing '%'
       [unq_o]: Section variables (oracles).
   Every way a primitive can fail has its own kind; try/except is a match on the
   kind.  Definitions only. *)
From Coq Require Import List NArith ZArith Bool.
From Wpull Require Import Model.UrlLib.
Import ListNotations.
Open Scope N_scope.

Inductive ekind :=
  | ValueErr          (* ValueError raised directly *)
  | UnicodeErr        (* UnicodeError / UnicodeEncodeError / UnicodeDecodeError *)
  | AddressValueErr   (* ipaddress.AddressValueError *)
  | LookupErr | IndexErr | KeyErr | AssertErr | RecursionErr | TypeErr | AttributeErr.

(* the class hierarchy: which kinds are caught by "except ValueError"
   (checked against issubclass() of the running interpreter on every run) *)
Definition is_value_error (k : ekind) : bool :=
  match k with ValueErr | UnicodeErr | AddressValueErr => true | _ => false end.

Inductive result (A : Type) := Ok (a : A) | Err (k : ekind).
Arguments Ok {A} a.
Arguments Err {A} k.

Definition bind {A B} (r : result A) (f : A -> result B) : result B :=
  match r with Ok a => f a | Err k => Err k end.
Notation "'do' x <- r ; f" := (bind r (fun x => f)) (at level 200, x pattern, r at level 100, f at level 200).

(* ---------- constants of url.py ---------- *)
Definition s_http : str := [104; 116; 116; 112].
Definition s_https : str := [104; 116; 116; 112; 115].
Definition s_ftp : str := [102; 116; 112].
Definition s_gopher : str := [103; 111; 112; 104; 101; 114].
Definition s_ws : str := [119; 115].
Definition s_wss : str := [119; 115; 115].
Definition s_localhost : str := [108; 111; 99; 97; 108; 104; 111; 115; 116].

(* RELATIVE_SCHEME_DEFAULT_PORTS *)
Definition default_port (scheme : str) : option N :=
  if str_eqb scheme s_ftp then Some 21
  else if str_eqb scheme s_gopher then Some 70
  else if str_eqb scheme s_http then Some 80
  else if str_eqb scheme s_https then Some 443
  else if str_eqb scheme s_ws then Some 80
  else if str_eqb scheme s_wss then Some 443
  else None.

Definition default_encode_set : str := [32; 34; 35; 60; 62; 63; 96].          (* space dquote # < > ? backtick *)
Definition password_encode_set : str := default_encode_set ++ [47; 64; 92; 37]. (* | slash @ backslash percent *)
Definition username_encode_set : str := password_encode_set ++ [58].          (* | colon *)
Definition query_encode_set : str := [34; 35; 60; 62; 96].                    (* dquote # < > backtick *)
Definition fragment_encode_set : str := [32; 34; 60; 62; 96].                 (* space dquote < > backtick *)
Definition forbidden_hostname_chars : str := [35; 37; 47; 58; 63; 64; 91; 92; 93; 32]. (* # percent / : ? @ [ backslash ] space *)

(* ---------- flatten_path ---------- *)
Definition s_dot : str := [46].
Definition s_dotdot : str := [46; 46].
Definition s_slash : str := [47].

(* the loop over the parts; [stack] is new_parts reversed *)
Fixpoint flatten_parts (fs : bool) (parts : list str) (stack : list str) : list str :=
  match parts with
  | [] => stack
  | part :: rest =>
      if str_eqb part s_dot || (fs && is_nil part) then flatten_parts fs rest stack
      else if negb (str_eqb part s_dotdot) then flatten_parts fs rest (part :: stack)
      else flatten_parts fs rest (tl stack)
  end.

Definition flatten_path (fs : bool) (path : str) : str :=
  if is_nil path || str_eqb path s_slash then s_slash
  else
    let path1 := match path with 47 :: r => r | _ => path end in
    let new_parts := rev (flatten_parts fs (split_on 47 path1) []) in
    let new_parts := if (fs && last_is path1 47) || is_nil new_parts then new_parts ++ [[]] else new_parts in
    join s_slash ([] :: new_parts).

(* ---------- percent_encode on an already encoded byte string ---------- *)
Definition pe_byte (set : str) (b : N) : str :=
  if (b <? 32) || (126 <? b) || memb b set
  then [37; hex_upper_digit (b / 16); hex_upper_digit (b mod 16)]
  else [b].
Definition pe_bytes (set : str) (bs : list N) : str := flat_map (pe_byte set) bs.

(* uppercase_percent_encoding: re.sub(r'%[a-fA-F0-9][a-fA-F0-9]', upper) scans left to
   right, matches do not overlap *)
Fixpoint upper_pe (s : str) : str :=
  match s with
  | [] => []
  | x :: r =>
      if x =? 37 then
        match r with
        | a :: b :: r2 =>
            if is_hex a && is_hex b then 37 :: upper_c a :: upper_c b :: upper_pe r2
            else 37 :: upper_pe r
        | _ => 37 :: upper_pe r
        end
      else x :: upper_pe r
  end.

(* urllib.parse.unquote_to_bytes on ASCII text: '%' followed by two hex digits (either
   case) is that byte, any other '%' stays (stdlib, not wpull code; used by the C10
   proof of the user-info round trip and compared with the real function on every run) *)
Definition hexv (c : N) : N :=
  if (48 <=? c) && (c <=? 57) then c - 48 else if (97 <=? c) && (c <=? 102) then c - 87 else c - 55.
Fixpoint unescape (s : str) : list N :=
  match s with
  | [] => []
  | x :: r =>
      if x =? 37 then
        match r with
        | a :: b :: r2 =>
            if is_hex a && is_hex b then (16 * hexv a + hexv b) :: unescape r2
            else 37 :: unescape r
        | _ => 37 :: unescape r
        end
      else x :: unescape r
  end.

(* ---------- int / IPv4 ---------- *)
Section WithOracles.

Variable enc : str -> option (list N).        (* text.encode(encoding); None = UnicodeEncodeError *)
Variable lower_o : str -> str.                (* str.lower() on text with non-ASCII characters *)
Variable idna_o : str -> option str.          (* non-ASCII path of text.encode('idna'); None = UnicodeError *)
Variable ipv6_o : str -> option str.          (* ipaddress.IPv6Address(text).compressed; None = AddressValueError *)
Variable int_o : N -> str -> option Z.        (* int(text, base) on text with non-ASCII characters; None = ValueError *)
Variable unq_o : str -> str.                  (* urllib.parse.unquote(text, encoding, 'replace') when '%' in text *)

Definition py_lower (s : str) : str := if all_ascii s then lower_ascii s else lower_o s.
Definition py_int (base : N) (s : str) : option Z :=
  if all_ascii s then py_int_ascii base s else int_o base s.

Definition percent_encode (set : str) (text : str) : result str :=
  match enc text with
  | None => Err UnicodeErr
  | Some bs => Ok (pe_bytes set bs)
  end.

Definition percent_encode_plus (set : str) (text : str) : result str :=
  if negb (memb 32 text) then percent_encode set text
  else do r <- percent_encode set text; Ok (replace1 32 43 r).

Definition normalize_path (path : str) : result str :=
  let path := if startswith path s_slash then path else 47 :: path in
  do p <- percent_encode default_encode_set (flatten_path true path);
  Ok (upper_pe p).

Definition normalize_query (text : str) : result str :=
  do p <- percent_encode_plus query_encode_set text; Ok (upper_pe p).

Definition normalize_fragment (text : str) : result str :=
  do p <- percent_encode fragment_encode_set text; Ok (upper_pe p).

(* normalize_username / normalize_password, called with encoding=<enc> by parse and by
   the url property *)
Definition normalize_userpart (set : str) (text : str) : result str :=
  do p <- percent_encode set text; Ok (upper_pe p).

Definition percent_decode (text : str) : str :=
  if negb (memb 37 text) then text else unq_o text.

(* parse_ipv4_int *)
Definition parse_ipv4_int (text : str) : option Z :=
  if startswith text [48; 120] then py_int 16 text
  else if startswith text [48] then py_int 8 text
  else py_int 10 text.

(* ipaddress.IPv4Address(n).compressed; None = AddressValueError *)
Definition ipv4_compressed (n : Z) : option str :=
  if ((0 <=? n) && (n <? 4294967296))%Z then
    let m := Z.to_N n in
    Some (dec_of_N (m / 16777216) ++ [46] ++ dec_of_N ((m / 65536) mod 256) ++ [46]
          ++ dec_of_N ((m / 256) mod 256) ++ [46] ++ dec_of_N (m mod 256))
  else None.

Fixpoint ipv4_sum (parts : list str) (shift : Z) (acc : Z) : option Z :=
  match parts with
  | [] => Some acc
  | p :: r => match parse_ipv4_int p with
              | None => None
              | Some v => ipv4_sum r (shift - 8) (acc + Z.shiftl v shift)
              end
  end.

(* normalize_ipv4_address; None = ValueError (incl. AddressValueError) - the only
   caller catches ValueError *)
Definition normalize_ipv4_address (address : str) : option str :=
  match count 46 address with
  | 0%nat => match parse_ipv4_int address with
             | None => None
             | Some n => ipv4_compressed n
             end
  | 3%nat => match ipv4_sum (split_on 46 address) 24 0 with
             | None => None
             | Some n => ipv4_compressed n
             end
  | _ => None
  end.

(* ---------- idna / hostname ---------- *)
Definition label_lt64 (l : str) : bool := Nat.ltb (length l) 64.
Fixpoint idna_labels_ok (labels : list str) : bool :=
  match labels with
  | [] => true
  | [l] => label_lt64 l                                   (* the last label may be empty *)
  | l :: r => negb (is_nil l) && label_lt64 l && idna_labels_ok r
  end.

(* text.encode('idna'); None = UnicodeError *)
Definition idna_encode (s : str) : option str :=
  if is_nil s then Some []
  else if all_ascii s then (if idna_labels_ok (split_on 46 s) then Some s else None)
  else idna_o s.

Definition normalize_hostname (hostname : str) : result str :=
  match idna_encode hostname with
  | None => Err UnicodeErr
  | Some r =>
      if negb (all_ascii r) then Err UnicodeErr        (* .decode('ascii') *)
      else
        let new_hostname := lower_ascii r in
        if str_eqb hostname new_hostname then Ok new_hostname
        else match idna_encode new_hostname with           (* round-trip check *)
             | None => Err UnicodeErr
             | Some _ => Ok new_hostname
             end
  end.

Definition parse_ipv6_hostname (hostname : str) : result str :=
  if negb (startswith hostname [91]) || negb (last_is hostname 93) then Err ValueErr
  else
    let inner := removelast (tl hostname) in              (* hostname[1:-1] *)
    if memb 37 inner then Err ValueErr                    (* zone identifiers are rejected *)
    else match ipv6_o inner with
         | None => Err AddressValueErr
         | Some c => Ok c
         end.

Definition parse_hostname (hostname : str) : result str :=
  if startswith hostname [91] then parse_ipv6_hostname hostname
  else
    do h <- normalize_hostname hostname;
    let h2 := match normalize_ipv4_address h with
              | Some a => a
              | None => h                                  (* except ValueError: keep *)
              end in
    if existsb (fun c => memb c h2) forbidden_hostname_chars then Err ValueErr
    else Ok h2.

(* parse_host: (hostname, port) ; port None = absent *)
Definition parse_host (host : str) : result (str * option N) :=
  if last_is host 93 then
    do h <- parse_hostname host; Ok (h, None)
  else
    match rpartition 58 host with
    | Some (hostname, port) =>
        match py_int 10 port with
        | None => Err ValueErr
        | Some p =>
            if ((p <? 0) || (65535 <? p))%Z then Err ValueErr
            else do h <- parse_hostname hostname; Ok (h, Some (Z.to_N p))
        end
    | None => do h <- parse_hostname host; Ok (h, None)
    end.

Definition parse_authority (authority : str) : str * str :=
  let '(userinfo, sep, host) := partition 64 authority in
  if sep then (userinfo, host) else ([], userinfo).

Definition parse_userinfo (userinfo : str) : str * str :=
  let '(username, _, password) := partition 58 userinfo in (username, password).

(* ---------- URLInfo ---------- *)
Record urlinfo := {
  u_network : bool;       (* scheme in RELATIVE_SCHEME_DEFAULT_PORTS; when false every
                             attribute except raw, scheme, path is None in Python *)
  u_raw : str; u_scheme : str; u_authority : str; u_path : str; u_query : str; u_fragment : str;
  u_userinfo : str; u_username : str; u_password : str; u_host : str; u_hostname : str;
  u_port : N; u_resource : str }.

Definition min_found (l : list (option nat)) (dflt : nat) : nat :=
  match fold_right (fun o acc => match o, acc with
                                 | Some a, Some b => Some (Nat.min a b)
                                 | Some a, None => Some a
                                 | None, _ => acc
                                 end) None l with
  | Some m => m
  | None => dflt           (* min() of an empty sequence: ValueError, caught *)
  end.

(* scheme detection of URLInfo.parse (url.py:133-151), default_scheme='http':
   (scheme, remaining); None = ValueError('URL missing scheme') *)
Definition split_scheme (url : str) : option (str * str) :=
  let '(scheme0, sep, remaining0) := partition 58 url in
  if is_nil scheme0 then None
  else
    let scheme1 := py_lower scheme0 in
    let '(remaining1, scheme2) := if negb sep then (url, s_http) else (remaining0, scheme1) in
    if memb 46 scheme2 || str_eqb scheme2 s_localhost
    then Some (s_http, scheme2 ++ [58] ++ remaining1)
    else Some (scheme2, remaining1).

(* the component split (url.py:166-193): authority, resource, path, query, fragment *)
Definition split_remaining (remaining : str) : str * str * str * str * str :=
  let path_index := find_idx 47 remaining in
  let query_index := find_idx 63 remaining in
  let fragment_index := find_idx 35 remaining in
  let len := length remaining in
  let authority_index := min_found [path_index; query_index; fragment_index] len in
  let authority := firstn authority_index remaining in
  let resource := skipn authority_index remaining in
  let path_index2 := min_found [query_index; fragment_index] len in
  let path0 := slice (S authority_index) path_index2 remaining in
  let path := if is_nil path0 then s_slash else path0 in
  let query_index2 := match fragment_index with Some i => i | None => len end in
  let query := slice (S path_index2) query_index2 remaining in
  let fragment := skipn (S query_index2) remaining in
  (authority, resource, path, query, fragment).

(* the network-scheme part of URLInfo.parse (url.py:163-225) *)
Definition parse_network (url scheme : str) (dport : N) (remaining2 : str) : result urlinfo :=
  let remaining := if startswith remaining2 [47; 47] then skipn 2 remaining2 else remaining2 in
  let '(authority, resource, path, query, fragment) := split_remaining remaining in
  let '(userinfo, host) := parse_authority authority in
  do hp <- parse_host host;
  let '(hostname, port) := hp in
  let '(username, password) := parse_userinfo userinfo in
  if is_nil hostname then Err ValueErr
  else
    do npath <- normalize_path path;
    do nquery <- normalize_query query;
    do nfragment <- normalize_fragment fragment;
    let uname := percent_decode username in
    let pword := percent_decode password in
    (* the user-info must be encodable by the url property: checked here *)
    do _ <- normalize_userpart username_encode_set uname;
    do _ <- normalize_userpart password_encode_set pword;
    Ok {| u_network := true; u_raw := url; u_scheme := scheme; u_authority := authority;
          u_path := npath; u_query := nquery; u_fragment := nfragment;
          u_userinfo := userinfo; u_username := uname; u_password := pword;
          u_host := host; u_hostname := hostname;
          u_port := match port with
                    | Some p => if p =? 0 then dport else p     (* port or DEFAULT[scheme] *)
                    | None => dport
                    end;
          u_resource := resource |}.

(* URLInfo.parse(url, default_scheme='http', encoding=<enc>) *)
Definition parse (url0 : str) : result urlinfo :=
  let url := strip url0 in
  if existsb (fun c => c <? 32) url then Err ValueErr
  else
    match split_scheme url with
    | None => Err ValueErr
    | Some (scheme, remaining2) =>
        match default_port scheme with
        | None =>
            Ok {| u_network := false; u_raw := url; u_scheme := scheme; u_authority := []; u_path := remaining2;
                  u_query := []; u_fragment := []; u_userinfo := []; u_username := []; u_password := [];
                  u_host := []; u_hostname := []; u_port := 0; u_resource := [] |}
        | Some dport => parse_network url scheme dport remaining2
        end
    end.

(* ---------- accessors ---------- *)
Definition is_ipv6 (i : urlinfo) : bool := startswith (u_host i) [91].

(* URLInfo.url *)
Definition url_of (i : urlinfo) : result str :=
  match default_port (u_scheme i) with
  | None => Ok (u_raw i)
  | Some dport =>
      do un <- (if is_nil (u_username i) then Ok [] else normalize_userpart username_encode_set (u_username i));
      do pw <- (if is_nil (u_password i) then Ok [] else
                  do p <- normalize_userpart password_encode_set (u_password i); Ok (58 :: p));
      let at_ := if is_nil (u_username i) && is_nil (u_password i) then [] else [64] in
      let host := if is_ipv6 i then [91] ++ u_hostname i ++ [93] else u_hostname i in
      let port := if dport =? u_port i then [] else 58 :: dec_of_N (u_port i) in
      let query := if is_nil (u_query i) then [] else 63 :: u_query i in
      Ok (u_scheme i ++ [58; 47; 47] ++ un ++ pw ++ at_ ++ host ++ port ++ u_path i ++ query)
  end.

(* URLInfo.hostname_with_port *)
Definition hostname_with_port (i : urlinfo) : result str :=
  match default_port (u_scheme i) with
  | None => Ok []
  | Some dport =>
      if memb 91 (u_hostname i) || memb 93 (u_hostname i) then Err AssertErr
      else
        let hostname := if is_ipv6 i then [91] ++ u_hostname i ++ [93] else u_hostname i in
        if dport =? u_port i then Ok hostname else Ok (hostname ++ 58 :: dec_of_N (u_port i))
  end.

(* URLInfo.is_port_default: None (not a network scheme) / Some bool *)
Definition is_port_default (i : urlinfo) : option bool :=
  match default_port (u_scheme i) with
  | None => None
  | Some dport => Some (dport =? u_port i)
  end.

(* split_query(text, keep_blank_values=True) and query_to_map: keys in first-seen
   order, each with its values in order *)
Fixpoint map_add (k v : str) (m : list (str * list str)) : list (str * list str) :=
  match m with
  | [] => [(k, [v])]
  | (k', vs) :: r => if str_eqb k k' then (k', vs ++ [v]) :: r else (k', vs) :: map_add k v r
  end.

Definition query_to_map (text : str) : list (str * list str) :=
  fold_left (fun m pair =>
               let '(name, delim, value) := partition 61 pair in
               map_add name (if delim && negb (is_nil value) then replace1 43 32 value else []) m)
            (split_on 38 text) [].

(* URLInfo.query_map: None for a non-network URL (query is None) *)
Definition query_map (i : urlinfo) : result (option (list (str * list str))) :=
  if u_network i then Ok (Some (query_to_map (u_query i))) else Ok None.

(* posixpath.split(path) *)
Fixpoint rstrip_c (c : N) (s : str) : str :=
  match s with
  | [] => []
  | x :: r => match rstrip_c c r with
              | [] => if x =? c then [] else [x]
              | r' => x :: r'
              end
  end.
Definition split_path (i : urlinfo) : str * str :=
  let p := u_path i in
  match rpartition 47 p with
  | None => ([], p)
  | Some (a, tail) =>
      let head := a ++ [47] in
      (if forallb (fun c => c =? 47) head then head else rstrip_c 47 head, tail)
  end.

(* parse_url_or_log: try: URLInfo.parse except ValueError: log, return None *)
Definition parse_url_or_log (url : str) : result (option urlinfo) :=
  match parse url with
  | Ok i => Ok (Some i)
  | Err k => if is_value_error k then Ok None else Err k
  end.

End WithOracles.

(* ---------- wpull.url.urljoin / wpull.scraper.util.urljoin_safe ---------- *)
Section Join.
(* urllib.parse.urljoin(base_url, url, allow_fragments=...) *)
Variable lib_urljoin : str -> str -> result str.

Definition urljoin (base_url url : str) : result str :=
  if startswith url [47; 47] && Nat.ltb 2 (length url) then
    let '(scheme, _, _) := partition 58 base_url in
    if negb (is_nil scheme) then lib_urljoin base_url (scheme ++ [58] ++ url)
    else lib_urljoin base_url url
  else lib_urljoin base_url url.

(* try: urljoin except ValueError: log, return None *)
Definition urljoin_safe (base_url url : str) : result (option str) :=
  match urljoin base_url url with
  | Ok s => Ok (Some s)
  | Err k => if is_value_error k then Ok None else Err k
  end.
End Join.
