(* Executable model of the journalled append of wpull/warc/recorder.py
   (WARCRecorder.write_record lines 326-360, _check_journals_and_maybe_raise,
   _generate_warc_filename) over Lib/FsModel.  Definitions only.

   Models the code AFTER the three fix commits of this property:
     - rollback opens the archive 'r+b' (was 'wb': emptied it)            [F13]
     - the journal is created inside the try block (was before it: an I/O
       error while writing the journal left it behind)
     - the start-up check compares directory entries by prefix/suffix (was
       glob.glob(prefix + '*-wpullinc'): '[' in the prefix hid the journal)
     - the journal is kept when the rollback itself fails (was removed in a
       finally clause: two I/O errors left junk behind the last record and no
       journal).

   write_record, as primitive file operations (what reaches the OS):

     before_offset = getsize(A) if exists(A) else 0
     try:
         open(J,'w'); write J "wpull-journal-version:1\noffset:<n>\n"; close J
         open(A,'ab'); write A c1 ... write A cn; close A      (gzip or plain:
                       the chunks are whatever the io stack flushes, in order)
     except OSError:
         open(A,'r+b') (FileNotFoundError: nothing to cut); truncate A before_offset; close A
         os.remove(J); re-raise         -- only when the rollback did not itself fail
     (no error)
         os.remove(J)                                                       *)
From Coq Require Import List NArith Bool String Ascii.
From Wpull Require Import Lib.Decimal Lib.FsModel.
Import ListNotations.
Open Scope N_scope.
Open Scope bool_scope.

Fixpoint str (s : string) : list N :=
  match s with
  | EmptyString => []
  | String a r => N_of_ascii a :: str r
  end.

Definition wpullinc : list N := Eval cbv in str "-wpullinc".
Definition journal_head : list N :=
  Eval cbv in (str "wpull-journal-version:1" ++ [10] ++ str "offset:").

Definition journal_name (A : name) : name := A ++ wpullinc.

(* 'wpull-journal-version:1\n' + 'offset:{}\n'.format(before_offset) *)
Definition journal_bytes (off : N) : bytes := journal_head ++ dec off ++ [10].

Fixpoint strip_prefix (p l : list N) : option (list N) :=
  match p, l with
  | [], _ => Some l
  | x :: p', y :: l' => if x =? y then strip_prefix p' l' else None
  | _ :: _, [] => None
  end.

(* an independent strict reader of a journal file: Some off iff the file is
   exactly a complete version-1 journal naming offset off *)
Definition parse_journal (c : bytes) : option N :=
  match strip_prefix journal_head c with
  | None => None
  | Some r => match rev r with
              | 10 :: d => undec (rev d)
              | _ => None
              end
  end.

Definition main_ops (A : name) (off : N) (chunks : list bytes) : list op :=
  [Create (journal_name A); Write (journal_name A) (journal_bytes off); Close (journal_name A);
   OpenAppend A] ++ map (Write A) chunks ++ [Close A].

Definition rollback_ops (A : name) (off : N) : list op :=
  [OpenRW A; Truncate A off; Close A].

Definition final_ops (A : name) : list op := [Unlink (journal_name A)].

Inductive result := Completed (s : fs) | Raised (s : fs) | Crashed (s : fs).

(* open(A, 'r+b') of a file that does not exist is answered FileNotFoundError, which the handler
   takes as "nothing to cut": one primitive without effect, not an error of the rollback *)
Definition rollback_for (A : name) (off : N) (s1 : fs) : list op :=
  if exists_file s1 A then rollback_ops A off else [Close A].

(* [flt]: the injected fault of the main path, addressed by primitive number (the main
   path and the final unlink are numbered 0 .. length main_ops);
   [flt2]: a further injected fault while the error handler runs (rollback, unlink),
   addressed like [crash] by the number of the executed primitive;
   [crash]: the process dies at the g-th executed primitive (any phase). *)
Definition write_record2 (A : name) (chunks : list bytes) (flt flt2 crash : option interrupt) (s : fs)
  : result :=
  let off := size s A in
  match run_phase (main_ops A off chunks) 0 flt crash s with
  | (s1, EndCrash, _) => Crashed s1
  | (s1, EndOk, n1) =>
      match run_phase (final_ops A) n1 flt crash s1 with
      | (s2, EndCrash, _) => Crashed s2
      | (s2, EndOk, _) => Completed s2
      | (s2, EndErr, _) => Raised s2
      end
  | (s1, EndErr, n1) =>
      match run_phase (rollback_for A off s1) n1 flt2 crash s1 with
      | (s2, EndCrash, _) => Crashed s2
      | (s2, EndErr, _) => Raised s2          (* the rollback failed: the journal is kept *)
      | (s2, EndOk, n2) =>
          match run_phase (final_ops A) n2 flt2 crash s2 with
          | (s3, EndCrash, _) => Crashed s3
          | (s3, _, _) => Raised s3
          end
      end
  end.

(* at most one injected fault *)
Definition write_record (A : name) (chunks : list bytes) (flt crash : option interrupt) (s : fs) : result :=
  write_record2 A chunks flt None crash s.

(* ---- a whole run of the recorder: appends one after another ----
   Each attempt has its own chunking and its own (at most one) injected fault; the
   recorder carries on after an OSError (the caller of write_record decides), so the
   next append starts from whatever directory the previous one left. *)
Definition state_of (r : result) : fs :=
  match r with Completed s | Raised s | Crashed s => s end.

Definition attempt := (list bytes * option interrupt)%type.

Fixpoint run_history (A : name) (h : list attempt) (s : fs) : fs :=
  match h with
  | [] => s
  | (chunks, flt) :: r => run_history A r (state_of (write_record A chunks flt None s))
  end.

(* number of primitives before the final unlink: create J, write J, close J, open A, writes, close A *)
Definition n_main (chunks : list bytes) : nat := 5 + List.length chunks.

(* the record of this attempt is in the archive afterwards: no fault, or a fault that
   came only at (or was planned after) the final unlink of the journal *)
Definition survives (e : attempt) : bool :=
  match snd e with
  | None => true
  | Some (Intr k _ _) => Nat.leb (n_main (fst e)) k
  end.

(* the attempt leaves no journal behind: every case except an error of the unlink itself that
   did not take effect *)
Definition clean (e : attempt) : bool :=
  match snd e with
  | None => true
  | Some (Intr k d _) => negb (Nat.eqb k (n_main (fst e))) || d
  end.

(* ---- file names (_generate_warc_filename) ---- *)
Definition s_meta : list N := Eval cbv in str "-meta".
Definition s_warc : list N := Eval cbv in str ".warc".
Definition s_warc_gz : list N := Eval cbv in str ".warc.gz".

(* max_size is None -> '' ; meta -> '-meta' ; else '-{0:05d}'.format(sequence_num) *)
Definition seq_name (sized meta : bool) (seq : N) : list N :=
  if negb sized then [] else if meta then s_meta else 45 :: dec_pad 5 seq.

Definition warc_filename (prefix : name) (sized meta : bool) (seq : N) (compress : bool) : name :=
  prefix ++ seq_name sized meta seq ++ (if compress then s_warc_gz else s_warc).

(* ---- start-up check (_check_journals_and_maybe_raise, fixed) ----
   dir, base = os.path.split(prefix); any name in listdir(dir) with
   name.startswith(base) and name.endswith('-wpullinc').
   Keys of [fs] are the path strings the recorder builds (prefix ++ rest): a key
   names an entry of that directory with that base prefix iff it extends
   [prefix] without a further '/'. *)
Definition has_slash (l : list N) : bool := existsb (N.eqb 47) l.

Definition endswith (sfx l : list N) : bool :=
  match strip_prefix (rev sfx) (rev l) with Some _ => true | None => false end.

Definition is_journal_for (prefix f : name) : bool :=
  match strip_prefix prefix f with
  | Some rest => negb (has_slash rest) && endswith wpullinc f
  | None => false
  end.

Definition journals_present (prefix : name) (s : fs) : bool :=
  existsb (fun e => is_journal_for prefix (fst e)) s.

Inductive start_result := StartRefused (* OSError('WARC file ... is incomplete.') *) | StartOk.

Definition new_recorder_check (prefix : name) (s : fs) : start_result :=
  if journals_present prefix s then StartRefused else StartOk.

(* ---- WARCRecorder.__init__ (log off, no cdx): start-up check first, then _start_new_warc_file ----
     _check_journals_and_maybe_raise()
     if max_size and appending: skip sequence numbers whose file exists
     if not appending: truncate_file(A)         (open(A, 'wb'))
     write_record(warcinfo)                                                   *)
Fixpoint next_seq (fuel : nat) (prefix : name) (compress : bool) (s : fs) (seq : N) : N :=
  match fuel with
  | O => seq
  | S f => if exists_file s (warc_filename prefix true false seq compress)
           then next_seq f prefix compress s (seq + 1) else seq
  end.

Definition init_filename (prefix : name) (sized compress appending : bool) (s : fs) : name :=
  let seq := if sized && appending then next_seq (S (List.length s)) prefix compress s 0 else 0 in
  warc_filename prefix sized false seq compress.

Definition recorder_init (prefix : name) (sized compress appending : bool) (info : list bytes)
           (flt crash : option interrupt) (s : fs) : start_result * result :=
  match new_recorder_check prefix s with
  | StartRefused => (StartRefused, Raised s)
  | StartOk =>
      let A := init_filename prefix sized compress appending s in
      let s1 := if appending then s else set s A [] in
      (StartOk, write_record A info flt crash s1)
  end.

(* ---- comparison helpers for the correspondence harness (definitions only) ---- *)
Definition fs_sub (a b : fs) : bool :=
  forallb (fun e => match lookup b (fst e) with Some c => leqb c (snd e) | None => false end) a.

(* same files with the same contents, order irrelevant (keys are unique on both sides) *)
Definition fs_eqb (a b : fs) : bool := fs_sub a b && fs_sub b a && Nat.eqb (List.length a) (List.length b).

Definition init_eqb (r : start_result * result) (refused : bool) (expected : fs) : bool :=
  match r with
  | (StartRefused, Raised s) => refused && fs_eqb s expected
  | (StartOk, Completed s) => negb refused && fs_eqb s expected
  | _ => false
  end.

Definition result_eqb (r : result) (kind : N) (expected : fs) : bool :=
  match r, kind with
  | Completed s, 0 => fs_eqb s expected
  | Raised s, 1 => fs_eqb s expected
  | Crashed s, 2 => fs_eqb s expected
  | _, _ => false
  end.

(* primitive kinds and targets as small numbers: (kind, 0 = archive / 1 = journal / 2 = other) *)
Definition op_code (A : name) (o : op) : N * N :=
  let t f := if leqb f A then 0 else if leqb f (journal_name A) then 1 else 2 in
  match o with
  | Create f => (0, t f) | OpenAppend f => (1, t f) | Write f _ => (2, t f) | Close f => (3, t f)
  | OpenRW f => (4, t f) | Truncate f _ => (5, t f) | Unlink f => (6, t f)
  end.

Fixpoint codes_eqb (a b : list (N * N)) : bool :=
  match a, b with
  | [], [] => true
  | (x1, x2) :: a', (y1, y2) :: b' => (x1 =? y1) && (x2 =? y2) && codes_eqb a' b'
  | _, _ => false
  end.

(* the primitives of a fault-free append, in order *)
Definition append_trace (A : name) (s : fs) (chunks : list bytes) : list (N * N) :=
  map (op_code A) (main_ops A (size s A) chunks ++ final_ops A).

(* the primitives executed after a fault: rollback, then finally *)
Definition rollback_trace (A : name) (s : fs) : list (N * N) :=
  map (op_code A) (rollback_for A (size s A) s ++ final_ops A).
