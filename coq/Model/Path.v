(* Executable model of wpull/path.py (PathNamer.get_filename, url_to_filename,
   url_to_dir_parts, PercentEncoder, safe_filename, parse_content_disposition,
   anti_clobber_dir_path) and of the file-name decisions of wpull/writer.py
   (_compute_filename, _rename_with_content_disposition, the anti-clobber
   numbering).  Definitions only; line-by-line transcription of the decision
   logic of the code as it is AFTER the F05 repair ('{0}%{1:02X}' with ord()).

   Text is [list N] (code points), byte strings are [list N] (< 256).

   Inputs.  path.py calls urllib.parse.urlsplit(url_info.url) and reads the
   attributes scheme / hostname / port / path / query of the result, plus
   url.endswith('/') and url_info.scheme == 'ftp'.  urlsplit is library code:
   the model takes exactly these seven values as INDEPENDENT inputs (record
   [urlparts]); the theorems hold for all of them, not only for combinations a
   URL parser can produce.  The harness obtains them from the real urlsplit.

   Library pieces.  Modelled concretely (small, property depends on them):
   UTF-8 encode, strict UTF-8 decode, UTF-8 decode with errors='replace'
   (CPython's maximal-subpart rule), urllib.parse.unquote, str.split('/'),
   str.partition, str.strip, int -> decimal, posixpath.join/dirname/normpath,
   the two regular expressions of parse_content_disposition.
   Oracles (Section variables; facts are hypotheses of the theorems):
   hashlib.sha1(b).hexdigest(), str.lower, str.upper, os.path.isfile / isdir /
   exists. *)
From Coq Require Import List NArith ZArith Bool.
Import ListNotations.
Open Scope N_scope.
Open Scope bool_scope.

Definition str := list N.

Inductive error :=
| EUnicodeEncode      (* str.encode('utf8') met a lone surrogate *)
| EUnicodeDecode      (* bytes.decode('utf8') (strict) failed *)
| EIndex              (* ''[-1] *)
| ENoneType           (* None reached unquote() / safe_filename() (assert / TypeError) *)
| EValue.             (* ValueError from urllib.parse.urlsplit / SplitResult.port *)

Inductive result (A : Type) :=
| Ok (a : A)
| Err (e : error).
Arguments Ok {A} a.
Arguments Err {A} e.

Definition bind {A B} (r : result A) (f : A -> result B) : result B :=
  match r with Ok a => f a | Err e => Err e end.

Fixpoint map_result {A B} (f : A -> result B) (l : list A) : result (list B) :=
  match l with
  | [] => Ok []
  | x :: r =>
      match f x with
      | Err e => Err e
      | Ok y => match map_result f r with Err e => Err e | Ok ys => Ok (y :: ys) end
      end
  end.

(* ---------------------------------------------------------------- *)
(* small string operations                                           *)
(* ---------------------------------------------------------------- *)
Fixpoint str_eqb (a b : str) : bool :=
  match a, b with
  | [], [] => true
  | x :: a', y :: b' => (x =? y) && str_eqb a' b'
  | _, _ => false
  end.

Definition is_nil {A} (l : list A) : bool := match l with [] => true | _ => false end.

(* s.split(sep) for a one-character separator: never the empty list *)
Fixpoint split_on (sep : N) (s : str) : list str :=
  match s with
  | [] => [[]]
  | c :: r =>
      if c =? sep then [] :: split_on sep r
      else match split_on sep r with
           | h :: t => (c :: h) :: t
           | [] => [[c]]
           end
  end.

(* s.partition(sep)[0] *)
Fixpoint before_first (sep : N) (s : str) : str :=
  match s with
  | [] => []
  | c :: r => if c =? sep then [] else c :: before_first sep r
  end.

Fixpoint last_opt {A} (l : list A) : option A :=
  match l with
  | [] => None
  | [x] => Some x
  | _ :: r => last_opt r
  end.

Definition ends_with_char (c : N) (s : str) : bool :=
  match last_opt s with Some x => x =? c | None => false end.

(* int -> decimal text ('{}'.format(n) for n >= 0) *)
Fixpoint dec_digits (fuel : nat) (n : N) (acc : str) : str :=
  match fuel with
  | O => acc
  | S f =>
      let acc' := (48 + n mod 10) :: acc in
      if n / 10 =? 0 then acc' else dec_digits f (n / 10) acc'
  end.
Definition N_to_dec (n : N) : str := dec_digits (S (N.size_nat n)) n [].

(* ---------------------------------------------------------------- *)
(* UTF-8                                                             *)
(* ---------------------------------------------------------------- *)
Definition utf8_encode_char (c : N) : option (list N) :=
  if c <? 128 then Some [c]
  else if c <? 2048 then Some [192 + c / 64; 128 + c mod 64]
  else if c <? 65536 then
    if (55296 <=? c) && (c <=? 57343) then None       (* surrogates not allowed *)
    else Some [224 + c / 4096; 128 + (c / 64) mod 64; 128 + c mod 64]
  else if c <? 1114112 then
    Some [240 + c / 262144; 128 + (c / 4096) mod 64; 128 + (c / 64) mod 64; 128 + c mod 64]
  else None.                                            (* not a Python code point *)

Fixpoint utf8_encode (s : str) : option (list N) :=
  match s with
  | [] => Some []
  | c :: r =>
      match utf8_encode_char c, utf8_encode r with
      | Some a, Some b => Some (a ++ b)
      | _, _ => None
      end
  end.

Definition is_cont (b : N) : bool := (128 <=? b) && (b <=? 191).

(* bytes.decode('utf8'): strict; None = UnicodeDecodeError *)
Fixpoint utf8_decode (bs : list N) : option str :=
  match bs with
  | [] => Some []
  | b0 :: r0 =>
    if b0 <? 128 then option_map (cons b0) (utf8_decode r0)
    else if b0 <? 194 then None
    else if b0 <? 224 then
      match r0 with
      | b1 :: r1 =>
          if is_cont b1
          then option_map (cons ((b0 - 192) * 64 + (b1 - 128))) (utf8_decode r1)
          else None
      | [] => None
      end
    else if b0 <? 240 then
      match r0 with
      | b1 :: b2 :: r2 =>
          let cp := (b0 - 224) * 4096 + (b1 - 128) * 64 + (b2 - 128) in
          if is_cont b1 && is_cont b2 && (2048 <=? cp)
             && negb ((55296 <=? cp) && (cp <=? 57343))
          then option_map (cons cp) (utf8_decode r2)
          else None
      | _ => None
      end
    else if b0 <? 245 then
      match r0 with
      | b1 :: b2 :: b3 :: r3 =>
          let cp := (b0 - 240) * 262144 + (b1 - 128) * 4096 + (b2 - 128) * 64 + (b3 - 128) in
          if is_cont b1 && is_cont b2 && is_cont b3 && (65536 <=? cp) && (cp <=? 1114111)
          then option_map (cons cp) (utf8_decode r3)
          else None
      | _ => None
      end
    else None
  end.

(* bytes.decode('utf-8', 'replace') as CPython does it: every maximal invalid
   subpart becomes one U+FFFD and decoding resumes at the offending byte. *)
Definition FFFD : N := 65533.

Fixpoint utf8_decode_replace (bs : list N) : str :=
  match bs with
  | [] => []
  | b0 :: r0 =>
    if b0 <? 128 then b0 :: utf8_decode_replace r0
    else if (b0 <? 194) || (245 <=? b0) then FFFD :: utf8_decode_replace r0   (* invalid start byte *)
    else if b0 <? 224 then
      match r0 with
      | [] => [FFFD]                                                        (* unexpected end of data *)
      | b1 :: r1 =>
          if is_cont b1 then ((b0 - 192) * 64 + (b1 - 128)) :: utf8_decode_replace r1
          else FFFD :: utf8_decode_replace r0                                (* invalid continuation: lead byte only *)
      end
    else if b0 <? 240 then
      match r0 with
      | [] => [FFFD]
      | b1 :: r1 =>
          if negb (is_cont b1) || (if b1 <? 160 then b0 =? 224 else b0 =? 237)
          then FFFD :: utf8_decode_replace r0
          else match r1 with
               | [] => [FFFD]
               | b2 :: r2 =>
                   if is_cont b2
                   then ((b0 - 224) * 4096 + (b1 - 128) * 64 + (b2 - 128)) :: utf8_decode_replace r2
                   else FFFD :: utf8_decode_replace r1
               end
      end
    else
      match r0 with
      | [] => [FFFD]
      | b1 :: r1 =>
          if negb (is_cont b1) || (if b1 <? 144 then b0 =? 240 else b0 =? 244)
          then FFFD :: utf8_decode_replace r0
          else match r1 with
               | [] => [FFFD]
               | b2 :: r2 =>
                   if negb (is_cont b2) then FFFD :: utf8_decode_replace r1
                   else match r2 with
                        | [] => [FFFD]
                        | b3 :: r3 =>
                            if is_cont b3
                            then ((b0 - 240) * 262144 + (b1 - 128) * 4096 + (b2 - 128) * 64 + (b3 - 128))
                                   :: utf8_decode_replace r3
                            else FFFD :: utf8_decode_replace r2
                        end
               end
      end
  end.

(* ---------------------------------------------------------------- *)
(* urllib.parse.unquote(text)  (encoding='utf-8', errors='replace')  *)
(* ---------------------------------------------------------------- *)
Definition hexval (c : N) : option N :=
  if (48 <=? c) && (c <=? 57) then Some (c - 48)
  else if (65 <=? c) && (c <=? 70) then Some (c - 55)
  else if (97 <=? c) && (c <=? 102) then Some (c - 87)
  else None.

(* _unquote_impl on one ASCII run: '%' + two hex digits -> that byte *)
Fixpoint unquote_bytes (s : list N) : list N :=
  match s with
  | [] => []
  | c :: r =>
      if c =? 37 then
        match r with
        | h :: l :: r2 =>
            match hexval h, hexval l with
            | Some a, Some b => (a * 16 + b) :: unquote_bytes r2
            | _, _ => c :: unquote_bytes r
            end
        | _ => c :: unquote_bytes r
        end
      else c :: unquote_bytes r
  end.

Definition unquote_flush (acc_rev : list N) : str :=
  utf8_decode_replace (unquote_bytes (rev acc_rev)).

(* maximal ASCII runs are unquoted and decoded, non-ASCII characters are kept *)
Fixpoint unquote_go (acc_rev : list N) (s : str) : str :=
  match s with
  | [] => unquote_flush acc_rev
  | c :: r =>
      if c <? 128 then unquote_go (c :: acc_rev) r
      else unquote_flush acc_rev ++ c :: unquote_go [] r
  end.

Definition unquote (s : str) : str := unquote_go [] s.

(* ---------------------------------------------------------------- *)
(* configuration and input                                           *)
(* ---------------------------------------------------------------- *)
Inductive os_type := Unix | Windows.            (* the two values application/tasks/writer.py produces *)
Inductive case_mode := CaseNone | CaseLower | CaseUpper.

Record cfg := {
  use_dir : bool;
  cut : Z;                 (* self._cut or 0 *)
  protocol : bool;
  hostname_dir : bool;
  os : os_type;
  no_control : bool;
  ascii_only : bool;
  case : case_mode;
  max_len : Z;             (* max_filename_length; None is 0 (both falsy) *)
  index : str
}.

Record urlparts := {
  u_scheme : str;              (* urlsplit(url).scheme *)
  u_hostname : option str;     (* urlsplit(url).hostname  (None possible) *)
  u_port : option N;           (* urlsplit(url).port *)
  u_path : str;                (* urlsplit(url).path *)
  u_query : str;               (* urlsplit(url).query *)
  u_ends_slash : bool;         (* url.endswith('/') *)
  u_is_ftp : bool              (* url_info.scheme == 'ftp' *)
}.

Definition is_windows (c : cfg) : bool := match os c with Windows => true | Unix => false end.
Definition is_unix (c : cfg) : bool := match os c with Unix => true | Windows => false end.

(* ---------------------------------------------------------------- *)
(* PercentEncoder                                                    *)
(* ---------------------------------------------------------------- *)
(* the bytes literal of PercentEncoder: backslash | / : ? double-quote * < > *)
Definition win_special (b : N) : bool :=
  existsb (N.eqb b) [92; 124; 47; 58; 63; 34; 42; 60; 62].

Definition must_quote (unix control windows ascii : bool) (b : N) : bool :=
  (unix && (b =? 47))
  || (control && ((b <=? 31) || (ascii && ((128 <=? b) && (b <=? 159)))))
  || (windows && win_special b)
  || (ascii && (127 <? b)).

Definition hex_upper (n : N) : N := if n <? 10 then 48 + n else 55 + n.

(* b'%' + base64.b16encode(char) *)
Definition quote_byte (unix control windows ascii : bool) (b : N) : list N :=
  if must_quote unix control windows ascii b
  then [37; hex_upper (b / 16); hex_upper (b mod 16)]
  else [b].

Definition quote (unix control windows ascii : bool) (bs : list N) : list N :=
  flat_map (quote_byte unix control windows ascii) bs.

Section Oracles.
  Variable sha1hex : list N -> str.     (* hashlib.sha1(bytes).hexdigest() *)
  Variable pylower : str -> str.        (* str.lower *)
  Variable pyupper : str -> str.        (* str.upper *)

  (* -------------------------------------------------------------- *)
  (* safe_filename                                                   *)
  (* -------------------------------------------------------------- *)
  Definition sf_encode (c : cfg) (filename : str) : result str :=
    if str_eqb filename [46] then Ok [37; 50; 69]                        (* '%2E' *)
    else if str_eqb filename [46; 46] then Ok [37; 50; 69; 37; 50; 69]   (* '%2E%2E' *)
    else
      match utf8_encode filename with
      | None => Err EUnicodeEncode
      | Some bs =>
          match utf8_decode (quote (is_unix c) (no_control c) (is_windows c) (ascii_only c) bs) with
          | None => Err EUnicodeDecode
          | Some s => Ok s
          end
      end.

  (* if os_type == 'windows': if new_filename[-1] in ' .': ...  (after the F05 repair) *)
  Definition sf_windows_tail (c : cfg) (s : str) : result str :=
    match os c with
    | Unix => Ok s
    | Windows =>
        match last_opt s with
        | None => Err EIndex
        | Some l =>
            if (l =? 32) || (l =? 46)
            then Ok (removelast s ++ [37; hex_upper (l / 16); hex_upper (l mod 16)])
            else Ok s
        end
    end.

  (* if max_length and len(new_filename) > max_length: ... *)
  Definition sf_truncate (c : cfg) (s : str) : result str :=
    if negb (max_len c =? 0)%Z && (Z.of_nat (length s) >? max_len c)%Z then
      match utf8_encode s with
      | None => Err EUnicodeEncode
      | Some bs =>
          let new_length := Z.max 0 (max_len c - 8) in
          Ok (firstn (Z.to_nat new_length) s ++ firstn 8 (sha1hex bs))
      end
    else Ok s.

  Definition sf_case (c : cfg) (s : str) : str :=
    match case c with
    | CaseNone => s
    | CaseLower => pylower s
    | CaseUpper => pyupper s
    end.

  Definition safe_filename (c : cfg) (filename : str) : result str :=
    bind (sf_encode c filename) (fun s1 =>
    bind (sf_windows_tail c s1) (fun s2 =>
    bind (sf_truncate c s2) (fun s3 =>
    Ok (sf_case c s3)))).

  (* -------------------------------------------------------------- *)
  (* url_to_filename / url_to_dir_parts / PathNamer.get_filename     *)
  (* -------------------------------------------------------------- *)
  Definition url_to_filename (u : urlparts) (index_name : str) (alt_char : bool) : str :=
    let filename := last (split_on 47 (u_path u)) [] in
    let filename := if is_nil filename then index_name else filename in
    if is_nil (u_query u) then filename
    else filename ++ [if alt_char then 64 else 63] ++ u_query u.

  Definition none_text : str := [78; 111; 110; 101].      (* '{}'.format(None) *)

  (* parts may hold None (hostname None without a port) *)
  Definition url_to_dir_parts (u : urlparts) (include_protocol include_hostname alt_char : bool)
    : list (option str) :=
    let p1 := if include_protocol then [Some (u_scheme u)] else [] in
    let p2 :=
      if include_hostname then
        match u_port u with
        | Some (Npos p) =>
            let h := match u_hostname u with Some h => h | None => none_text end in
            [Some (h ++ [if alt_char then 43 else 58] ++ N_to_dec (Npos p))]
        | _ => [u_hostname u]
        end
      else [] in
    let p3 := map Some (filter (fun s => negb (is_nil s)) (split_on 47 (u_path u))) in
    let parts := p1 ++ p2 ++ p3 in
    if negb (u_ends_slash u) && negb (is_nil parts) then removelast parts else parts.

  Definition listing_name : str := [46; 108; 105; 115; 116; 105; 110; 103].   (* '.listing' *)

  Definition raw_parts (c : cfg) (u : urlparts) : list (option str) :=
    let alt_char := is_windows c in
    let dirs :=
      if use_dir c
      then skipn (Z.to_nat (cut c)) (url_to_dir_parts u (protocol c) (hostname_dir c) alt_char)
      else [] in
    dirs ++ [Some (url_to_filename u (if u_is_ftp u then listing_name else index c) alt_char)].

  (* if url_info.scheme == 'ftp': parts = [unquote(part) for part in parts]
     parts = [self.safe_filename(part) for part in parts]            (two passes) *)
  Definition get_parts (c : cfg) (u : urlparts) : result (list str) :=
    bind
      (if u_is_ftp u
       then map_result (fun p => match p with
                                 | None => Err ENoneType
                                 | Some s => Ok (Some (unquote s))
                                 end) (raw_parts c u)
       else Ok (raw_parts c u))
      (fun parts =>
         map_result (fun p => match p with
                              | None => Err ENoneType
                              | Some s => safe_filename c s
                              end) parts).

  (* -------------------------------------------------------------- *)
  (* posixpath.join / dirname / normpath                             *)
  (* -------------------------------------------------------------- *)
  Definition starts_slash (s : str) : bool := match s with c :: _ => c =? 47 | [] => false end.

  Fixpoint posix_join (path : str) (ps : list str) : str :=
    match ps with
    | [] => path
    | b :: r =>
        posix_join
          (if starts_slash b then b
           else if is_nil path || ends_with_char 47 path then path ++ b
           else path ++ [47] ++ b) r
    end.

  (* PathNamer.get_filename: os.path.join(self._root, *parts) *)
  Definition get_filename (c : cfg) (root : str) (u : urlparts) : result str :=
    bind (get_parts c u) (fun parts => Ok (posix_join root parts)).

  (* -------------------------------------------------------------- *)
  (* parse_content_disposition                                       *)
  (* -------------------------------------------------------------- *)
  (* str.isspace / regex \s  (the harness checks this set against the running
     interpreter over all code points) *)
  Definition is_space (c : N) : bool :=
    ((9 <=? c) && (c <=? 13)) || ((28 <=? c) && (c <=? 32)) || (c =? 133) || (c =? 160)
    || (c =? 5760) || ((8192 <=? c) && (c <=? 8202)) || (c =? 8232) || (c =? 8233)
    || (c =? 8239) || (c =? 8287) || (c =? 12288).

  (* one letter of the literal 'filename' under re.IGNORECASE (str pattern):
     ASCII case pair, and for 'i' also U+0130 and U+0131 (checked against the
     running interpreter over all code points) *)
  Definition ci_match (pat c : N) : bool :=
    (c =? pat) || (c =? pat - 32) || ((pat =? 105) && ((c =? 304) || (c =? 305))).

  Fixpoint match_lit (pat s : str) : option str :=
    match pat with
    | [] => Some s
    | p :: pat' =>
        match s with
        | c :: r => if ci_match p c then match_lit pat' r else None
        | [] => None
        end
    end.

  Definition lit_filename : str := [102; 105; 108; 101; 110; 97; 109; 101].

  Fixpoint drop_ws (s : str) : str :=
    match s with
    | c :: r => if is_space c then drop_ws r else s
    | [] => []
    end.

  (* '.' does not match '\n' *)
  Fixpoint line (s : str) : str :=
    match s with
    | c :: r => if c =? 10 then [] else c :: line r
    | [] => []
    end.

  (* \s*(.+) with greedy \s* and backtracking *)
  Fixpoint capture (s : str) : option str :=
    match s with
    | [] => None
    | c :: r =>
        if is_space c then
          match capture r with
          | Some g => Some g
          | None => if c =? 10 then None else Some (line (c :: r))
          end
        else Some (line (c :: r))
    end.

  Definition cd_try (s : str) : option str :=
    match match_lit lit_filename s with
    | None => None
    | Some rest =>
        match drop_ws rest with
        | 61 :: rest' => capture rest'
        | _ => None
        end
    end.

  (* re.search(r'filename\s*=\s*(.+)', text, re.IGNORECASE).group(1) *)
  Fixpoint cd_search (s : str) : option str :=
    match s with
    | [] => None
    | _ :: r => match cd_try s with Some g => Some g | None => cd_search r end
    end.

  (* prefix before the LAST occurrence of q *)
  Fixpoint before_last (q : N) (s : str) : option str :=
    match s with
    | [] => None
    | c :: r =>
        match before_last q r with
        | Some p => Some (c :: p)
        | None => if c =? q then Some [] else None
        end
    end.

  (* .replace(backslash double-quote, double-quote) *)
  Fixpoint replace_bsq (s : str) : str :=
    match s with
    | [] => []
    | c :: r =>
        if c =? 92 then
          match r with
          | d :: r' => if d =? 34 then 34 :: replace_bsq r' else c :: replace_bsq r
          | [] => [c]
          end
        else c :: replace_bsq r
    end.

  Definition strip (s : str) : str := rev (drop_ws (rev (drop_ws s))).

  (* None = the function returns None (no match, or the quoted form without a
     closing quote falls off the end) *)
  Definition parse_content_disposition (text : str) : result (option str) :=
    match cd_search text with
    | None => Ok None
    | Some [] => Err EIndex                       (* filename[0]; unreachable: (.+) is not empty *)
    | Some (q :: rest) =>
        if (q =? 34) || (q =? 39) then
          (* re.match(r'(.)(.+)(?!\\)\1', filename): (.+) greedy, so \1 is the last
             occurrence of the quote at index >= 2; the look-ahead is vacuous there *)
          match rest with
          | [] => Ok None
          | c :: r =>
              match before_last q r with
              | Some p => Ok (Some (replace_bsq (c :: p)))
              | None => Ok None
              end
          end
        else Ok (Some (strip (before_first 59 (q :: rest))))
    end.

  (* writer.py _rename_with_content_disposition: the new last component
     (None = file name unchanged) *)
  Definition cd_component (c : cfg) (scheme_is_http : bool) (header : option str) : result (option str) :=
    if negb scheme_is_http then Ok None
    else match header with
         | None => Ok None
         | Some [] => Ok None                      (* if not header_value *)
         | Some hv =>
             bind (parse_content_disposition hv) (fun f =>
               match f with
               | None => Ok None
               | Some [] => Ok None                (* if filename: *)
               | Some name => bind (safe_filename c name) (fun n => Ok (Some n))
               end)
         end.

  (* posixpath.dirname *)
  Fixpoint rstrip_slash_rev (r : str) : str :=
    match r with
    | c :: r' => if c =? 47 then rstrip_slash_rev r' else r
    | [] => []
    end.

  (* everything up to and including the last '/' *)
  Fixpoint head_through_last_slash (s : str) : option str :=
    match s with
    | [] => None
    | c :: r =>
        match head_through_last_slash r with
        | Some h => Some (c :: h)
        | None => if c =? 47 then Some [c] else None
        end
    end.

  Definition posix_dirname (p : str) : str :=
    match head_through_last_slash p with
    | None => []
    | Some head =>
        if forallb (N.eqb 47) head then head
        else rev (rstrip_slash_rev (rev head))
    end.

  (* self._filename = os.path.join(os.path.dirname(self._filename), new_filename) *)
  Definition rename_with_content_disposition (c : cfg) (scheme_is_http : bool) (header : option str)
             (old_filename : str) : result str :=
    if is_nil old_filename then Ok old_filename          (* if not self._filename: return *)
    else
    bind (cd_component c scheme_is_http header) (fun n =>
      match n with
      | None => Ok old_filename
      | Some name => Ok (posix_join (posix_dirname old_filename) [name])
      end).

  (* -------------------------------------------------------------- *)
  (* writer.py: _compute_filename (plain and anti-clobber sessions),  *)
  (* path.py: anti_clobber_dir_path.  The file system is an oracle.   *)
  (* -------------------------------------------------------------- *)
  Variable fs_isfile_o : str -> bool.      (* os.path.isfile *)
  Variable fs_isdir_o : str -> bool.       (* os.path.isdir *)
  Variable fs_exists_o : str -> bool.      (* os.path.exists *)

  Fixpoint intercalate (sep : str) (l : list str) : str :=
    match l with
    | [] => []
    | [x] => x
    | x :: r => x ++ sep ++ intercalate sep r
    end.

  Definition dot : str := [46].
  Definition dotdot : str := [46; 46].

  (* posixpath.normpath *)
  Definition normpath_step (initial : nat) (stack : list str) (comp : str) : list str :=
    if is_nil comp || str_eqb comp dot then stack
    else if negb (str_eqb comp dotdot)
            || (Nat.eqb initial 0 && is_nil stack)
            || (match stack with top :: _ => str_eqb top dotdot | [] => false end)
    then comp :: stack
    else match stack with _ :: st => st | [] => [] end.

  (* initial_slashes = path.startswith('/'); two leading slashes (exactly) are kept *)
  Definition initial_slashes (p : str) : nat :=
    match p with
    | a :: b :: c :: _ =>
        if a =? 47 then (if b =? 47 then (if c =? 47 then 1%nat else 2%nat) else 1%nat) else 0%nat
    | [a; b] => if a =? 47 then (if b =? 47 then 2%nat else 1%nat) else 0%nat
    | [a] => if a =? 47 then 1%nat else 0%nat
    | [] => 0%nat
    end.

  Definition posix_normpath (p : str) : str :=
    if is_nil p then dot
    else
      let initial := initial_slashes p in
      let stack := fold_left (normpath_step initial) (split_on 47 p) [] in
      let res := repeat 47 initial ++ intercalate [47] (rev stack) in
      if is_nil res then dot else res.

  Definition suffix_d : str := [46; 100].      (* '.d' *)
  Definition suffix_f : str := [46; 102].      (* '.f' *)

  Fixpoint anti_clobber_go (done_rev rest : list str) : option (list str) :=
    match rest with
    | [] => None
    | p :: r =>
        if fs_isfile_o (intercalate [47] (rev (p :: done_rev)))
        then Some (rev done_rev ++ (p ++ suffix_d) :: r)
        else anti_clobber_go (p :: done_rev) r
    end.

  Definition anti_clobber_dir_path (dir_path : str) : str :=
    let d := posix_normpath dir_path in
    match anti_clobber_go [] (split_on 47 d) with
    | Some parts => intercalate [47] parts
    | None => d
    end.

  (* os.path.split(p) = (posix_dirname p, last segment) *)
  Definition posix_basename (p : str) : str := last (split_on 47 p) [].

  (* BaseFileWriterSession._compute_filename, given get_filename's answer *)
  Definition compute_filename (path : str) : option str :=
    if fs_isdir_o path then Some (path ++ suffix_f)
    else Some (posix_join (anti_clobber_dir_path (posix_dirname path)) [posix_basename path]).

  (* AntiClobberFileWriterSession._compute_filename: first free name among
     original, original.1, original.2, ...; None = fuel exhausted (the loop of
     the code is unbounded) *)
  Fixpoint first_free (fuel : nat) (original : str) (suffix : N) : option str :=
    match fuel with
    | O => None
    | S f =>
        let candidate := if suffix =? 0 then original else original ++ [46] ++ N_to_dec suffix in
        if fs_exists_o candidate then first_free f original (suffix + 1) else Some candidate
    end.

  Definition compute_filename_anticlobber (fuel : nat) (path : str) : option str :=
    first_free fuel (posix_join (anti_clobber_dir_path (posix_dirname path)) [posix_basename path]) 0.

End Oracles.

(* ---------------------------------------------------------------- *)
(* helpers for the correspondence run: oracle instances given by a  *)
(* finite table recorded from the real library, result comparison   *)
(* ---------------------------------------------------------------- *)
Definition tab_fun (tab : list (list N * list N)) (x : list N) : list N :=
  match find (fun p => str_eqb (fst p) x) tab with
  | Some p => snd p
  | None => []
  end.

Definition opt_str_eqb (a b : option str) : bool :=
  match a, b with
  | Some x, Some y => str_eqb x y
  | None, None => true
  | _, _ => false
  end.

(* file-system oracle instances from a table path -> (isfile, isdir, exists) *)
Definition fs_lookup (tab : list (str * (bool * bool * bool))) (p : str) : bool * bool * bool :=
  match find (fun e => str_eqb (fst e) p) tab with
  | Some e => snd e
  | None => (false, false, false)
  end.
Definition fs_isfile tab p := fst (fst (fs_lookup tab p)).
Definition fs_isdir tab p := snd (fst (fs_lookup tab p)).
Definition fs_exists tab p := snd (fs_lookup tab p).

Definition error_eqb (a b : error) : bool :=
  match a, b with
  | EUnicodeEncode, EUnicodeEncode | EUnicodeDecode, EUnicodeDecode
  | EIndex, EIndex | ENoneType, ENoneType | EValue, EValue => true
  | _, _ => false
  end.

Definition res_eqb (a b : result str) : bool :=
  match a, b with
  | Ok x, Ok y => str_eqb x y
  | Err x, Err y => error_eqb x y
  | _, _ => false
  end.
