(* C16 - executable model of wpull's OWN cookie policy code (wpull/cookie.py):
     is_ip_literal, cookie_domain_ok                      -> is_ip_literal, cookie_domain_ok
     DeFactoCookiePolicy.set_ok_domain / return_ok_domain  -> wp_set_ok_domain, wp_return_ok_domain
     DeFactoCookiePolicy.set_ok (length / count / ASCII)   -> wp_set_ok
   The parent class http.cookiejar.DefaultCookiePolicy is NOT modelled: its verdicts are
   boolean inputs ([std], [parent_ok]).  Text is [list N]; the harness feeds ASCII text only
   (str.lower / str.isdigit are modelled on ASCII).  Definitions only. *)
From Coq Require Import List NArith Bool.
From Wpull Require Import Lib.Hex Model.HttpReq.
Import ListNotations.
Open Scope bool_scope.
Open Scope N_scope.

Definition DOT : N := 46.
Definition lower_ch (ch : N) : N := if (65 <=? ch) && (ch <=? 90) then ch + 32 else ch.
Definition str_lower (s : str) : str := map lower_ch s.
Definition has (ch : N) (s : str) : bool := existsb (N.eqb ch) s.

(* str.endswith *)
Definition ends_with (s suf : str) : bool :=
  Nat.leb (length suf) (length s) && str_eqb (skipn (Nat.sub (length s) (length suf)) s) suf.

(* host.rsplit('.', 1)[-1] *)
Definition last_label (h : str) : str :=
  fold_left (fun acc ch => if ch =? DOT then [] else acc ++ [ch]) h [].

(* str.isdigit on ASCII text *)
Definition is_digit (ch : N) : bool := (48 <=? ch) && (ch <=? 57).
Definition all_digits (s : str) : bool := nonempty s && forallb is_digit s.

Definition is_ip_literal (h : str) : bool := has COLON h || all_digits (last_label h).

Definition s_dot_local : str := [46; 108; 111; 99; 97; 108].   (* ".local" *)

Definition strip_dot (d : str) : str :=
  match d with
  | ch :: r => if ch =? DOT then r else d
  | [] => d
  end.

Definition cookie_domain_ok (domain : str) (specified : bool) (host : str) : bool :=
  let domain := str_lower domain in
  let host := str_lower host in
  if negb specified then str_eqb domain host || str_eqb domain (host ++ s_dot_local)
  else
    let domain := strip_dot domain in
    if negb (has DOT domain) && negb (has COLON domain) then str_eqb domain host
    else if str_eqb domain host then true
    else ends_with host (DOT :: domain) && negb (is_ip_literal host).

(* std = what DefaultCookiePolicy.set_ok_domain / return_ok_domain answered *)
Definition wp_set_ok_domain (std : bool) (domain : str) (specified : bool) (host : str) : bool :=
  if negb std then false else cookie_domain_ok domain specified host.
Definition wp_return_ok_domain (std : bool) (domain : str) (specified : bool) (host : str) : bool :=
  if negb std then false else cookie_domain_ok domain specified host.

(* DeFactoCookiePolicy.set_ok after DefaultCookiePolicy.set_ok answered [parent_ok]:
   jar_length = cookie_length(domain), jar_count = count_cookies(domain), present = the jar already has a
   cookie of this domain, path and name; text = str(cookie) *)
Definition wp_set_ok (parent_ok : bool) (jar_length jar_count : N) (present : bool)
           (path name value text : str) : bool :=
  if negb parent_ok then false
  else if 4100 <=? jar_length + N.of_nat (length path) + N.of_nat (length name) + N.of_nat (length value) then false
  else if (50 <=? jar_count) && negb present then false
  else forallb (fun ch => ch <? 128) text.
