(* Executable instance of the crawl engine for the correspondence runs (C01, C03).
   Definitions only.

   1. [cscope]: the URL filters of wpull/urlfilter.py as built by
      application/tasks/rule.py (URLFiltersSetupTask + URLFiltersPostURLImportSetupTask) for the
      options the generated crawls use, over a table of URL attributes (scheme, host, port,
      path; the two regex verdicts are oracle columns recorded from Python's re), and
      FetchRule.consult_filters (a redirect waives a lone SpanHostsFilter failure).
   2. [replay]: trace-driven execution.  The real crawl's URL-table transactions (recorded by
      harness/fakes/engine_trace.py in commit order) are replayed on the LTS of Model/Engine.v:
      every recorded operation must be the NEXT action of the corresponding in-flight item of
      the model, with equal arguments; requests are reconciled with the server's log at the end
      of each run; a kill is [LCrash].  A trace that replays is an execution of the model. *)
From Coq Require Import List NArith Bool Arith.
From Wpull Require Import Model.Engine.
Import ListNotations.
Open Scope N_scope.

(* ------------------------------------------------------------------ *)
(* 1. concrete scope                                                   *)
(* ------------------------------------------------------------------ *)
Record uattr := mkUA {
  ua_scheme : N;          (* 0 http, 1 https, 2 ftp, 3 anything else *)
  ua_host : N; ua_port : N;
  ua_path : list N;       (* URLInfo.path, code points *)
  ua_acc : bool;          (* re.search(accept_regex, url) *)
  ua_rej : bool }.        (* re.search(reject_regex, url) *)

Definition ua_default : uattr := mkUA 3 0 0 [47] false false.

Fixpoint attrs_of (l : list (url * uattr)) (u : url) : uattr :=
  match l with
  | [] => ua_default
  | (k, a) :: l' => if k =? u then a else attrs_of l' u
  end.

Record opts := mkOpts {
  o_recursive : bool; o_preq : bool;
  o_level : N;            (* --level; 0 = inf *)
  o_prl : N;              (* --page-requisites-level; 0 = inf *)
  o_no_parent : bool;
  o_tries : N;            (* --tries; 0 = inf *)
  o_acc : bool; o_rej : bool;          (* --accept-regex / --reject-regex given *)
  o_span : bool; o_span_preq : bool; o_span_linked : bool }.

Fixpoint prefix_of (a b : list N) : bool :=
  match a, b with
  | [], _ => true
  | x :: a', y :: b' => (x =? y) && prefix_of a' b'
  | _ :: _, [] => false
  end.

Fixpoint drop_to_slash (r : list N) : option (list N) :=
  match r with
  | [] => None
  | c :: r' => if c =? 47 then Some r' else drop_to_slash r'
  end.
(* path.rsplit('/', 1)[0] + '/' *)
Definition dir_of (p : list N) : list N :=
  match drop_to_slash (rev p) with
  | Some r' => rev r' ++ [47]
  | None => p ++ [47]
  end.

Definition is_web (s : N) : bool := (s =? 0) || (s =? 1).
Definition schemes_similar (a b : N) : bool := (a =? b) || (is_web a && is_web b).
Definition mem (h : N) (l : list N) : bool := existsb (N.eqb h) l.
Definition inl_of (i : rinfo) : N := match ri_inline i with Some k => k | None => 0 end.

Section Scope.
  Variable attrs : url -> uattr.
  Variable o : opts.

  Definition f_scheme (u : url) : bool := ua_scheme (attrs u) <? 3.
  Definition f_recursive (i : rinfo) : bool :=
    if ri_level i =? 0 then true
    else if negb (inl_of i =? 0) then o_preq o else o_recursive o.
  Definition f_follow_ftp (u : url) (i : rinfo) : bool :=
    if ua_scheme (attrs u) =? 2 then negb (is_web (ua_scheme (attrs (ri_parent i)))) else true.
  Definition f_parent (u : url) (i : rinfo) : bool :=
    if negb (o_no_parent o) then true
    else if negb (inl_of i =? 0) then true
    else let a := attrs u in let t := attrs (ri_root i) in
         if schemes_similar (ua_scheme a) (ua_scheme t) && (ua_host a =? ua_host t)
            && (negb (ua_scheme a =? ua_scheme t) || (ua_port a =? ua_port t))
         then prefix_of (dir_of (ua_path t)) (dir_of (ua_path a)) else true.
  Definition f_tries (n : N) : bool := if o_tries o =? 0 then true else n <? o_tries o.
  (* LevelFilter is installed iff (level and recursive) or page_requisites_level *)
  Definition f_level (i : rinfo) : bool :=
    if negb ((negb (o_level o =? 0) && o_recursive o) || negb (o_prl o =? 0)) then true
    else if negb (o_prl o =? 0) && negb (inl_of i =? 0) && (o_prl o <? inl_of i) then false
    else if o_level o =? 0 then true
    else if negb (inl_of i =? 0) then ri_level i <=? o_level o + 2 else ri_level i <=? o_level o.
  Definition f_regex (u : url) : bool :=
    (if o_acc o then ua_acc (attrs u) else true) && (if o_rej o then negb (ua_rej (attrs u)) else true).
  Definition f_span (sp : list N) (u : url) (i : rinfo) : bool :=
    o_span o || mem (ua_host (attrs u)) sp || (o_span_preq o && negb (inl_of i =? 0))
    || (o_span_linked o && mem (ua_host (attrs (ri_parent i))) sp).

  (* FetchRule.consult_filters *)
  Definition cscope (sp : list N) (is_redirect : bool) (u : url) (i : rinfo) (n : N) : bool :=
    f_scheme u && f_recursive i && f_follow_ftp u i && f_parent u i && f_tries n && f_level i && f_regex u
    && (f_span sp u i || is_redirect).

  Definition chost (u : url) : N := ua_host (attrs u).
End Scope.

(* ------------------------------------------------------------------ *)
(* 2. trace replay                                                     *)
(* ------------------------------------------------------------------ *)
Definition optN_eqb (a b : option N) : bool :=
  match a, b with Some x, Some y => x =? y | None, None => true | _, _ => false end.
Definition rinfo_eqb (a b : rinfo) : bool :=
  (ri_url a =? ri_url b) && (ri_level a =? ri_level b) && optN_eqb (ri_inline a) (ri_inline b)
  && (ri_parent a =? ri_parent b) && (ri_root a =? ri_root b).
Fixpoint list_eqb {A} (e : A -> A -> bool) (a b : list A) : bool :=
  match a, b with
  | [], [] => true
  | x :: a', y :: b' => e x y && list_eqb e a' b'
  | _, _ => false
  end.
Definition action_eqb (a b : action) : bool :=
  match a, b with
  | ARequest u i, ARequest v j => (u =? v) && Bool.eqb i j
  | ASetCode c, ASetCode d => c =? d
  | AAddMany k, AAddMany l => list_eqb rinfo_eqb k l
  | ACheckIn s, ACheckIn t => status_eqb s t
  | _, _ => false
  end.
Definition row_eqb (a b : row) : bool :=
  rinfo_eqb (r_info a) (r_info b) && status_eqb (r_status a) (r_status b) && (r_tries a =? r_tries b)
  && optN_eqb (r_code a) (r_code b).

Inductive ev :=
| EvRelease
| EvAddStarts (l : list rinfo)
| EvCheckout (u : url)
| EvCheckoutAny                  (* a check_out the kill interrupted after its commit *)
| EvOp (u : url) (a : action)    (* update_one / add_many / check_in of the item with URL u *)
| EvEnd (exit : bool) (reqs : list url)   (* the run ends (exit or kill); requests the server logged during it *)
| EvTable (t : table)            (* the database rows observed now *)
| EvSpan (l : list N)            (* the hostnames the process read into its span-hosts filter *)
| EvCrash.

Fixpoint idx_of (u : url) (its : list item) : option nat :=
  match its with
  | [] => None
  | it :: rest => if ri_url (it_info it) =? u then Some O
                  else match idx_of u rest with Some n => Some (S n) | None => None end
  end.

Fixpoint remove_one (q : url) (l : list url) : option (list url) :=
  match l with
  | [] => None
  | x :: l' => if x =? q then Some l'
               else match remove_one q l' with Some r => Some (x :: r) | None => None end
  end.
Fixpoint remove_all (qs l : list url) : option (list url) :=
  match qs with
  | [] => Some l
  | q :: qs' => match remove_one q l with Some l' => remove_all qs' l' | None => None end
  end.

Section Replay.
  Variable site : url -> page.
  Variable host : url -> N.
  Variable in_scope : list N -> bool -> url -> rinfo -> N -> bool.
  Variable maxredir : nat.
  Variable starts : list url.
  Variable conc : nat.

  Notation fire := (fire site host in_scope maxredir starts conc).

  (* workers take queued items, oldest first, until the item with URL u has been taken *)
  Fixpoint start_until (fuel : nat) (u : url) (s : state) : option state :=
    match idx_of u (st_items s) with
    | None => None
    | Some n =>
        match nth_error (st_items s) n with
        | Some it =>
            if it_started it then Some s
            else match fuel with
                 | O => None
                 | S f => match fire LStart s with Some s' => start_until f u s' | None => None end
                 end
        | None => None
        end
    end.
  Definition ensure_started (u : url) (s : state) : option state := start_until (length (st_items s)) u s.

  (* the item performs the requests that precede its next table operation *)
  Fixpoint catch_up (fuel : nat) (u : url) (s : state) : option state :=
    match fuel with
    | O => Some s
    | S f =>
        match idx_of u (st_items s) with
        | None => Some s
        | Some n =>
            match nth_error (st_items s) n with
            | Some it =>
                match it_todo it with
                | ARequest _ _ :: _ => match fire (LAct n) s with Some s' => catch_up f u s' | None => None end
                | _ => Some s
                end
            | None => None
            end
        end
    end.

  Definition do_op (u : url) (a : action) (s : state) : option state :=
    match ensure_started u s with
    | None => None
    | Some s1 =>
        match catch_up (2 * maxredir + 4) u s1 with
        | None => None
        | Some s2 =>
            match idx_of u (st_items s2) with
            | None => None
            | Some n =>
                match nth_error (st_items s2) n with
                | Some it =>
                    match it_todo it with
                    | b :: _ => if action_eqb a b then fire (LAct n) s2 else None
                    | [] => None
                    end
                | None => None
                end
            end
        end
    end.

  (* a request the server saw that no completed table operation accounts for: it must be the
     next action of some in-flight item *)
  Fixpoint try_req (q : url) (n : nat) (k : nat) (s : state) : option state :=
    match k with
    | O => None
    | S k' =>
        let next := try_req q (S n) k' s in
        match nth_error (st_items s) n with
        | None => None
        | Some it =>
            match it_todo it with
            | ARequest q' _ :: _ =>
                if q' =? q then
                  match ensure_started (ri_url (it_info it)) s with
                  | Some s1 => match fire (LAct n) s1 with Some s2 => Some s2 | None => next end
                  | None => next
                  end
                else next
            | _ => next
            end
        end
    end.
  Fixpoint drain (qs : list url) (s : state) : option state :=
    match qs with
    | [] => Some s
    | q :: qs' => match try_req q 0 (length (st_items s)) s with Some s' => drain qs' s' | None => None end
    end.

  Definition run_reqs (base : nat) (s : state) : list url :=
    map (fun e => snd (fst e)) (firstn (length (st_log s) - base) (st_log s)).

  Definition end_run (exit : bool) (reqs : list url) (base : nat) (s : state) : option state :=
    match remove_all (run_reqs base s) reqs with
    | None => None                       (* the model made a request the server never saw *)
    | Some rest =>
        match drain rest s with
        | None => None
        | Some s' =>
            if exit then
              match st_items s', pick (st_tbl s') with
              | [], None => Some s'
              | _, _ => None
              end
            else Some s'
        end
    end.

  Definition step_ev (e : ev) (base : nat) (s : state) : option (nat * state) :=
    match e with
    | EvRelease => option_map (pair base) (fire LRelease s)
    | EvAddStarts l =>
        (* InputURLTask: one add_many transaction per batch of the input; after the last one the start-up completes *)
        if list_eqb rinfo_eqb l (map start_info starts) && (st_batch s =? 0)%nat then option_map (pair base) (fire LAddStarts s)
        else
          let n := length l in
          if list_eqb rinfo_eqb l (map start_info (firstn n (skipn (st_batch s) starts))) then
            match fire (LAddBatch n) s with
            | Some s1 => if (st_batch s1 =? length starts)%nat then option_map (pair base) (fire LAddStarts s1) else Some (base, s1)
            | None => None
            end
          else None
    | EvCheckout u =>
        match pick (st_tbl s) with
        | Some r => if r_url r =? u then option_map (pair base) (fire LCheckout s) else None
        | None => None
        end
    | EvCheckoutAny => option_map (pair base) (fire LCheckout s)
    | EvOp u a => option_map (pair base) (do_op u a s)
    | EvEnd exit reqs => option_map (pair base) (end_run exit reqs base s)
    | EvTable t => if list_eqb row_eqb t (st_tbl s) then Some (base, s) else None
    | EvSpan l => if forallb (fun h => mem h (st_span s)) l && forallb (fun h => mem h l) (st_span s)
                  then Some (base, s) else None
    | EvCrash => match fire LCrash s with Some s' => Some (length (st_log s'), s') | None => None end
    end.

  (* 0 = the whole trace replays; k = the k-th event (1-based) is not possible in the model *)
  Fixpoint replay (k : nat) (evs : list ev) (base : nat) (s : state) : nat :=
    match evs with
    | [] => O
    | e :: evs' => match step_ev e base s with
                   | Some (b', s') => replay (S k) evs' b' s'
                   | None => k
                   end
    end.

  Definition replay_from_init (evs : list ev) : nat := replay 1 evs 0 (init).
End Replay.

(* one correspondence case *)
Definition sim_case (sitel : list (url * page)) (attrl : list (url * uattr)) (o : opts)
           (maxredir : nat) (starts : list url) (conc : nat) (evs : list ev) : nat :=
  replay_from_init (site_of sitel) (chost (attrs_of attrl)) (cscope (attrs_of attrl) o) maxredir starts conc evs.
