(* C14 - the URL table.  Executable models, definitions only.

   Part 1: what a caller hands to / gets from the table (wpull/pipeline/item.py,
           wpull/database/base.py).
   Part 2: SQL-LEVEL MODEL of wpull/database/sqltable.py + sqlmodel.py as the
           statements it sends to SQLite act on the three tables
             url_strings (id INTEGER PRIMARY KEY, url UNIQUE NOT NULL)
             queued_urls (id INTEGER PRIMARY KEY, url_string_id UNIQUE NOT NULL,
                          parent_url_string_id, root_url_string_id, status .. filename)
             warc_visits (url PRIMARY KEY, warc_id, payload_digest)
           Row ids are SQLite rowids (no AUTOINCREMENT keyword in the DDL that
           SQLAlchemy emits): a new row gets max(id)+1.  A table is a list of rows
           in no assumed order; every SELECT that returns rows in rowid order is
           modelled with an explicit sort ([by_id]).
           The code modelled is the tree AFTER the repair of F14 (add_many gives
           parent_url / root_url a None default in every row).
   Part 3: SPEC - a keyed map url -> record with insertion order (a list of
           records with distinct urls) and a keyed map of visits.

   The per-row field arithmetic of check_in / update_one / release (which columns
   are assigned) is shared by both levels ([checkin_fields], [update_fields],
   [release_fields]); what differs - and what the refinement theorem is about - is
   keys, ids, joins, INSERT OR IGNORE, ordering and the inserted-row detection.

   [bad] says which URL strings wpull.url.URLInfo.parse rejects (add_many parses
   every newly inserted URL for the hostnames table; a ValueError there rolls the
   whole transaction back).  It is a Section variable without hypotheses; the
   correspondence instantiates it with the table recorded from the real parser. *)
From Coq Require Import List NArith ZArith Bool.
From Wpull Require Import Lib.Hex.
Import ListNotations.
Open Scope N_scope.

(* ------------------------------------------------------------------ Part 1 *)
Definition str := list N.      (* text as code points *)
Definition url := list N.

Inductive status := Todo | InProgress | Done | Error | Skipped.
Inductive link_type := LHtml | LCss | LJavascript | LMedia | LSitemap | LFile | LDirectory.

Definition status_eqb (a b : status) : bool :=
  match a, b with
  | Todo, Todo | InProgress, InProgress | Done, Done | Error, Error | Skipped, Skipped => true
  | _, _ => false
  end.

(* the columns that are plain values (no key, no reference) *)
Record fields := mkFields {
  f_status : status; f_try : Z; f_level : Z; f_inline : option Z; f_link : option link_type;
  f_priority : Z; f_post : option str; f_code : option Z; f_file : option str }.

(* URLRecord as returned by to_plain() *)
Record rec := mkRec { r_url : url; r_parent : option url; r_root : option url; r_f : fields }.

(* URLProperties: every attribute may be None *)
Record props := mkProps {
  p_parent : option url; p_root : option url; p_status : option status; p_try : option Z;
  p_level : option Z; p_inline : option Z; p_link : option link_type; p_priority : option Z }.

(* AddURLInfo(url, properties, data); data = None | URLData(post_data) *)
Record add_item := mkAdd { a_url : url; a_props : option props; a_data : option (option str) }.

(* URLResult *)
Record result := mkResult { res_code : option Z; res_file : option str }.

(* update_one with keyword arguments: a keyword is absent (None) or present with its value;
   NOT NULL columns only take values (a None there is an IntegrityError and
   outside the modelled domain). *)
Record upd := mkUpd {
  u_status : option status; u_try : option Z; u_level : option Z; u_priority : option Z;
  u_inline : option (option Z); u_link : option (option link_type); u_post : option (option str);
  u_code : option (option Z); u_file : option (option str) }.

Inductive op :=
| OAddMany (b : list add_item)
| OAddOne (i : add_item)
| OCheckOut (s : status) (lvl : option Z)
| OCheckIn (u : url) (s : status) (inc : bool) (r : option result)
| OUpdateOne (u : url) (f : upd)
| ORelease
| ORemoveMany (us : list url)
| ORemoveOne (u : url)
| OCount
| OGetOne (u : url)
| OContains (u : url)
| OGetAll
| OAddVisits (vs : list (url * (str * str)))      (* (url, (warc_id, payload_digest)) *)
| OGetRevisitId (u : url) (digest : str)
| OReopen.                                        (* close() + SQLiteURLTable(path) on the same file *)

Inductive ret :=
| RNone
| RUrls (l : list url)
| RRec (r : rec)
| RNotFound
| RValueError
| RCount (n : N)
| RBool (b : bool)
| RId (o : option str)
| RAll (l : list rec).

(* --- row arithmetic shared by both levels ------------------------------ *)
Definition or_default {A} (o : option A) (d : A) : A := match o with Some x => x | None => d end.
Definition or_keep {A} (o : option A) (old : option A) : option A := match o with Some x => Some x | None => old end.

(* values of a freshly inserted row: column defaults status='todo', try_count=0,
   level=0, priority=0; a None (or a missing key) means "use the default / NULL" *)
Definition item_fields (it : add_item) : fields :=
  let post := match a_data it with Some d => d | None => None end in
  match a_props it with
  | Some p => mkFields (or_default (p_status p) Todo) (or_default (p_try p) 0%Z) (or_default (p_level p) 0%Z)
                       (p_inline p) (p_link p) (or_default (p_priority p) 0%Z) post None None
  | None => mkFields Todo 0%Z 0%Z None None 0%Z post None None
  end.

(* the 'parent_url' / 'root_url' bind parameters of a row: properties=None means
   "the URL itself"; database_items() drops None *)
Definition item_parent (it : add_item) : option url :=
  match a_props it with Some p => p_parent p | None => Some (a_url it) end.
Definition item_root (it : add_item) : option url :=
  match a_props it with Some p => p_root p | None => Some (a_url it) end.

(* check_in: status always; status_code / filename only when not None
   (database_items); try_count + 1 when asked *)
Definition checkin_fields (s : status) (inc : bool) (r : option result) (f : fields) : fields :=
  mkFields s (if inc then (f_try f + 1)%Z else f_try f) (f_level f) (f_inline f) (f_link f) (f_priority f) (f_post f)
           (match r with Some x => or_keep (res_code x) (f_code f) | None => f_code f end)
           (match r with Some x => or_keep (res_file x) (f_file f) | None => f_file f end).

Definition update_fields (u : upd) (f : fields) : fields :=
  mkFields (or_default (u_status u) (f_status f)) (or_default (u_try u) (f_try f)) (or_default (u_level u) (f_level f))
           (or_default (u_inline u) (f_inline f)) (or_default (u_link u) (f_link f))
           (or_default (u_priority u) (f_priority f)) (or_default (u_post u) (f_post f))
           (or_default (u_code u) (f_code f)) (or_default (u_file u) (f_file f)).

Definition set_status (s : status) (f : fields) : fields :=
  mkFields s (f_try f) (f_level f) (f_inline f) (f_link f) (f_priority f) (f_post f) (f_code f) (f_file f).

Definition release_fields (f : fields) : fields :=
  if status_eqb (f_status f) InProgress then set_status Todo f else f.

(* WHERE status = s [AND level < bound] *)
Definition checkout_match (s : status) (lvl : option Z) (f : fields) : bool :=
  status_eqb (f_status f) s && match lvl with Some b => (f_level f <? b)%Z | None => true end.

(* "if properties.parent_url:" - None and '' are falsy *)
Definition truthy (o : option url) : list url :=
  match o with Some (c :: r) => [c :: r] | _ => [] end.

(* ------------------------------------------------------------------ Part 2 *)
Record srow := mkS { s_id : N; s_url : url }.
Record qrow := mkQ { q_id : N; q_us : N; q_parent : option N; q_root : option N; q_f : fields }.
Record vrow := mkV { v_url : url; v_warc : str; v_digest : str }.
Record db := mkDb { d_strings : list srow; d_queued : list qrow; d_visits : list vrow }.

Definition empty_db : db := mkDb [] [] [].

Definition max_id {A} (idf : A -> N) (l : list A) : N := fold_right (fun x m => N.max (idf x) m) 0 l.
Definition next_id {A} (idf : A -> N) (l : list A) : N := N.succ (max_id idf l).     (* SQLite rowid *)

(* ORDER BY rowid (table scan / index scan among equal keys) *)
Fixpoint insert_by_id (q : qrow) (l : list qrow) : list qrow :=
  match l with
  | [] => [q]
  | x :: r => if q_id q <=? q_id x then q :: l else x :: insert_by_id q r
  end.
Definition by_id (l : list qrow) : list qrow := fold_right insert_by_id [] l.

(* SELECT id FROM url_strings WHERE url = u   (scalar subquery: NULL when no row) *)
Definition string_id (ss : list srow) (u : url) : option N :=
  option_map s_id (find (fun s => list_eqb (s_url s) u) ss).
(* SELECT url FROM url_strings WHERE id = i   (relationship load) *)
Definition string_by_id (ss : list srow) (i : N) : option url :=
  option_map s_url (find (fun s => s_id s =? i) ss).

(* INSERT OR IGNORE INTO url_strings (url) VALUES (u) *)
Definition insert_string (ss : list srow) (u : url) : list srow :=
  match string_id ss u with
  | Some _ => ss
  | None => ss ++ [mkS (next_id s_id ss) u]
  end.

(* INSERT OR IGNORE INTO queued_urls (url_string_id, parent_url_string_id, root_url_string_id, ...)
   VALUES ((SELECT id .. url = :url), (SELECT id .. url = :parent_url), (SELECT id .. url = :root_url), ...) *)
Definition ref_id (ss : list srow) (o : option url) : option N :=
  match o with Some u => string_id ss u | None => None end.      (* url = NULL matches nothing *)
Definition insert_queued (ss : list srow) (qs : list qrow) (it : add_item) : list qrow :=
  match string_id ss (a_url it) with
  | None => qs                                                   (* NOT NULL violated: row ignored *)
  | Some sid =>
      if existsb (fun q => q_us q =? sid) qs then qs             (* UNIQUE violated: row ignored *)
      else qs ++ [mkQ (next_id q_id qs) sid (ref_id ss (item_parent it)) (ref_id ss (item_root it)) (item_fields it)]
  end.

(* to_plain(): url / parent_url / root_url through the relationships *)
Definition plain (ss : list srow) (q : qrow) : rec :=
  mkRec (or_default (string_by_id ss (q_us q)) [])
        (match q_parent q with Some i => string_by_id ss i | None => None end)
        (match q_root q with Some i => string_by_id ss i | None => None end)
        (q_f q).

Definition sql_get_all (d : db) : list rec := map (plain (d_strings d)) (by_id (d_queued d)).

Definition batch_strings (b : list add_item) : list url :=
  flat_map (fun it => a_url it :: match a_props it with
                                  | Some p => truthy (p_parent p) ++ truthy (p_root p)
                                  | None => []
                                  end) b.

(* watch_urls_inserted: SELECT url_strings.url FROM url_strings, queued_urls
   WHERE queued_urls.id > last AND queued_urls.url_string_id = url_strings.id *)
Definition inserted_urls (ss : list srow) (qs : list qrow) (last : N) : list url :=
  flat_map (fun q => map s_url (filter (fun s => s_id s =? q_us q) ss))
           (filter (fun q => last <? q_id q) (by_id qs)).

Definition update_where (P : qrow -> bool) (g : fields -> fields) (qs : list qrow) : list qrow :=
  map (fun q => if P q then mkQ (q_id q) (q_us q) (q_parent q) (q_root q) (g (q_f q)) else q) qs.

(* WHERE url_string_id = (SELECT id FROM url_strings WHERE url = u LIMIT 1) *)
Definition us_is (sid : option N) (q : qrow) : bool :=
  match sid with Some i => q_us q =? i | None => false end.

(* WHERE EXISTS (SELECT 1 FROM url_strings WHERE id = queued_urls.url_string_id AND url = u) *)
Definition has_url (ss : list srow) (u : url) (q : qrow) : bool :=
  existsb (fun s => (s_id s =? q_us q) && list_eqb (s_url s) u) ss.

Definition insert_visit (vs : list vrow) (v : url * (str * str)) : list vrow :=
  if existsb (fun x => list_eqb (v_url x) (fst v)) vs then vs      (* PRIMARY KEY violated: ignored *)
  else vs ++ [mkV (fst v) (fst (snd v)) (snd (snd v))].

Section WithParser.
  Variable bad : url -> bool.

  (* URLInfo.parse raises ValueError: always for the empty string, otherwise as recorded *)
  Definition unparseable (u : url) : bool := match u with [] => true | _ => bad u end.

  Definition sql_add_many (d : db) (b : list add_item) : ret * db :=
    match b with
    | [] => (RUrls [], d)
    | _ =>
        let ss := fold_left insert_string (batch_strings b) (d_strings d) in
        let last := max_id q_id (d_queued d) in                 (* SELECT max(id) .. or 0 *)
        let qs := fold_left (insert_queued ss) b (d_queued d) in
        let added := inserted_urls ss qs last in
        if existsb unparseable added then (RValueError, d)      (* exception -> session.rollback() *)
        else (RUrls added, mkDb ss qs (d_visits d))
    end.

  Definition sql_check_out (d : db) (s : status) (lvl : option Z) : ret * db :=
    match by_id (filter (fun q => checkout_match s lvl (q_f q)) (d_queued d)) with
    | [] => (RNotFound, d)
    | q :: _ =>
        (* UPDATE queued_urls SET status='in_progress' WHERE id = q.id ; to_plain() afterwards *)
        let qs := update_where (fun x => q_id x =? q_id q) (set_status InProgress) (d_queued d) in
        (RRec (plain (d_strings d) (mkQ (q_id q) (q_us q) (q_parent q) (q_root q) (set_status InProgress (q_f q)))),
         mkDb (d_strings d) qs (d_visits d))
    end.

  Definition sql_check_in (d : db) (u : url) (s : status) (inc : bool) (r : option result) : ret * db :=
    (RNone, mkDb (d_strings d)
                 (update_where (us_is (string_id (d_strings d) u)) (checkin_fields s inc r) (d_queued d))
                 (d_visits d)).

  Definition sql_update_one (d : db) (u : url) (f : upd) : ret * db :=
    (RNone, mkDb (d_strings d)
                 (update_where (us_is (string_id (d_strings d) u)) (update_fields f) (d_queued d))
                 (d_visits d)).

  Definition sql_release (d : db) : ret * db :=
    (RNone, mkDb (d_strings d)
                 (update_where (fun q => status_eqb (f_status (q_f q)) InProgress) (set_status Todo) (d_queued d))
                 (d_visits d)).

  (* per url: id = SELECT id ..; DELETE FROM queued_urls WHERE url_string_id = id (IS NULL when absent) *)
  Definition sql_remove_many (d : db) (us : list url) : ret * db :=
    (RNone, mkDb (d_strings d)
                 (fold_left (fun qs u => filter (fun q => negb (us_is (string_id (d_strings d) u) q)) qs) us (d_queued d))
                 (d_visits d)).

  Definition sql_get_one (d : db) (u : url) : ret :=
    match by_id (filter (has_url (d_strings d) u) (d_queued d)) with
    | [] => RNotFound
    | q :: _ => RRec (plain (d_strings d) q)
    end.

  Definition sql_get_revisit_id (d : db) (u : url) (dg : str) : option str :=
    option_map v_warc (find (fun v => list_eqb (v_url v) u && list_eqb (v_digest v) dg) (d_visits d)).

  Definition sql_step (d : db) (o : op) : ret * db :=
    match o with
    | OAddMany b => sql_add_many d b
    | OAddOne i => match sql_add_many d [i] with            (* base.py add_one: result dropped *)
                   | (RValueError, d') => (RValueError, d')
                   | (_, d') => (RNone, d')
                   end
    | OCheckOut s lvl => sql_check_out d s lvl
    | OCheckIn u s inc r => sql_check_in d u s inc r
    | OUpdateOne u f => sql_update_one d u f
    | ORelease => sql_release d
    | ORemoveMany us => sql_remove_many d us
    | ORemoveOne u => sql_remove_many d [u]                 (* base.py remove_one *)
    | OCount => (RCount (N.of_nat (length (d_queued d))), d)
    | OGetOne u => (sql_get_one d u, d)
    | OContains u => (RBool (match sql_get_one d u with RNotFound => false | _ => true end), d)   (* base.py contains *)
    | OGetAll => (RAll (sql_get_all d), d)
    | OAddVisits vs => (RNone, mkDb (d_strings d) (d_queued d) (fold_left insert_visit vs (d_visits d)))
    | OGetRevisitId u dg => (RId (sql_get_revisit_id d u dg), d)
    | OReopen => (RNone, d)        (* the state IS the database file; SQLite's atomic commit is trusted *)
    end.

  (* every return value, and get_all() after every step *)
  Fixpoint run_sql (d : db) (ops : list op) : list (ret * list rec) :=
    match ops with
    | [] => []
    | o :: rest => let '(r, d') := sql_step d o in (r, sql_get_all d') :: run_sql d' rest
    end.

  Definition sql_after (ops : list op) : db := fold_left (fun d o => snd (sql_step d o)) ops empty_db.

  (* ---------------------------------------------------------------- Part 3 *)
  Record spec := mkSpec { sp_recs : list rec; sp_visits : list (url * (str * str)) }.
  Definition empty_spec : spec := mkSpec [] [].

  Definition has_key (u : url) (l : list rec) : bool := existsb (fun r => list_eqb (r_url r) u) l.

  (* an empty parent / root string is "no parent" *)
  Definition norm_ref (o : option url) : option url :=
    match o with Some (c :: r) => Some (c :: r) | _ => None end.

  Definition new_rec (it : add_item) : rec :=
    mkRec (a_url it) (norm_ref (item_parent it)) (norm_ref (item_root it)) (item_fields it).

  (* add the items whose key is not present yet, in order; report exactly those *)
  Fixpoint spec_add (recs : list rec) (b : list add_item) : list rec * list url :=
    match b with
    | [] => (recs, [])
    | it :: rest =>
        if has_key (a_url it) recs then spec_add recs rest
        else let '(recs', added) := spec_add (recs ++ [new_rec it]) rest in (recs', a_url it :: added)
    end.

  Definition spec_add_many (s : spec) (b : list add_item) : ret * spec :=
    let '(recs', added) := spec_add (sp_recs s) b in
    if existsb unparseable added then (RValueError, s) else (RUrls added, mkSpec recs' (sp_visits s)).

  Definition map_key (u : url) (g : fields -> fields) (l : list rec) : list rec :=
    map (fun r => if list_eqb (r_url r) u then mkRec (r_url r) (r_parent r) (r_root r) (g (r_f r)) else r) l.

  Definition spec_check_out (s : spec) (st : status) (lvl : option Z) : ret * spec :=
    match find (fun r => checkout_match st lvl (r_f r)) (sp_recs s) with
    | None => (RNotFound, s)
    | Some r => (RRec (mkRec (r_url r) (r_parent r) (r_root r) (set_status InProgress (r_f r))),
                 mkSpec (map_key (r_url r) (set_status InProgress) (sp_recs s)) (sp_visits s))
    end.

  Definition spec_get_one (s : spec) (u : url) : ret :=
    match find (fun r => list_eqb (r_url r) u) (sp_recs s) with Some r => RRec r | None => RNotFound end.

  Definition spec_add_visit (vs : list (url * (str * str))) (v : url * (str * str)) :=
    if existsb (fun x => list_eqb (fst x) (fst v)) vs then vs else vs ++ [v].

  Definition spec_get_revisit_id (s : spec) (u : url) (dg : str) : option str :=
    match find (fun x => list_eqb (fst x) u) (sp_visits s) with
    | Some (_, (w, d)) => if list_eqb d dg then Some w else None
    | None => None
    end.

  Definition spec_step (s : spec) (o : op) : ret * spec :=
    match o with
    | OAddMany b => spec_add_many s b
    | OAddOne i => match spec_add_many s [i] with
                   | (RValueError, s') => (RValueError, s')
                   | (_, s') => (RNone, s')
                   end
    | OCheckOut st lvl => spec_check_out s st lvl
    | OCheckIn u st inc r => (RNone, mkSpec (map_key u (checkin_fields st inc r) (sp_recs s)) (sp_visits s))
    | OUpdateOne u f => (RNone, mkSpec (map_key u (update_fields f) (sp_recs s)) (sp_visits s))
    | ORelease => (RNone, mkSpec (map (fun r => mkRec (r_url r) (r_parent r) (r_root r) (release_fields (r_f r))) (sp_recs s))
                                 (sp_visits s))
    | ORemoveMany us => (RNone, mkSpec (filter (fun r => negb (existsb (list_eqb (r_url r)) us)) (sp_recs s)) (sp_visits s))
    | ORemoveOne u => (RNone, mkSpec (filter (fun r => negb (list_eqb (r_url r) u)) (sp_recs s)) (sp_visits s))
    | OCount => (RCount (N.of_nat (length (sp_recs s))), s)
    | OGetOne u => (spec_get_one s u, s)
    | OContains u => (RBool (has_key u (sp_recs s)), s)
    | OGetAll => (RAll (sp_recs s), s)
    | OAddVisits vs => (RNone, mkSpec (sp_recs s) (fold_left spec_add_visit vs (sp_visits s)))
    | OGetRevisitId u dg => (RId (spec_get_revisit_id s u dg), s)
    | OReopen => (RNone, s)
    end.

  Fixpoint run_spec (s : spec) (ops : list op) : list (ret * list rec) :=
    match ops with
    | [] => []
    | o :: rest => let '(r, s') := spec_step s o in (r, sp_recs s') :: run_spec s' rest
    end.

  Definition spec_after (ops : list op) : spec := fold_left (fun s o => snd (spec_step s o)) ops empty_spec.
End WithParser.
