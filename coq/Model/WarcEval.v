(* Table-driven instances of the oracles of Model/Warc.v and the comparison
   predicates used by the generated correspondence cases of C05 / C07
   (harness/corr/c05.py).  The tables are recorded from the real libraries by the
   implementation driver on every run.  Definitions only. *)
From Coq Require Import List NArith Bool.
From Wpull Require Import Lib.FsModel Model.Warc Model.WarcText.
Import ListNotations.
Open Scope N_scope.
Open Scope bool_scope.

Fixpoint assoc (k : bytes) (t : list (bytes * bytes)) (d : bytes) : bytes :=
  match t with
  | [] => d
  | (a, b) :: r => if leqb a k then b else assoc k r d
  end.

Definition unknown : bytes := [63; 63; 63].

(* ids, dates: in creation order; ts: date -> unix time text; htab: input ->
   base32 digest; plains / wtab: per write the plain member and the bytes that
   were appended (the compressed member) *)
Definition tab_oracles (ids dates : list bytes) (ts htab : list (bytes * bytes)) (plains wtab : list bytes) : oracles :=
  mkOracles (fun x => assoc x htab unknown)
            (fun k m => if leqb m (nth k plains unknown) then nth k wtab unknown else unknown)
            (fun k => nth k ids unknown)
            (fun k => nth k dates unknown)
            (fun d => assoc d ts unknown)
            sniff.

Definition check_files (s : fs) (expected : list (name * bytes)) : bool :=
  forallb (fun nb => exists_file s (fst nb) && leqb (content s (fst nb)) (snd nb)) expected.

(* 0 = agree; 1 = the model raised; 2 = a file differs; 3 = different set of files *)
Definition check_lifetime (O : oracles) (C : cfg) (s0 : fs) (ops : list op) (logblock : bytes)
  (expected : list (name * bytes)) : nat :=
  match lifetime 64 O C s0 ops logblock with
  | Some st =>
      if negb (check_files (st_fs st) expected) then 2%nat
      else if negb (Nat.eqb (length (st_fs st)) (length expected)) then 3%nat
      else 0%nat
  | None => 1%nat
  end.

(* names of the files whose content differs (diagnostics) *)
Definition differing (O : oracles) (C : cfg) (s0 : fs) (ops : list op) (logblock : bytes)
  (expected : list (name * bytes)) : list (name * bytes) :=
  match lifetime 64 O C s0 ops logblock with
  | Some st => map (fun nb => (fst nb, content (st_fs st) (fst nb)))
                   (filter (fun nb => negb (leqb (content (st_fs st) (fst nb)) (snd nb))) expected)
  | None => []
  end.

(* an archive file given as earlier content + the writes that went into it *)
Definition expand (wtab : list bytes) (e : name * (bytes * list nat)) : name * bytes :=
  (fst e, fst (snd e) ++ concat (map (fun i => nth i wtab unknown) (snd (snd e)))).
Definition expected_files (wtab : list bytes) (lits : list (name * bytes)) (refs : list (name * (bytes * list nat)))
  : list (name * bytes) := lits ++ map (expand wtab) refs.

Fixpoint nonzero_from (i : nat) (l : list nat) : list nat :=
  match l with
  | [] => []
  | O :: r => nonzero_from (S i) r
  | _ :: r => i :: nonzero_from (S i) r
  end.
Definition nonzero (l : list nat) : list nat := nonzero_from 0 l.
