(* Executable model of wpull's robots.txt machinery (C20).  Definitions only.

   Transcribed from (worktree with the repairs applied: whole robots.txt body parsed, meta content
   attribute, difference_update for nofollow, per-origin fetch lock, robots check on redirect hops):
     wpull/thirdparty/robotexclusionrulesparser.py  parse / is_allowed / _Ruleset  (parts A-D)
     wpull/robotstxt.py                             RobotsTxtPool                  (part E)
     wpull/protocol/http/robots.py                  RobotsTxtChecker               (part E)
     wpull/protocol/http/web.py, redirect.py        the robots.txt WebSession loop (part E)
     wpull/processor/web.py, rule.py                _process_robots / check_initial_web_request /
                                                    _process_loop / check_subsequent_web_request (part F)
     wpull/scraper/html.py                          meta robots nofollow step      (part G)

   Text is [list N] (code points).  wpull hands the parser the response body as
   bytes, which the parser decodes as ISO-8859-1: every byte IS its code point.
   Library functions the parser leans on (str.strip/lower/find, re on a fixed
   pattern, urllib.parse.urlparse/urlunparse/unquote incl. the UTF-8 decoder with
   errors='replace') are modelled concretely for the inputs that can reach them
   and are tied to the running interpreter by the correspondence of every run. *)
From Coq Require Import List NArith Bool Arith String Ascii.
Import ListNotations.
Open Scope N_scope.
Open Scope bool_scope.

Definition str := list N.

(* ------------------------------------------------------------------ *)
(* A. strings                                                          *)
(* ------------------------------------------------------------------ *)
Definition s2l (s : string) : str := map N_of_ascii (list_ascii_of_string s).

Fixpoint seqb (a b : str) : bool :=
  match a, b with
  | [], [] => true
  | x :: a', y :: b' => (x =? y) && seqb a' b'
  | _, _ => false
  end.

Definition is_nil {A} (l : list A) : bool := match l with [] => true | _ => false end.

(* ASCII lower-casing: what re.IGNORECASE does to a latin-1 text character when
   it is compared with an ASCII pattern character *)
Definition lowerA (c : N) : N := if (65 <=? c) && (c <=? 90) then c + 32 else c.

(* str.lower() on one code point < 256 (identity above: see ASSUMPTIONS of the check) *)
Definition lower1 (c : N) : N :=
  if (65 <=? c) && (c <=? 90) then c + 32
  else if (192 <=? c) && (c <=? 222) && negb (c =? 215) then c + 32
  else c.
Definition lower (s : str) : str := map lower1 s.

(* str.isspace() for code points < 256 *)
Definition is_space (c : N) : bool :=
  ((9 <=? c) && (c <=? 13)) || ((28 <=? c) && (c <=? 32)) || (c =? 133) || (c =? 160).

Fixpoint lstrip (s : str) : str :=
  match s with
  | [] => []
  | c :: r => if is_space c then lstrip r else s
  end.
Definition rstrip (s : str) : str := rev (lstrip (rev s)).
Definition strip (s : str) : str := rstrip (lstrip s).

Fixpoint starts_with (p s : str) : bool :=
  match p, s with
  | [], _ => true
  | a :: p', b :: s' => (a =? b) && starts_with p' s'
  | _ :: _, [] => false
  end.

(* p in s *)
Fixpoint is_infix (p s : str) : bool :=
  starts_with p s || match s with [] => false | _ :: r => is_infix p r end.

(* s[:s.find(d)] when d occurs, else s *)
Fixpoint cut_at (d : N) (s : str) : str :=
  match s with
  | [] => []
  | c :: r => if c =? d then [] else c :: cut_at d r
  end.

(* s.split(d, 1) as (before, after); after = [] when d does not occur *)
Fixpoint split_first (d : N) (s : str) : str * str :=
  match s with
  | [] => ([], [])
  | c :: r => if c =? d then ([], r) else let '(a, b) := split_first d r in (c :: a, b)
  end.

(* ------------------------------------------------------------------ *)
(* B. percent decoding: _unquote_path                                  *)
(* ------------------------------------------------------------------ *)
(* re.sub("%2[fF]", "\n", path) *)
Fixpoint sub_2f (s : str) : str :=
  match s with
  | [] => []
  | a :: r1 =>
      match r1 with
      | b :: (c :: r3) =>
          if (a =? 37) && (b =? 50) && ((c =? 102) || (c =? 70)) then 10 :: sub_2f r3 else a :: sub_2f r1
      | _ => a :: sub_2f r1
      end
  end.

Definition hexv (c : N) : option N :=
  if (48 <=? c) && (c <=? 57) then Some (c - 48)
  else if (97 <=? c) && (c <=? 102) then Some (c - 87)
  else if (65 <=? c) && (c <=? 70) then Some (c - 55)
  else None.

(* urllib.parse._unquote_impl on an ASCII run: %XX -> byte, anything else literal *)
Fixpoint pct_decode (s : str) : list N :=
  match s with
  | [] => []
  | a :: r1 =>
      match r1 with
      | b :: (c :: r3) =>
          if a =? 37 then
            match hexv b, hexv c with
            | Some x, Some y => (16 * x + y) :: pct_decode r3
            | _, _ => a :: pct_decode r1
            end
          else a :: pct_decode r1
      | _ => a :: pct_decode r1
      end
  end.

(* bytes.decode('utf-8', 'replace') as CPython does it: one U+FFFD per maximal
   ill-formed prefix, the offending byte is re-examined as a start byte *)
Inductive u8st := U8Idle | U8Pend (need : nat) (acc lo hi : N).

Definition u8_start (b : N) : list N * u8st :=
  if b <? 128 then ([b], U8Idle)
  else if b <? 194 then ([65533], U8Idle)
  else if b <? 224 then ([], U8Pend 1 (b - 192) 128 191)
  else if b <? 240 then ([], U8Pend 2 (b - 224) (if b =? 224 then 160 else 128) (if b =? 237 then 159 else 191))
  else if b <? 245 then ([], U8Pend 3 (b - 240) (if b =? 240 then 144 else 128) (if b =? 244 then 143 else 191))
  else ([65533], U8Idle).

Definition u8_step (st : u8st) (b : N) : list N * u8st :=
  match st with
  | U8Idle => u8_start b
  | U8Pend n acc lo hi =>
      if (lo <=? b) && (b <=? hi) then
        let acc' := acc * 64 + (b - 128) in
        match n with
        | S (S n') => ([], U8Pend (S n') acc' 128 191)
        | _ => ([acc'], U8Idle)
        end
      else let '(o, st') := u8_start b in (65533 :: o, st')
  end.

Fixpoint utf8_decode_from (st : u8st) (bs : list N) : list N :=
  match bs with
  | [] => match st with U8Idle => [] | U8Pend _ _ _ _ => [65533] end
  | b :: r => let '(o, st') := u8_step st b in o ++ utf8_decode_from st' r
  end.
Definition utf8_decode (bs : list N) : list N := utf8_decode_from U8Idle bs.

(* urllib.parse.unquote(s) (utf-8, errors='replace'): maximal ASCII runs are
   percent-decoded and UTF-8 decoded, non-ASCII characters pass through *)
Definition unquote_run (run_rev : str) : str := utf8_decode (pct_decode (rev run_rev)).
Fixpoint unquote_aux (run_rev : str) (s : str) : str :=
  match s with
  | [] => unquote_run run_rev
  | c :: r => if c <? 128 then unquote_aux (c :: run_rev) r
              else unquote_run run_rev ++ c :: unquote_aux [] r
  end.
Definition unquote (s : str) : str := unquote_aux [] s.

Definition replace_nl (s : str) : str :=
  flat_map (fun c => if c =? 10 then [37; 50; 70] else [c]) s.

Definition unquote_path (s : str) : str := replace_nl (unquote (sub_2f s)).

(* ------------------------------------------------------------------ *)
(* C. the parser: RobotExclusionRulesParser.parse                      *)
(* ------------------------------------------------------------------ *)
(* _end_of_line_regex.sub("\n", s).split("\n"):  CRLF | CR | LF *)
Fixpoint split_lines_aux (prev_cr : bool) (cur_rev : str) (s : str) : list str :=
  match s with
  | [] => [rev cur_rev]
  | c :: r =>
      if c =? 13 then rev cur_rev :: split_lines_aux true [] r
      else if c =? 10 then
        (if prev_cr then split_lines_aux false cur_rev r
         else rev cur_rev :: split_lines_aux false [] r)
      else split_lines_aux false (c :: cur_rev) r
  end.
Definition split_lines (s : str) : list str := split_lines_aux false [] s.

Inductive field := FUserAgent | FAllow | FDisallow | FSitemap | FCrawlDelay.

Definition kw_allow : str := Eval vm_compute in s2l "allow:".
Definition kw_disallow : str := Eval vm_compute in s2l "disallow:".
Definition kw_user_agent : str := Eval vm_compute in s2l "user-agent:".
Definition kw_useragent : str := Eval vm_compute in s2l "useragent:".
Definition kw_sitemap : str := Eval vm_compute in s2l "sitemap:".
Definition kw_crawl_delay : str := Eval vm_compute in s2l "crawl-delay:".

(* the keyword (lower case, with its colon) matched case-insensitively at the head of s *)
Fixpoint strip_prefix_ci (kw s : str) : option str :=
  match kw, s with
  | [], _ => Some s
  | k :: kw', c :: s' => if lowerA c =? k then strip_prefix_ci kw' s' else None
  | _ :: _, [] => None
  end.

(* [ \t]* *)
Fixpoint skip_blanks (s : str) : str :=
  match s with
  | [] => []
  | c :: r => if (c =? 32) || (c =? 9) then skip_blanks r else s
  end.

(* _directive_regex anchored at the head of s; group 2 = rest of the line *)
Definition directive_at (s : str) : option (field * str) :=
  match strip_prefix_ci kw_allow s with
  | Some r => Some (FAllow, skip_blanks r)
  | None =>
  match strip_prefix_ci kw_disallow s with
  | Some r => Some (FDisallow, skip_blanks r)
  | None =>
  match strip_prefix_ci kw_user_agent s with
  | Some r => Some (FUserAgent, skip_blanks r)
  | None =>
  match strip_prefix_ci kw_useragent s with
  | Some r => Some (FUserAgent, skip_blanks r)
  | None =>
  match strip_prefix_ci kw_sitemap s with
  | Some r => Some (FSitemap, skip_blanks r)
  | None =>
  match strip_prefix_ci kw_crawl_delay s with
  | Some r => Some (FCrawlDelay, skip_blanks r)
  | None => None
  end end end end end end.

(* _directive_regex.findall(line)[0]: leftmost match *)
Fixpoint find_directive (s : str) : option (field * str) :=
  match directive_at s with
  | Some x => Some x
  | None => match s with [] => None | _ :: r => find_directive r end
  end.

(* _scrub_data: drop characters < 0x20 (the second alternative of the control
   character regex, "\017" followed by "7", is shadowed by the first), strip *)
Definition scrub (s : str) : str := strip (filter (fun c => 32 <=? c) s).

(* _Ruleset: names in file order, rules (allow?, unquoted path) in file order *)
Record ruleset := { rs_names : list str; rs_rules : list (bool * str) }.

Definition rs_empty : ruleset := {| rs_names := []; rs_rules := [] |}.
Definition rs_add_name (r : ruleset) (n : str) : ruleset :=
  {| rs_names := rs_names r ++ [n]; rs_rules := rs_rules r |}.
Definition rs_add_rule (r : ruleset) (allow : bool) (path : str) : ruleset :=
  {| rs_names := rs_names r; rs_rules := rs_rules r ++ [(allow, unquote_path path)] |}.
Definition rs_not_empty (r : ruleset) : bool := negb (is_nil (rs_rules r)) && negb (is_nil (rs_names r)).
Definition rs_is_default (r : ruleset) : bool := existsb (seqb [42]) (rs_names r).

Record pstate := { ps_done : list ruleset; ps_cur : option ruleset; ps_prev_ua : bool }.

Definition ps_init : pstate := {| ps_done := []; ps_cur := None; ps_prev_ua := false |}.

Definition flush_cur (done : list ruleset) (cur : option ruleset) : list ruleset :=
  match cur with
  | Some r => if rs_not_empty r then done ++ [r] else done
  | None => done
  end.

Definition parse_directive (st : pstate) (f : field) (data : str) : pstate :=
  match f with
  | FUserAgent =>
      if ps_prev_ua st then
        {| ps_done := ps_done st;
           ps_cur := match ps_cur st with
                     | Some r => Some (if is_nil data then r else rs_add_name r data)
                     | None => None
                     end;
           ps_prev_ua := true |}
      else
        {| ps_done := flush_cur (ps_done st) (ps_cur st);
           ps_cur := Some (if is_nil data then rs_empty else rs_add_name rs_empty data);
           ps_prev_ua := true |}
  | FAllow =>
      {| ps_done := ps_done st;
         ps_cur := match ps_cur st with Some r => Some (rs_add_rule r true data) | None => None end;
         ps_prev_ua := false |}
  | FDisallow =>
      {| ps_done := ps_done st;
         ps_cur := match ps_cur st with Some r => Some (rs_add_rule r false data) | None => None end;
         ps_prev_ua := false |}
  | FSitemap | FCrawlDelay =>
      {| ps_done := ps_done st; ps_cur := ps_cur st; ps_prev_ua := false |}
  end.

Definition parse_line (st : pstate) (raw : str) : pstate :=
  let line := strip raw in
  if match line with c :: _ => c =? 35 | [] => false end then st       (* comment-only line: no boundary *)
  else
    let line := strip (cut_at 35 line) in
    match line with
    | [] => {| ps_done := flush_cur (ps_done st) (ps_cur st); ps_cur := None; ps_prev_ua := false |}
    | _ :: _ =>
        match find_directive line with
        | None => st                                   (* "everything else": ignored, state untouched *)
        | Some (f, d) => parse_directive st f (scrub d)
        end
    end.

Definition parse_robots (body : str) : list ruleset :=
  let st := fold_left parse_line (split_lines body) ps_init in
  let all := flush_cur (ps_done st) (ps_cur st) in
  filter (fun r => negb (rs_is_default r)) all ++ filter rs_is_default all.

(* ------------------------------------------------------------------ *)
(* D. the matcher: is_allowed / does_user_agent_match / is_url_allowed *)
(* ------------------------------------------------------------------ *)
(* urlparse(url) with scheme and netloc dropped, then urlunparse: the request
   target "path[;params][?query][#fragment]" with empty components elided.
   Input: URLInfo.url of an http/https URL (scheme://authority/path[?query]). *)
Definition is_scheme_char (c : N) : bool :=
  ((48 <=? c) && (c <=? 57)) || ((65 <=? c) && (c <=? 90)) || ((97 <=? c) && (c <=? 122))
  || (c =? 43) || (c =? 45) || (c =? 46).
Definition is_alpha (c : N) : bool := ((65 <=? c) && (c <=? 90)) || ((97 <=? c) && (c <=? 122)).

Definition drop_scheme (u : str) : str :=
  if existsb (N.eqb 58) u then
    let '(sch, rest) := split_first 58 u in
    match sch with
    | c :: _ => if is_alpha c && forallb is_scheme_char sch then rest else u
    | [] => u
    end
  else u.

(* _splitnetloc(url, 2): the authority ends at the first of / ? # *)
Fixpoint skip_netloc (s : str) : str :=
  match s with
  | [] => []
  | c :: r => if (c =? 47) || (c =? 63) || (c =? 35) then s else skip_netloc r
  end.

Definition drop_netloc (s : str) : str :=
  match s with
  | a :: b :: r => if (a =? 47) && (b =? 47) then skip_netloc r else s
  | _ => s
  end.

(* _splitparams: ";" in the last path segment *)
Definition split_params (path : str) : str * str :=
  let tail := rev (cut_at 47 (rev path)) in
  let head := firstn (List.length path - List.length tail) path in
  if existsb (N.eqb 59) tail then
    let '(a, b) := split_first 59 tail in (head ++ a, b)
  else (path, []).

Definition url_target (u : str) : str :=
  let r := drop_netloc (drop_scheme u) in
  let '(r1, frag) := split_first 35 r in
  let '(p0, query) := split_first 63 r1 in
  let '(path, params) := split_params p0 in
  path ++ (if is_nil params then [] else 59 :: params)
       ++ (if is_nil query then [] else 63 :: query)
       ++ (if is_nil frag then [] else 35 :: frag).

(* re.match(".*".join(map(re.escape, p.split("*"))) + ("$" if anch else ""), s):
   every character of p other than "*" is a literal, "*" is ".*" *)
Fixpoint wmatch (p : str) (anch : bool) {struct p} : str -> bool :=
  match p with
  | [] => fun s => if anch then is_nil s else true
  | c :: p' =>
      if c =? 42 then
        fix star (s : str) : bool :=
          wmatch p' anch s || match s with [] => false | _ :: s' => star s' end
      else
        fun s => match s with [] => false | d :: s' => (c =? d) && wmatch p' anch s' end
  end.

Definition has_star (p : str) : bool := existsb (N.eqb 42) p.
Definition ends_dollar (p : str) : bool := match rev p with c :: _ => c =? 36 | [] => false end.

(* one iteration of the loop in _Ruleset.is_url_allowed: Some verdict = "Ding!" *)
Definition eval_rule (allow : bool) (path url : str) : option bool :=
  if has_star path || ends_dollar path then
    if (if ends_dollar path then wmatch (removelast path) true url else wmatch path false url)
    then Some allow else None
  else if starts_with path url then Some (if is_nil path then negb allow else allow)
  else None.

Fixpoint first_match (rules : list (bool * str)) (url : str) : bool :=
  match rules with
  | [] => true
  | (a, p) :: r => match eval_rule a p url with Some v => v | None => first_match r url end
  end.

Definition name_matches (ua_l : str) (n : str) : bool := seqb n [42] || is_infix (lower n) ua_l.
Definition ua_match (names : list str) (ua : str) : bool := existsb (name_matches (lower ua)) names.

(* RobotExclusionRulesParser.is_allowed(user_agent, url) with the default GYM2008 syntax *)
Definition is_allowed (rsets : list ruleset) (ua url : str) : bool :=
  match find (fun r => ua_match (rs_names r) ua) rsets with
  | Some r => first_match (rs_rules r) (unquote_path (url_target url))
  | None => true
  end.

(* ------------------------------------------------------------------ *)
(* E. pool and checker                                                 *)
(* ------------------------------------------------------------------ *)
(* RobotsTxtPool.url_info_key: (scheme, hostname, port) *)
Record origin := { o_scheme : str; o_host : str; o_port : N }.
Definition origin_eqb (a b : origin) : bool :=
  seqb (o_scheme a) (o_scheme b) && seqb (o_host a) (o_host b) && (o_port a =? o_port b).

(* a URLInfo as far as this property looks at it: key fields and the .url text *)
Record url := { u_origin : origin; u_text : str }.

Definition pool := list (origin * list ruleset).
Fixpoint pool_lookup (p : pool) (o : origin) : option (list ruleset) :=
  match p with
  | [] => None
  | (o', r) :: rest => if origin_eqb o' o then Some r else pool_lookup rest o
  end.
Definition pool_store (p : pool) (o : origin) (r : list ruleset) : pool := (o, r) :: p.

(* RobotsTxtPool.can_fetch *)
Definition pool_can_fetch (r : list ruleset) (ua : str) (u : url) : bool := is_allowed r ua (u_text u).

(* what one response of the robots.txt WebSession is, as far as the checker and
   the redirect tracker look at it *)
Inductive response :=
| Resp (status : N) (has_location : bool) (location : option url) (body : str)
       (* has_location: a Location field is present and non-empty; location: it joined to a valid URL *)
| RespProtocolError       (* session.start()/download() raised ProtocolError *)
| RespNetworkError.       (* any other REMOTE_ERROR (connection refused, DNS, timeout ...) *)

Definition is_redirect_status (s : N) : bool :=
  (s =? 301) || (s =? 302) || (s =? 303) || (s =? 307) || (s =? 308).

(* the tail of fetch_robots_txt once the session is done *)
Inductive robots_action := RAParse (data : str) | RABlank | RAServerError.
Definition status_action (status : N) (body : str) : robots_action :=
  if (500 <=? status) && (status <=? 599) then RAServerError
  else if status =? 200 then RAParse body          (* _read_content: response.body.read() - the whole body *)
  else RABlank.

(* WebSession._process_response + RedirectTracker for one response *)
Inductive session_result :=
| SNext (target : url) (n : N)       (* another request follows *)
| SFinal (status : N) (body : str)   (* session.done() *)
| SProtocolError                     (* raised inside the loop: _accept_as_blank *)
| SOtherError.                       (* propagates out of fetch_robots_txt *)

Definition session_step (max_redirects : N) (n : N) (r : response) : session_result :=
  match r with
  | RespProtocolError => SProtocolError
  | RespNetworkError => SOtherError
  | Resp status has_loc loc body =>
      let n' := if has_loc then n + 1 else n in       (* RedirectTracker.load *)
      if is_redirect_status status then
        if max_redirects <? n' then SProtocolError     (* "Too many redirects." *)
        else match has_loc, loc with
             | true, Some t => SNext t n'
             | _, _ => SProtocolError                  (* location missing / invalid *)
             end
      else SFinal status body
  end.

(* ------------------------------------------------------------------ *)
(* F. the gate: workers of the crawl engine around the checker         *)
(* ------------------------------------------------------------------ *)
(* One worker = one WebProcessorSession.process() call at a time.  Steps are the atomic
   stretches of code between two suspension points (yield from that reaches the event loop);
   any interleaving of the workers' steps is a run.  The URL table, the URL filters, the
   server and the redirect locations are unconstrained: any URL may be picked at any time,
   the filter verdict is an arbitrary boolean, any response may arrive.

   WCheck     _process_robots (hop = false) / the top of a _process_loop iteration after a
              redirect (hop = true): filters, then RobotsTxtChecker.can_fetch up to its first
              suspension point
   WLockWait  can_fetch: NotInPoolError seen, waiting for the origin's fetch lock
   WRobots*   fetch_robots_txt under the lock: request of the robots.txt session pending / sent
   WFetch*    _fetch_one: request for cur pending / sent *)
Record config := { c_robots : bool; c_ua : str; c_max_redirects : N; c_workers : nat }.

Definition robots_url (o : origin) : url := {| u_origin := o; u_text := [] |}.
(* the text of scheme://host[:port]/robots.txt is URL formatting (C10/C16), not needed here *)

Inductive wstate :=
| WIdle
| WCheck (item cur : url) (hop : bool)
| WLockWait (item cur : url) (hop : bool)
| WRobotsSend (item cur : url) (hop : bool) (target : url) (n : N)
| WRobotsWait (item cur : url) (hop : bool) (target : url) (n : N)
| WFetchSend (item cur : url) (hop : bool)
| WFetchWait (item cur : url) (hop : bool).

Inductive event :=
| EvFetchStart (w : nat) (o : origin)                 (* fetch_robots_txt begins (lock held, pool has no parser) *)
| EvRobotsReq (w : nat) (o : origin) (target : url)   (* a request of the robots.txt session for origin o on the wire *)
| EvStored (w : nat) (o : origin) (rules : list ruleset)   (* load_robots_txt: acquisition complete *)
| EvPostponed (w : nat) (item : url)                  (* ServerError / network error: handle_error -> set_status(error), try_count + 1 *)
| EvSkipped (w : nat) (item : url)                    (* verdict False: item_session.skip() -> set_status(skipped) *)
| EvReq (w : nat) (item : url) (target : url) (hop : bool).  (* a request of the item's own session on the wire *)

Definition locks := origin -> bool.       (* RobotsTxtChecker._fetch_locks: is the origin's asyncio.Lock held *)
Definition lock_set (l : locks) (o : origin) (v : bool) : locks := fun x => if origin_eqb o x then v else l x.

Record gstate := { g_pool : pool; g_locks : locks; g_workers : nat -> wstate; g_trace : list event (* newest first *) }.

Definition g_init : gstate := {| g_pool := []; g_locks := fun _ => false; g_workers := fun _ => WIdle; g_trace := [] |}.

Definition set_worker (ws : nat -> wstate) (i : nat) (s : wstate) : nat -> wstate :=
  fun j => if Nat.eqb j i then s else ws j.

(* can_fetch_pool when a parser is in the pool, and what the caller does with the verdict *)
Definition decide (cfg : config) (i : nat) (u cur : url) (hop : bool) (r : list ruleset) : wstate * list event :=
  if pool_can_fetch r (c_ua cfg) cur then (WFetchSend u cur hop, [])
  else (WIdle, [EvSkipped i u]).

(* check_initial_web_request (hop = false) / check_subsequent_web_request + consult_robots_txt
   (hop = true), up to the first suspension point; filters_ok = the consult_filters verdict *)
Definition on_check (cfg : config) (p : pool) (i : nat) (u cur : url) (hop : bool) (filters_ok : bool)
  : wstate * list event :=
  if negb filters_ok then (WIdle, [EvSkipped i u])
  else if negb (c_robots cfg) then (WFetchSend u cur hop, [])
  else match pool_lookup p (u_origin cur) with
       | Some r => decide cfg i u cur hop r
       | None => (WLockWait u cur hop, [])
       end.

(* the lock is obtained: the pool is looked at again; third component: the lock stays held *)
Definition on_lock (cfg : config) (p : pool) (i : nat) (u cur : url) (hop : bool) : wstate * list event * bool :=
  match pool_lookup p (u_origin cur) with
  | Some r => let '(w, ev) := decide cfg i u cur hop r in (w, ev, false)
  | None => (WRobotsSend u cur hop (robots_url (u_origin cur)) 0, [EvFetchStart i (u_origin cur)], true)
  end.

(* a response arrives in fetch_robots_txt; on completion can_fetch_pool is evaluated and the lock
   released in the same step (no suspension point in between); last component: the lock stays held *)
Definition on_robots_response (cfg : config) (p : pool) (i : nat) (u cur : url) (hop : bool) (n : N) (r : response)
  : pool * wstate * list event * bool :=
  let o := u_origin cur in
  let store rules :=
    let '(w, ev) := decide cfg i u cur hop rules in (pool_store p o rules, w, ev ++ [EvStored i o rules], false) in
  match session_step (c_max_redirects cfg) n r with
  | SNext t n' => (p, WRobotsSend u cur hop t n', [], true)
  | SProtocolError => store (parse_robots [])
  | SOtherError => (p, WIdle, [EvPostponed i u], false)
  | SFinal status body =>
      match status_action status body with
      | RAServerError => (p, WIdle, [EvPostponed i u], false)
      | RAParse data => store (parse_robots data)
      | RABlank => store (parse_robots [])
      end
  end.

(* what the item's own session does with a response: follow a redirect (or repeat with
   credentials) or finish *)
Inductive fetch_reply := FRRedirect (target : url) | FRDone.

Inductive gstep (cfg : config) : gstate -> gstate -> Prop :=
| StepPick s i u :
    (i < c_workers cfg)%nat -> g_workers s i = WIdle ->
    gstep cfg s {| g_pool := g_pool s; g_locks := g_locks s;
                   g_workers := set_worker (g_workers s) i (WCheck u u false); g_trace := g_trace s |}
| StepCheck s i u cur hop filters_ok w' ev :
    (i < c_workers cfg)%nat -> g_workers s i = WCheck u cur hop ->
    on_check cfg (g_pool s) i u cur hop filters_ok = (w', ev) ->
    gstep cfg s {| g_pool := g_pool s; g_locks := g_locks s;
                   g_workers := set_worker (g_workers s) i w'; g_trace := ev ++ g_trace s |}
| StepLock s i u cur hop w' ev keep :
    (i < c_workers cfg)%nat -> g_workers s i = WLockWait u cur hop ->
    g_locks s (u_origin cur) = false ->
    on_lock cfg (g_pool s) i u cur hop = (w', ev, keep) ->
    gstep cfg s {| g_pool := g_pool s; g_locks := lock_set (g_locks s) (u_origin cur) keep;
                   g_workers := set_worker (g_workers s) i w'; g_trace := ev ++ g_trace s |}
| StepRobotsSend s i u cur hop t n :
    (i < c_workers cfg)%nat -> g_workers s i = WRobotsSend u cur hop t n ->
    gstep cfg s {| g_pool := g_pool s; g_locks := g_locks s;
                   g_workers := set_worker (g_workers s) i (WRobotsWait u cur hop t n);
                   g_trace := EvRobotsReq i (u_origin cur) t :: g_trace s |}
| StepRobotsResp s i u cur hop t n r p' w' ev keep :
    (i < c_workers cfg)%nat -> g_workers s i = WRobotsWait u cur hop t n ->
    on_robots_response cfg (g_pool s) i u cur hop n r = (p', w', ev, keep) ->
    gstep cfg s {| g_pool := p'; g_locks := lock_set (g_locks s) (u_origin cur) keep;
                   g_workers := set_worker (g_workers s) i w'; g_trace := ev ++ g_trace s |}
| StepFetchSend s i u cur hop (sub_ok : bool) :
    (* the top of the _process_loop iteration: check_subsequent_web_request (filters once more) *)
    (i < c_workers cfg)%nat -> g_workers s i = WFetchSend u cur hop ->
    gstep cfg s (if sub_ok
                 then {| g_pool := g_pool s; g_locks := g_locks s;
                         g_workers := set_worker (g_workers s) i (WFetchWait u cur hop);
                         g_trace := EvReq i u cur hop :: g_trace s |}
                 else {| g_pool := g_pool s; g_locks := g_locks s;
                         g_workers := set_worker (g_workers s) i WIdle;
                         g_trace := [EvSkipped i u] ++ g_trace s |})
| StepFetchResp s i u cur hop reply :
    (i < c_workers cfg)%nat -> g_workers s i = WFetchWait u cur hop ->
    gstep cfg s {| g_pool := g_pool s; g_locks := g_locks s;
                   g_workers := set_worker (g_workers s) i
                                  (match reply with FRRedirect t => WCheck u t true | FRDone => WIdle end);
                   g_trace := g_trace s |}.

Inductive reachable (cfg : config) : gstate -> Prop :=
| ReachInit : reachable cfg g_init
| ReachStep s s' : reachable cfg s -> gstep cfg s s' -> reachable cfg s'.

(* the same steps as a function of a label (used to replay observed runs of the real code
   through the model; Proofs: every accepted label is a gstep) *)
Inductive label :=
| LPick (i : nat) (u : url)
| LCheck (i : nat) (filters_ok : bool)
| LLock (i : nat)
| LRobotsSend (i : nat)
| LRobotsResp (i : nat) (r : response)
| LFetchSend (i : nat) (sub_ok : bool)
| LFetchResp (i : nat) (reply : fetch_reply).

Definition step_fun (cfg : config) (s : gstate) (l : label) : option gstate :=
  match l with
  | LPick i u =>
      if negb (Nat.ltb i (c_workers cfg)) then None else
      match g_workers s i with
      | WIdle => Some {| g_pool := g_pool s; g_locks := g_locks s;
                         g_workers := set_worker (g_workers s) i (WCheck u u false); g_trace := g_trace s |}
      | _ => None
      end
  | LCheck i f =>
      if negb (Nat.ltb i (c_workers cfg)) then None else
      match g_workers s i with
      | WCheck u cur hop =>
          let '(w', ev) := on_check cfg (g_pool s) i u cur hop f in
          Some {| g_pool := g_pool s; g_locks := g_locks s;
                  g_workers := set_worker (g_workers s) i w'; g_trace := ev ++ g_trace s |}
      | _ => None
      end
  | LLock i =>
      if negb (Nat.ltb i (c_workers cfg)) then None else
      match g_workers s i with
      | WLockWait u cur hop =>
          if g_locks s (u_origin cur) then None else
          let '(w', ev, keep) := on_lock cfg (g_pool s) i u cur hop in
          Some {| g_pool := g_pool s; g_locks := lock_set (g_locks s) (u_origin cur) keep;
                  g_workers := set_worker (g_workers s) i w'; g_trace := ev ++ g_trace s |}
      | _ => None
      end
  | LRobotsSend i =>
      if negb (Nat.ltb i (c_workers cfg)) then None else
      match g_workers s i with
      | WRobotsSend u cur hop t n =>
          Some {| g_pool := g_pool s; g_locks := g_locks s;
                  g_workers := set_worker (g_workers s) i (WRobotsWait u cur hop t n);
                  g_trace := EvRobotsReq i (u_origin cur) t :: g_trace s |}
      | _ => None
      end
  | LRobotsResp i r =>
      if negb (Nat.ltb i (c_workers cfg)) then None else
      match g_workers s i with
      | WRobotsWait u cur hop t n =>
          let '(p', w', ev, keep) := on_robots_response cfg (g_pool s) i u cur hop n r in
          Some {| g_pool := p'; g_locks := lock_set (g_locks s) (u_origin cur) keep;
                  g_workers := set_worker (g_workers s) i w'; g_trace := ev ++ g_trace s |}
      | _ => None
      end
  | LFetchSend i sub_ok =>
      if negb (Nat.ltb i (c_workers cfg)) then None else
      match g_workers s i with
      | WFetchSend u cur hop =>
          Some (if sub_ok
                then {| g_pool := g_pool s; g_locks := g_locks s;
                        g_workers := set_worker (g_workers s) i (WFetchWait u cur hop);
                        g_trace := EvReq i u cur hop :: g_trace s |}
                else {| g_pool := g_pool s; g_locks := g_locks s;
                        g_workers := set_worker (g_workers s) i WIdle;
                        g_trace := [EvSkipped i u] ++ g_trace s |})
      | _ => None
      end
  | LFetchResp i reply =>
      if negb (Nat.ltb i (c_workers cfg)) then None else
      match g_workers s i with
      | WFetchWait u cur hop =>
          Some {| g_pool := g_pool s; g_locks := g_locks s;
                  g_workers := set_worker (g_workers s) i
                                 (match reply with FRRedirect t => WCheck u t true | FRDone => WIdle end);
                  g_trace := g_trace s |}
      | _ => None
      end
  end.

Fixpoint run_labels (cfg : config) (s : gstate) (ls : list label) : option gstate :=
  match ls with
  | [] => Some s
  | l :: r => match step_fun cfg s l with Some s' => run_labels cfg s' r | None => None end
  end.

(* a deterministic run of ONE acquisition against scripted responses (used by the
   function-level correspondence with RobotsTxtChecker.can_fetch): returns the
   number of requests made and the outcome *)
Inductive acq_outcome := AOVerdict (stored : list ruleset) (allowed : bool) | AOError | AOStuck.

Fixpoint run_acquisition (cfg : config) (u : url) (n : N) (rs : list response) (sent : nat)
  : nat * acq_outcome :=
  match rs with
  | [] => (S sent, AOStuck)      (* the request is on the wire, the script has no answer *)
  | r :: rest =>
      match session_step (c_max_redirects cfg) n r with
      | SNext _ n' => run_acquisition cfg u n' rest (S sent)
      | SProtocolError => (S sent, AOVerdict (parse_robots []) (pool_can_fetch (parse_robots []) (c_ua cfg) u))
      | SOtherError => (S sent, AOError)
      | SFinal status body =>
          match status_action status body with
          | RAServerError => (S sent, AOError)
          | RAParse data => (S sent, AOVerdict (parse_robots data) (pool_can_fetch (parse_robots data) (c_ua cfg) u))
          | RABlank => (S sent, AOVerdict (parse_robots []) (pool_can_fetch (parse_robots []) (c_ua cfg) u))
          end
      end
  end.

(* ResultRule.handle_error for the errors a robots.txt acquisition can end with, and what the URL
   table does with the item afterwards (TriesFilter: try_count < tries; tries = 0: no limit).
   One visit of an item whose origin answers robots.txt with 5xx: the acquisition is made again
   (nothing was stored), the item is set to "error" with try_count + 1, its URL is not requested.
   After [tries] such visits the TriesFilter fails and the item is skipped. *)
Inductive istatus := StTodo | StError | StSkipped | StDone.
Record item := { it_status : istatus; it_tries : nat }.

(* one visit while robots.txt keeps answering 5xx: (item', robots.txt acquisitions, requests for the URL) *)
Definition visit_5xx (tries : nat) (it : item) : item * nat * nat :=
  if (Nat.eqb tries 0) || Nat.ltb (it_tries it) tries
  then ({| it_status := StError; it_tries := S (it_tries it) |}, 1%nat, 0%nat)
  else ({| it_status := StSkipped; it_tries := S (it_tries it) |}, 0%nat, 0%nat).

(* the item is picked again while its status is todo / error *)
Fixpoint visits_5xx (fuel tries : nat) (it : item) (acqs : nat) : item * nat :=
  match fuel with
  | O => (it, acqs)
  | S f => match it_status it with
           | StTodo | StError => let '(it', a, _) := visit_5xx tries it in visits_5xx f tries it' (acqs + a)
           | _ => (it, acqs)
           end
  end.

(* ------------------------------------------------------------------ *)
(* G. the HTML scraper's nofollow step                                 *)
(* ------------------------------------------------------------------ *)
(* an element as robots_cannot_follow sees it: tag, attrib.get('name',''), attrib.get('content','') *)
Record elem := { e_tag : str; e_name : str; e_content : str }.

Definition kw_meta : str := Eval vm_compute in s2l "meta".
Definition kw_robots : str := Eval vm_compute in s2l "robots".
Definition kw_nofollow : str := Eval vm_compute in s2l "nofollow".

Definition robots_cannot_follow (e : elem) : bool :=
  seqb (e_tag e) kw_meta && seqb (lower (e_name e)) kw_robots && is_infix kw_nofollow (lower (e_content e)).

(* LinkContext: link, inline, linked *)
Record lctx := { lc_link : str; lc_inline : bool; lc_linked : bool }.

(* HTMLScraper.scrape after _process_elements: robots = the scraper's robots flag *)
Definition scrape_nofollow (robots : bool) (elems : list elem) (links : list lctx) : list lctx :=
  if robots && existsb robots_cannot_follow elems
  then filter (fun l => negb (lc_linked l)) links     (* difference_update(linked contexts) *)
  else links.

(* ProcessingRule._process_scrape_info: children handed to add_child_url (filters aside) *)
Definition children (links : list lctx) : list (str * bool) := map (fun l => (lc_link l, lc_inline l)) links.
