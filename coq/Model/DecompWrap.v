(* A CONCRETE model of the two wrappers zlib puts around a deflate stream, over an
   abstract RAW inflater only:

     wbits = 15   RFC 1950: CMF FLG [DICTID] deflate-data ADLER32(big endian)
     wbits = 31   RFC 1952: 1f 8b CM FLG MTIME(4) XFL OS [XLEN extra] [name 0]
                  [comment 0] [HCRC16] deflate-data CRC32(le) ISIZE(le)
     wbits = -15  the raw inflater itself

   transcribed from the state machine of zlib's inflate.c (HEAD FLAGS TIME OS
   EXLEN EXTRA NAME COMMENT HCRC DICTID TYPE.. CHECK LENGTH DONE), byte at a time,
   with the byte index at which each error is raised (NEEDBITS(16) for the magic
   and for CM+FLG: the error comes with the second byte of each pair).  Adler-32
   and CRC-32 are computed in Gallina.  What stays abstract is the raw inflater
   ([rstep]: None = invalid deflate data; [reof]: the final block has ended).

   The instance [wmachine] plugs into Model/Decomp.v like any zlib machine, so
   every theorem there holds for it; Proofs/DecompWrapProofs.v adds what can only
   be said once the wrappers are concrete.  On every run the correspondence
   compares this model, driven by the real raw inflater's per-byte table, with
   the real zlib.decompressobj(15) / (31) byte for byte (error index, eof,
   output timing).  Definitions only. *)
From Coq Require Import List NArith Bool.
From Wpull Require Import Model.Decomp.
Import ListNotations.
Open Scope N_scope.
Open Scope bool_scope.

(* ---- checksums ---- *)
Definition adler_upd (ab : N * N) (x : N) : N * N :=
  let a := (fst ab + x) mod 65521 in (a, (snd ab + a) mod 65521).
Definition adler_feed (ab : N * N) (out : list N) : N * N := fold_left adler_upd out ab.
Definition adler_init : N * N := (1, 0).
Definition adler_value (ab : N * N) : N := snd ab * 65536 + fst ab.
Definition adler32 (out : list N) : N := adler_value (adler_feed adler_init out).

(* CRC-32 (reflected, polynomial 0xEDB88320), register form *)
Definition crc_bit (c : N) : N :=
  if N.testbit c 0 then N.lxor (N.shiftr c 1) 3988292384 else N.shiftr c 1.
Definition crc_upd (c x : N) : N :=
  crc_bit (crc_bit (crc_bit (crc_bit (crc_bit (crc_bit (crc_bit (crc_bit (N.lxor c x)))))))).
Definition crc_feed (c : N) (data : list N) : N := fold_left crc_upd data c.
Definition crc_init : N := 4294967295.
Definition crc_value (c : N) : N := N.lxor c 4294967295.
Definition crc32 (data : list N) : N := crc_value (crc_feed crc_init data).

(* the zlib (RFC 1950) header check of inflate.c, without the FDICT bit *)
Definition zw_hdr_ok (c f : N) : bool :=
  (N.land c 15 =? 8) && (N.shiftr c 4 <=? 7) && ((c * 256 + f) mod 31 =? 0).

Section Wrap.
  Variable rst : Type.
  Variable rinit : rst.
  Variable rstep : rst -> N -> option (rst * list N).
  Variable reof : rst -> bool.

  (* ---- wbits = 15 ---- *)
  Inductive zw :=
  | ZW_cmf
  | ZW_flg (c : N)
  | ZW_dict (k : nat)                            (* FDICT: 4 bytes DICTID, then Z_NEED_DICT -> error *)
  | ZW_body (r : rst) (ab : N * N)               (* running Adler-32 of the output *)
  | ZW_trail (k : nat) (acc : N) (ab : N * N)    (* k trailer bytes read, big endian value so far *)
  | ZW_done.

  Definition zw_step (s : zw) (x : N) : option (zw * list N) :=
    match s with
    | ZW_cmf => Some (ZW_flg x, [])
    | ZW_flg c =>
        if zw_hdr_ok c x
        then Some (if N.land x 32 =? 0 then ZW_body rinit adler_init else ZW_dict 0, [])
        else None
    | ZW_dict k => match k with 3%nat => None | _ => Some (ZW_dict (S k), []) end
    | ZW_body r ab =>
        match rstep r x with
        | None => None
        | Some (r', o) =>
            let ab' := adler_feed ab o in
            Some (if reof r' then ZW_trail 0 0 ab' else ZW_body r' ab', o)
        end
    | ZW_trail k acc ab =>
        let acc' := acc * 256 + x in
        match k with
        | 3%nat => if acc' =? adler_value ab then Some (ZW_done, []) else None
        | _ => Some (ZW_trail (S k) acc' ab, [])
        end
    | ZW_done => Some (ZW_done, [])
    end.

  (* ---- wbits = 31 ---- *)
  Inductive gw :=
  | GW_hdr (k : nat) (prev flg hc : N)           (* the 10 fixed bytes; hc = CRC register over the header so far *)
  | GW_xlen (k : nat) (lo flg hc : N)
  | GW_extra (lft flg hc : N)
  | GW_name (flg hc : N)
  | GW_comment (flg hc : N)
  | GW_hcrc (k : nat) (lo hc : N)
  | GW_body (r : rst) (crc len : N)
  | GW_trail (k : nat) (acc crc len : N)         (* 8 bytes, little endian: CRC32 then ISIZE *)
  | GW_done.

  Definition gw_body0 : gw := GW_body rinit crc_init 0.
  Definition gw_after_comment (flg hc : N) : gw :=
    if N.testbit flg 1 then GW_hcrc 0 0 hc else gw_body0.
  Definition gw_after_name (flg hc : N) : gw :=
    if N.testbit flg 4 then GW_comment flg hc else gw_after_comment flg hc.
  Definition gw_after_extra (flg hc : N) : gw :=
    if N.testbit flg 3 then GW_name flg hc else gw_after_name flg hc.
  Definition gw_after_fixed (flg hc : N) : gw :=
    if N.testbit flg 2 then GW_xlen 0 0 flg hc else gw_after_extra flg hc.

  Definition gw_step (s : gw) (x : N) : option (gw * list N) :=
    match s with
    | GW_hdr k prev flg hc =>
        let hc' := crc_upd hc x in
        match k with
        | 1%nat => if (prev =? 31) && (x =? 139) then Some (GW_hdr 2 x flg hc', []) else None
        | 3%nat => if (prev =? 8) && (N.land x 224 =? 0) then Some (GW_hdr 4 x x hc', []) else None
        | 9%nat => Some (gw_after_fixed flg hc', [])
        | _ => Some (GW_hdr (S k) x flg hc', [])
        end
    | GW_xlen k lo flg hc =>
        let hc' := crc_upd hc x in
        match k with
        | O => Some (GW_xlen 1 x flg hc', [])
        | _ => let n := lo + 256 * x in
               Some (if n =? 0 then gw_after_extra flg hc' else GW_extra n flg hc', [])
        end
    | GW_extra lft flg hc =>
        let hc' := crc_upd hc x in
        Some (if lft <=? 1 then gw_after_extra flg hc' else GW_extra (lft - 1) flg hc', [])
    | GW_name flg hc =>
        let hc' := crc_upd hc x in
        Some (if x =? 0 then gw_after_name flg hc' else GW_name flg hc', [])
    | GW_comment flg hc =>
        let hc' := crc_upd hc x in
        Some (if x =? 0 then gw_after_comment flg hc' else GW_comment flg hc', [])
    | GW_hcrc k lo hc =>
        match k with
        | O => Some (GW_hcrc 1 x hc, [])
        | _ => if lo + 256 * x =? N.land (crc_value hc) 65535 then Some (gw_body0, []) else None
        end
    | GW_body r crc len =>
        match rstep r x with
        | None => None
        | Some (r', o) =>
            let crc' := crc_feed crc o in
            let len' := len + N.of_nat (length o) in
            Some (if reof r' then GW_trail 0 0 crc' len' else GW_body r' crc' len', o)
        end
    | GW_trail k acc crc len =>
        let acc' := acc + N.shiftl x (8 * N.of_nat (Nat.modulo k 4)) in
        match k with
        | 3%nat => if acc' =? crc_value crc then Some (GW_trail 4 0 crc len, []) else None
        | 7%nat => if acc' =? len mod 4294967296 then Some (GW_done, []) else None
        | _ => Some (GW_trail (S k) acc' crc len, [])
        end
    | GW_done => Some (GW_done, [])
    end.

  (* ---- the three behind the zlib-machine interface of Model/Decomp.v ---- *)
  Inductive wst := WZ (s : zw) | WG (s : gw) | WR (r : rst).

  Definition winit (w : wbits) : wst :=
    match w with
    | W31 => WG (GW_hdr 0 0 0 crc_init)
    | W15 => WZ ZW_cmf
    | WRaw => WR rinit
    end.

  Definition wstep (s : wst) (x : N) : option (wst * list N) :=
    match s with
    | WZ z => match zw_step z x with Some (z', o) => Some (WZ z', o) | None => None end
    | WG g => match gw_step g x with Some (g', o) => Some (WG g', o) | None => None end
    | WR r =>
        if reof r then Some (WR r, [])      (* after the end marker input goes to unused_data *)
        else match rstep r x with Some (r', o) => Some (WR r', o) | None => None end
    end.

  Definition weof (s : wst) : bool :=
    match s with
    | WZ ZW_done => true
    | WG GW_done => true
    | WR r => reof r
    | _ => false
    end.

  Definition wfl (_ : wst) : list N := [].
End Wrap.

(* ---- correspondence instance: the raw inflater is the per-byte table recorded
   from the real zlib.decompressobj(-15) on the deflate part of the body; the
   wrapped machine's own per-byte table is then compared with the tables
   recorded from the real decompressobj(15) / decompressobj(31). ---- *)
Definition tab_raw_init (traw : ztab) : tst := {| t_tab := traw; t_pos := 0; t_outpos := 0; t_eof := false |}.

Definition wtab_init (traw : ztab) := winit tst (tab_raw_init traw).
Definition wtab_step (traw : ztab) := wstep tst (tab_raw_init traw) tab_step t_eof.

(* the rows (error?, eof?, #output bytes) and the output the wrapped machine
   produces on [body], up to and including the first error *)
Fixpoint wtab_rows (traw : ztab) (s : wst tst) (body : list N) : list (bool * bool * nat) * list N :=
  match body with
  | [] => ([], [])
  | x :: r =>
      match wtab_step traw s x with
      | None => ([(true, false, O)], [])
      | Some (s', o) =>
          let '(rows, out) := wtab_rows traw s' r in
          ((false, weof tst t_eof s', length o) :: rows, o ++ out)
      end
  end.

Definition wtab (traw : ztab) (w : wbits) (body : list N) : list (bool * bool * nat) * list N :=
  wtab_rows traw (wtab_init traw w) body.
