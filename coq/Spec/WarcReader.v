(* An independent strict reader of WARC/1.0 files - the meaning of "the archive
   is a valid record sequence" in C06.

   One record:  "WARC/1.0" CRLF  *( field-name ":" value CRLF )  CRLF
                Content-Length bytes of block  CRLF CRLF
   - a header line ends at the first CRLF; a bare CR or LF inside a line is an error;
   - a field name is a non-empty RFC 7230 token; names are compared case-insensitively;
   - WARC-Type, WARC-Record-ID, WARC-Date and Content-Length occur exactly once;
   - Content-Length is one or more ASCII digits; the block must be completely present
     and be followed by CRLF CRLF.
   A plain archive is a sequence of records with nothing in between or after.
   A compressed archive is a sequence of gzip members, each of which inflates to
   exactly one record.  The gzip member decoder is a parameter [gunzip1] (first
   member of the input -> its payload and the remaining input); the only fact used
   about it is that a member is self-delimiting (front-locality), which the harness
   samples against the real zlib on every run.

   Everything here is executable (vm_compute on real archives in the
   correspondence).  Fuel is derived from the input length inside the definitions
   and is shown to be sufficient ([read_fields_fuel], [read_seq_fuel]): a [None]
   always means "not valid", never "out of fuel". *)
From Coq Require Import List NArith Bool Lia Arith ZifyBool ZifyNat ZifyN.
From Wpull Require Import Lib.Decimal.
Import ListNotations.
Open Scope N_scope.
Open Scope bool_scope.

Definition rbytes := list N.

Fixpoint beqb (a b : rbytes) : bool :=
  match a, b with
  | [], [] => true
  | x :: a', y :: b' => (x =? y) && beqb a' b'
  | _, _ => false
  end.

Fixpoint strip_pre (p l : rbytes) : option rbytes :=
  match p, l with
  | [], _ => Some l
  | x :: p', y :: l' => if x =? y then strip_pre p' l' else None
  | _ :: _, [] => None
  end.

(* "WARC/1.0\r\n" *)
Definition version_line : rbytes := [87; 65; 82; 67; 47; 49; 46; 48; 13; 10].
Definition crlfcrlf : rbytes := [13; 10; 13; 10].

(* the bytes of one line (without its CRLF) and what follows *)
Fixpoint read_line (c : rbytes) : option (rbytes * rbytes) :=
  match c with
  | [] => None
  | x :: r =>
      if x =? 13 then match r with
                      | y :: r' => if y =? 10 then Some ([], r') else None
                      | [] => None
                      end
      else if x =? 10 then None
      else match read_line r with
           | Some (l, r') => Some (x :: l, r')
           | None => None
           end
  end.

Definition is_alpha (x : N) : bool := ((65 <=? x) && (x <=? 90)) || ((97 <=? x) && (x <=? 122)).
(* RFC 7230 tchar: "!#$%&'*+-.^_`|~" DIGIT ALPHA *)
Definition is_tchar (x : N) : bool :=
  is_digit x || is_alpha x
  || existsb (N.eqb x) [33; 35; 36; 37; 38; 39; 42; 43; 45; 46; 94; 95; 96; 124; 126].

Definition lower1 (x : N) : N := if (65 <=? x) && (x <=? 90) then x + 32 else x.

Fixpoint split_colon (l : rbytes) : option (rbytes * rbytes) :=
  match l with
  | [] => None
  | x :: r => if x =? 58 then Some ([], r)
              else match split_colon r with
                   | Some (n, v) => Some (x :: n, v)
                   | None => None
                   end
  end.

Definition is_ws (x : N) : bool := (x =? 32) || (x =? 9).
Fixpoint lstrip (l : rbytes) : rbytes :=
  match l with x :: r => if is_ws x then lstrip r else l | [] => [] end.
Definition strip_ws (l : rbytes) : rbytes := rev (lstrip (rev (lstrip l))).

Definition field := (rbytes * rbytes)%type.

Definition parse_field (l : rbytes) : option field :=
  match split_colon l with
  | Some (n, v) =>
      match n with
      | [] => None
      | _ => if forallb is_tchar n then Some (map lower1 n, strip_ws v) else None
      end
  | None => None
  end.

(* header fields up to and including the blank line *)
Fixpoint read_fields (fuel : nat) (c : rbytes) : option (list field * rbytes) :=
  match fuel with
  | O => None
  | S f =>
      match read_line c with
      | None => None
      | Some ([], r) => Some ([], r)
      | Some (l, r) =>
          match parse_field l with
          | None => None
          | Some fld =>
              match read_fields f r with
              | Some (fs, r') => Some (fld :: fs, r')
              | None => None
              end
          end
      end
  end.

Definition n_warc_type : rbytes := [119; 97; 114; 99; 45; 116; 121; 112; 101].
Definition n_warc_record_id : rbytes := [119; 97; 114; 99; 45; 114; 101; 99; 111; 114; 100; 45; 105; 100].
Definition n_warc_date : rbytes := [119; 97; 114; 99; 45; 100; 97; 116; 101].
Definition n_content_length : rbytes := [99; 111; 110; 116; 101; 110; 116; 45; 108; 101; 110; 103; 116; 104].

Definition values_of (n : rbytes) (fs : list field) : list rbytes :=
  map snd (filter (fun f => beqb (fst f) n) fs).

Definition once (n : rbytes) (fs : list field) : bool :=
  match values_of n fs with [_] => true | _ => false end.

Definition mandatory_ok (fs : list field) : bool :=
  once n_warc_type fs && once n_warc_record_id fs && once n_warc_date fs && once n_content_length fs.

Definition content_length (fs : list field) : option N :=
  match values_of n_content_length fs with
  | [v] => undec v
  | _ => None
  end.

Record record := { r_fields : list field; r_block : rbytes }.

(* one record from the front of [c]; the rest of the input *)
Definition read_record (c : rbytes) : option (record * rbytes) :=
  match strip_pre version_line c with
  | None => None
  | Some c1 =>
      match read_fields (S (length c1)) c1 with
      | None => None
      | Some (fs, c2) =>
          if negb (mandatory_ok fs) then None else
          match content_length fs with
          | None => None
          | Some n =>
              if N.of_nat (length c2) <? n then None else
              match strip_pre crlfcrlf (skipn (N.to_nat n) c2) with
              | None => None
              | Some c4 => Some ({| r_fields := fs; r_block := firstn (N.to_nat n) c2 |}, c4)
              end
          end
      end
  end.

(* ---------------------------------------------------------------- sequences *)
Section Seq.
  Variable X : Type.
  Variable item : rbytes -> option (X * rbytes).

  (* items one after another until the input is used up; an item must consume something *)
  Fixpoint read_seq (fuel : nat) (c : rbytes) : option (list X) :=
    match c with
    | [] => Some []
    | _ :: _ =>
        match fuel with
        | O => None
        | S f =>
            match item c with
            | None => None
            | Some (x, r) =>
                if Nat.ltb (length r) (length c)
                then match read_seq f r with
                     | Some xs => Some (x :: xs)
                     | None => None
                     end
                else None
            end
        end
    end.

  Definition read_all (c : rbytes) : option (list X) := read_seq (length c) c.

  Lemma read_seq_fuel : forall f f' c,
    (length c <= f)%nat -> (length c <= f')%nat -> read_seq f c = read_seq f' c.
  Proof.
    induction f as [|f IH]; intros f' c H H'.
    - destruct c; [destruct f'; reflexivity|cbn in H; lia].
    - destruct c as [|x c]; [destruct f'; reflexivity|].
      destruct f' as [|f']; [cbn in H'; lia|].
      cbn [read_seq]. destruct (item (x :: c)) as [[y r]|]; [|reflexivity].
      destruct (Nat.ltb (length r) (length (x :: c))) eqn:E; [|reflexivity].
      apply Nat.ltb_lt in E. cbn [length] in *. rewrite (IH f' r) by lia. reflexivity.
  Qed.

  Lemma read_seq_cons f x c :
    read_seq (S f) (x :: c) =
    match item (x :: c) with
    | None => None
    | Some (y, r) =>
        if Nat.ltb (length r) (length (x :: c))
        then match read_seq f r with Some xs => Some (y :: xs) | None => None end
        else None
    end.
  Proof. reflexivity. Qed.

  Hypothesis item_local : forall c x r y, item c = Some (x, r) -> item (c ++ y) = Some (x, r ++ y).

  Lemma read_seq_app : forall f a b xs ys,
    read_seq f a = Some xs -> read_all b = Some ys ->
    read_all (a ++ b) = Some (xs ++ ys).
  Proof.
    induction f as [|f IH]; intros a b xs ys Ha Hb.
    - destruct a; [|discriminate]. inversion Ha; subst. exact Hb.
    - destruct a as [|x a]; [inversion Ha; subst; exact Hb|].
      cbn [read_seq] in Ha.
      destruct (item (x :: a)) as [[y r]|] eqn:I; [|discriminate].
      destruct (Nat.ltb (length r) (length (x :: a))) eqn:E; [|discriminate].
      destruct (read_seq f r) as [xs'|] eqn:R; [|discriminate]. inversion Ha; subst xs.
      apply Nat.ltb_lt in E.
      pose proof (IH r b xs' ys R Hb) as T.
      unfold read_all in *.
      change (length ((x :: a) ++ b)) with (S (length (a ++ b))).
      change ((x :: a) ++ b) with (x :: (a ++ b)). rewrite read_seq_cons.
      change (x :: (a ++ b)) with ((x :: a) ++ b).
      rewrite (item_local _ _ _ b I).
      assert (L : Nat.ltb (length (r ++ b)) (length ((x :: a) ++ b)) = true).
      { apply Nat.ltb_lt. rewrite !app_length. lia. }
      rewrite L.
      rewrite (read_seq_fuel (length (a ++ b)) (length (r ++ b)) (r ++ b)).
      + rewrite T. reflexivity.
      + rewrite !app_length in *. cbn [length] in E. lia.
      + lia.
  Qed.

  Theorem read_all_app a b xs ys :
    read_all a = Some xs -> read_all b = Some ys -> read_all (a ++ b) = Some (xs ++ ys).
  Proof. intros Ha Hb. eapply read_seq_app; eauto. Qed.

  Lemma read_all_nil : read_all [] = Some [].
  Proof. reflexivity. Qed.
End Seq.

Arguments read_seq {X}.
Arguments read_all {X}.

Definition is_some {T} (o : option T) : bool := match o with Some _ => true | None => false end.

(* ---- plain archives ---- *)
Definition parse_plain (c : rbytes) : option (list record) := read_all read_record c.
Definition warc_valid (c : rbytes) : bool := is_some (parse_plain c).

(* ---- compressed archives: one record per gzip member ---- *)
Section Gz.
  Variable gunzip1 : rbytes -> option (rbytes * rbytes).

  Definition gz_item (c : rbytes) : option (record * rbytes) :=
    match gunzip1 c with
    | Some (p, rest) =>
        match read_record p with
        | Some (r, []) => Some (r, rest)
        | _ => None
        end
    | None => None
    end.

  Definition parse_gz (c : rbytes) : option (list record) := read_all gz_item c.
  Definition warc_gz_valid (c : rbytes) : bool := is_some (parse_gz c).
End Gz.

(* table-driven instance of the member decoder, filled by the harness from the real zlib:
   the first table entry whose member bytes are a prefix of the input *)
Fixpoint tab_gunzip (tab : list (rbytes * rbytes)) (c : rbytes) : option (rbytes * rbytes) :=
  match tab with
  | [] => None
  | (m, p) :: t => match strip_pre m c with
                   | Some rest => Some (p, rest)
                   | None => tab_gunzip t c
                   end
  end.

(* a toy self-delimiting member format (one length byte, then the payload), used only to show
   that the hypotheses of the compressed-archive theorems are satisfiable *)
Definition toy_gunzip (c : rbytes) : option (rbytes * rbytes) :=
  match c with
  | [] => None
  | n :: r => if Nat.leb (N.to_nat n) (length r) then Some (firstn (N.to_nat n) r, skipn (N.to_nat n) r) else None
  end.
