(* C08 / C04 - the REFERENCE: what RFC 7230 says a response on the wire is and
   where it ends (section 3.3.3: no body for HEAD/1xx/204/304; otherwise chunked
   before Content-Length before read-until-close; section 4.1: the chunked
   grammar; section 6.2: interim 1xx responses precede the final one).
   Declarative definitions only, written without reference to the reader loops
   of Model/HttpMsg.v: nothing here reads from a connection.

   What IS shared with the model, on purpose: the meaning of a header block
   ([response_parse]: status line and the name -> value map, incl. obs-fold,
   case-insensitive names, duplicate fields) and of a trailer block
   ([fields_parse]).  The property is about FRAMING; which value the field
   "Content-Length" has in a given header block is header semantics, and that
   part of the model is tied to the code by the correspondence runs only. *)
From Coq Require Import List NArith ZArith Bool.
From Wpull Require Import Model.PyText Model.Decomp Model.Chunked Model.HttpMsg.
Import ListNotations.
Open Scope N_scope.

Definition no_lf (l : list N) : Prop := ~ In 10 l.

(* line terminator: CRLF; a bare LF is tolerated (RFC 7230 3.5) *)
Definition eol (e : list N) : Prop := e = [13; 10] \/ e = [10].

(* ---------------- header block ---------------- *)
(* a non-blank line ending in LF *)
Definition head_line (l : list N) : Prop :=
  exists a, l = a ++ [10] /\ no_lf a /\ a <> [] /\ a <> [13].

(* [lines]: status line and field lines (at least one line), then the blank
   line [e]; wpull's cap of 32768 bytes on the lines is part of well-formedness *)
Definition head_block (lines : list (list N)) (e : list N) : Prop :=
  lines <> [] /\ Forall head_line lines /\ eol e /\ N.of_nat (length (concat lines)) <= 32768.

(* ---------------- section 3.3.3, item 1 ---------------- *)
Definition no_body (P : params) (r : response) : Prop :=
  p_head P = true \/ (100 <= r_status r /\ r_status r <= 199) \/ r_status r = 204 \/ r_status r = 304.

(* section 6.2: interim = 1xx other than 101 *)
Definition interim (r : response) : Prop :=
  100 <= r_status r /\ r_status r <= 199 /\ r_status r <> 101.

(* ---------------- numbers ---------------- *)
Definition dec_digit (c : N) : bool := (48 <=? c) && (c <=? 57).
Definition hex_digit_val (c : N) : option N :=
  if (48 <=? c) && (c <=? 57) then Some (c - 48)
  else if (97 <=? c) && (c <=? 102) then Some (c - 87)
  else if (65 <=? c) && (c <=? 70) then Some (c - 55)
  else None.

(* value of a non-empty digit string; None when a character is not a digit *)
Fixpoint dec_val (acc : N) (ds : list N) : option N :=
  match ds with
  | [] => Some acc
  | d :: r => if dec_digit d then dec_val (acc * 10 + (d - 48)) r else None
  end.
Fixpoint hex_val (acc : N) (ds : list N) : option N :=
  match ds with
  | [] => Some acc
  | d :: r => match hex_digit_val d with Some v => hex_val (acc * 16 + v) r | None => None end
  end.

(* ---------------- section 4.1: chunked transfer coding ---------------- *)
(* chunk-size [chunk-ext] CRLF *)
Definition chunk_line (size : N) (l : list N) : Prop :=
  exists ds ext e,
    l = ds ++ ext ++ e /\ ds <> [] /\ hex_val 0 ds = Some size
    /\ (ext = [] \/ exists x, ext = 59 :: x) /\ no_lf ext /\ eol e
    /\ N.of_nat (length l) <= 65536.

(* chunk = chunk-size line, chunk-data (non-empty), CRLF *)
Inductive chunk : list N -> list N -> Prop :=
| Chunk l data e :
    data <> [] -> chunk_line (N.of_nat (length data)) l -> eol e -> chunk (l ++ data ++ e) data.

Inductive chunks : list N -> list N -> Prop :=
| ChunksNil : chunks [] []
| ChunksCons w1 d1 w2 d2 : chunk w1 d1 -> chunks w2 d2 -> chunks (w1 ++ w2) (d1 ++ d2).

(* trailer field line: a line with a non-blank first character *)
Definition trailer_line (l : list N) : Prop :=
  exists c a, l = c :: a ++ [10] /\ no_lf (c :: a) /\ ascii_space c = false /\ N.of_nat (length l) <= 65536.

(* trailer-part CRLF *)
Inductive trailer : list N -> Prop :=
| TrailerEnd e : eol e -> trailer e
| TrailerCons l t : trailer_line l -> trailer t -> trailer (l ++ t).

(* ---------------- the message ---------------- *)
Inductive delim := DNone | DChunked | DLength | DClose.

Record message := mkMsg {
  m_head : response;          (* status line + header fields *)
  m_resp : response;          (* the same with the trailer fields merged in *)
  m_payload : list N;         (* the payload body, transfer coding removed, content coding still on *)
  m_delim : delim;
  m_complete : nat            (* number of wire bytes after which the payload is complete *)
}.

Definition te_is_chunked (r : response) : Prop := fget s_transfer_encoding (r_fields r) = Some s_chunked.
Definition te_absent (r : response) : Prop := fget s_transfer_encoding (r_fields r) = None.

(* Content-Length: 1*DIGIT (at most 4300 digits: the interpreter's int() limit) *)
Definition content_length (r : response) (n : N) : Prop :=
  exists v, fget s_content_length (r_fields r) = Some v /\ v <> [] /\ dec_val 0 v = Some n
            /\ N.of_nat (length v) <= 4300.

(* body wire bytes [w] of a response with header [r], following a header block
   of [hl] bytes; the message record it denotes *)
Inductive wf_body (P : params) (r : response) (hl : nat) : list N -> message -> Prop :=
| WB_none :
    no_body P r -> wf_body P r hl [] (mkMsg r r [] DNone hl)
| WB_chunked w d ll t fs :
    ~ no_body P r -> te_is_chunked r ->
    chunks w d -> chunk_line 0 ll -> trailer t ->
    fields_parse false t (r_fields r) = Some fs ->
    wf_body P r hl (w ++ ll ++ t)
            (mkMsg r (mkResp (r_version r) (r_status r) (r_reason r) fs) d DChunked (hl + length (w ++ ll)))
| WB_length w :
    ~ no_body P r -> te_absent r -> p_ignore_length P = false ->
    content_length r (N.of_nat (length w)) ->
    wf_body P r hl w (mkMsg r r w DLength (hl + length w))
| WB_close w :
    ~ no_body P r -> te_absent r ->
    (fget s_content_length (r_fields r) = None \/ p_ignore_length P = true) ->
    wf_body P r hl w (mkMsg r r w DClose hl).

(* a response stream: interim responses, then the final one *)
Inductive wf_response (P : params) : nat -> list N -> message -> Prop :=
| WF_final pre lines e r w m :
    head_block lines e -> response_parse (concat lines) = Some r -> ~ interim r ->
    wf_body P r (pre + length (concat lines ++ e)) w m ->
    wf_response P pre (concat lines ++ e ++ w) m
| WF_interim pre lines e r rest m :
    head_block lines e -> response_parse (concat lines) = Some r -> interim r ->
    wf_response P (pre + length (concat lines ++ e)) rest m ->
    wf_response P pre (concat lines ++ e ++ rest) m.

(* the keep-alive decision (RFC 7230 6.3 / 6.6) as wpull implements it; a
   message without body never closes (read_body returns before the decision) *)
Definition wants_close (P : params) (m : message) : bool :=
  match m_delim m with
  | DNone => false
  | _ => negb (p_keep_alive P) || should_close (p_http10 P) (fget s_connection (r_fields (m_resp m)))
  end.
