(* C16 - vocabulary of the property statements (no proofs, nothing executable
   that the implementation is compared with): what "clean" URL text is, what a
   field line on the wire looks like, which URL each request of a fetch is for. *)
From Coq Require Import List NArith Bool.
From Wpull Require Import Model.HttpReq.
Import ListNotations.
Open Scope N_scope.

(* printable ASCII without the space: 0x21 .. 0x7E *)
Definition clean (s : str) : Prop := Forall (fun ch => 32 < ch /\ ch < 127) s.

(* the fact C10 proves about every normalised URL, taken here as a hypothesis
   on the components (and checked by the harness on every generated URL) *)
Definition url_clean (u : urlc) : Prop :=
  clean (u_scheme u) /\ clean (u_hostname u) /\ clean (u_path u) /\ clean (u_query u)
  /\ clean (u_user_enc u) /\ clean (u_pass_enc u).

Definition no_crlf (s : str) : Prop := Forall (fun ch => ch <> 13 /\ ch <> 10) s.

(* every name and value of a field record is free of CR and LF *)
Definition fields_no_crlf (f : nvr) : Prop :=
  forall n v, In (n, v) (nv_get_all f) -> no_crlf n /\ no_crlf v.

(* no field with this name *)
Definition lacks (n : str) (f : nvr) : Prop := forall v, ~ In (n, v) (nv_get_all f).

(* a NameValueRecord is a dict: names are unique keys *)
Definition nvr_wf (f : nvr) : Prop := NoDup (map fst f).

(* the bytes of one field line without its CRLF: name ":" [SP value] *)
Definition wire_line (p : str * str) : list N :=
  enc_replace (fst p) ++ [58] ++ match snd p with [] => [] | v => 32 :: enc_replace v end.

(* all field values with a given name, in order *)
Definition values_of (n : str) (f : nvr) : list str :=
  map snd (filter (fun p => str_eqb (fst p) n) (nv_get_all f)).

(* locations of a server chain satisfy a predicate *)
Definition chain_urls (ok : urlc -> Prop) (rs : list resp) : Prop :=
  Forall (fun r => match r_loc r with LocUrl u => ok u | _ => True end) rs.

(* the URL each successive request of a fetch is for: the first URL, then after
   a redirect answer the (joined, parsed) Location, after any other answer the
   same URL again (authentication retry) *)
Fixpoint hop_urls (u : urlc) (rs : list resp) : list urlc :=
  match rs with
  | [] => []
  | r :: rs' =>
      u :: hop_urls (match r_loc r with
                     | LocUrl u' => if is_redirect (r_status r) then u' else u
                     | _ => u
                     end) rs'
  end.

(* credentials that belong to a URL: its own user-info, completed by the global
   --http-user/--http-password login *)
Definition own_credentials (login : option (str * str)) (u : urlc) (v : str) : Prop :=
  exists lu lp, (login = Some (lu, lp) \/ (lu = [] /\ lp = []))
                /\ v = basic_value (pick (u_user u) lu) (pick (u_pass u) lp).
