(* C16 - vocabulary of the property statements (no proofs, nothing executable
   that the implementation is compared with): what "clean" URL text is, what a
   field line on the wire looks like, which URL each request of a fetch is for. *)
From Coq Require Import List NArith Bool.
From Wpull Require Import Model.HttpReq.
Import ListNotations.
Open Scope N_scope.

(* no control character, no space, one latin-1 byte each: 0x21 .. 0xFF.  (This is all the
   request serialiser needs; what the URL normaliser produces is narrower - percent-encoded
   paths and IDNA host names are 0x21..0x7E, and a DEL 0x7F can survive in a host name.) *)
Definition clean (s : str) : Prop := Forall (fun ch => 32 < ch /\ ch < 256) s.

(* what is assumed of every parsed URL (C10 proves the narrower 0x21..0x7E statement for
   normalised URLs; the harness checks this on every generated URL) *)
Definition url_clean (u : urlc) : Prop :=
  clean (u_scheme u) /\ clean (u_hostname u) /\ clean (u_path u) /\ clean (u_query u)
  /\ clean (u_user_enc u) /\ clean (u_pass_enc u).

Definition no_crlf (s : str) : Prop := Forall (fun ch => ch <> 13 /\ ch <> 10) s.

(* every name and value of a field record is free of CR and LF *)
Definition fields_no_crlf (f : nvr) : Prop :=
  forall n v, In (n, v) (nv_get_all f) -> no_crlf n /\ no_crlf v.

(* no field with this name *)
Definition lacks (n : str) (f : nvr) : Prop := forall v, ~ In (n, v) (nv_get_all f).

(* a NameValueRecord is a dict: names are unique keys *)
Definition nvr_wf (f : nvr) : Prop := NoDup (map fst f).

(* the bytes of one field line without its CRLF: name ":" [SP value] *)
Definition wire_line (p : str * str) : list N :=
  enc_replace (fst p) ++ [58] ++ match snd p with [] => [] | v => 32 :: enc_replace v end.

(* all field values with a given name, in order *)
Definition values_of (n : str) (f : nvr) : list str :=
  map snd (filter (fun p => str_eqb (fst p) n) (nv_get_all f)).

(* locations of a server chain satisfy a predicate *)
Definition chain_urls (ok : urlc -> Prop) (rs : list resp) : Prop :=
  Forall (fun r => match r_loc r with LocUrl u => ok u | _ => True end) rs.

(* the URL each successive request of a fetch is for: the first URL, then after
   a redirect answer the (joined, parsed) Location, after any other answer the
   same URL again (authentication retry) *)
Fixpoint hop_urls (u : urlc) (rs : list resp) : list urlc :=
  match rs with
  | [] => []
  | r :: rs' =>
      u :: hop_urls (match r_loc r with
                     | LocUrl u' => if is_redirect (r_status r) then u' else u
                     | _ => u
                     end) rs'
  end.

(* credentials that belong to a URL: its own user-info, completed by the global
   --http-user/--http-password login *)
Definition own_credentials (login : option (str * str)) (u : urlc) (v : str) : Prop :=
  exists lu lp, (login = Some (lu, lp) \/ (lu = [] /\ lp = []))
                /\ v = basic_value (pick (u_user u) lu) (pick (u_pass u) lp).

(* ---------------------------------------------------------------- *)
(* round 2: vocabulary of the full statements                        *)
(* ---------------------------------------------------------------- *)
(* a field name as it may appear on the wire: non-empty, printable ASCII, no
   space, no colon *)
Definition token (s : str) : Prop := s <> [] /\ Forall (fun ch => 32 < ch /\ ch < 127 /\ ch <> 58) s.

(* field names are compared without regard to case by whoever reads the request *)
Definition lower (ch : N) : N := if (65 <=? ch) && (ch <=? 90) then ch + 32 else ch.
Definition ci_eq (a b : str) : bool := str_eqb (map lower a) (map lower b).

(* the names wpull derives per URL / per fetch *)
Definition derived_names : list str := [s_Host; s_Cookie; s_Authorization; s_Referer].

(* a field name as NameValueRecord keeps it: a token, and if it is one of the derived names in some
   spelling then it is THE spelling wpull uses (normalize_name maps every spelling to that one) *)
Definition fname (s : str) : Prop :=
  token s /\ forall k, In k derived_names -> ci_eq s k = true -> s = k.

(* names are field names in wpull's spelling, values carry no CR / LF *)
Definition fields_tok (f : nvr) : Prop :=
  forall n v, In (n, v) (nv_get_all f) -> fname n /\ no_crlf v.

(* what the theorems assume about the user-supplied part of a request (the fields
   the request factory puts on EVERY request: --user-agent, --header, --referer,
   Accept-Encoding ...): a dict, names tokens, values CR/LF free, and none of the
   three fields wpull derives per URL *)
Definition base_ok (base : nvr) : Prop :=
  nvr_wf base /\ fields_tok base /\ lacks s_Host base /\ lacks s_Cookie base /\ lacks s_Authorization base.

(* what is assumed about the cookie-jar oracle: the header value it hands out has no CR / LF *)
Definition jar_ok (jar : nat -> urlc -> jans) : Prop :=
  forall t u v, jar t u = JSome v -> no_crlf v.

Definition parent_ok (parent : option urlc) : Prop :=
  match parent with Some p => url_clean p | None => True end.

(* THE WIRE FORMAT.  [b] is a request head with this method, target and field list:
   request line, one line per field, blank line; nothing in any line can be taken
   for a line end, the target has no space, names are tokens. *)
Definition request_head (b : list N) (method target : str) (fl : list (str * str)) : Prop :=
  b = method ++ [32] ++ target ++ [32] ++ s_version ++ crlf
        ++ List.concat (map (fun p => wire_line p ++ crlf) fl) ++ crlf
  /\ (method = s_GET \/ method = s_POST)
  /\ clean target
  /\ Forall (fun p => fname (fst p) /\ no_crlf (snd p) /\ no_crlf (wire_line p)) fl.

(* values of the fields with a given name in a field list *)
Definition fl_values (n : str) (fl : list (str * str)) : list str :=
  map snd (filter (fun p => str_eqb (fst p) n) fl).

(* the proxy flag of the exchange in which each request is written *)
Definition hop_full (rs : list resp) : list bool := map r_full rs.

(* the same URL with other user-info: used to say that a text does not depend on it *)
Definition with_userinfo (u : urlc) (a b a' b' : str) : urlc :=
  {| u_scheme := u_scheme u; u_defport := u_defport u; u_hostname := u_hostname u; u_ipv6 := u_ipv6 u;
     u_port := u_port u; u_path := u_path u; u_query := u_query u;
     u_user := a; u_pass := b; u_user_enc := a'; u_pass_enc := b' |}.

(* the hypotheses shared by the four C16 theorems *)
Definition c16_pre (c : cfg) (jar : nat -> urlc -> jans) (u : urlc) (parent : option urlc) (rs : list resp) : Prop :=
  base_ok (c_base c) /\ jar_ok jar /\ url_clean u /\ parent_ok parent /\ chain_urls url_clean rs.

(* path[?query] *)
Definition origin_form (u : urlc) : str :=
  u_path u ++ (if nonempty (u_query u) then [63] ++ u_query u else []).

(* values of the fields a reader takes for field [n] (any spelling of the name) *)
Definition fl_values_ci (n : str) (fl : list (str * str)) : list str :=
  map snd (filter (fun p => ci_eq (fst p) n) fl).

(* ---------------------------------------------------------------- *)
(* An independent reader of a message head (RFC 7230 3): lines end at *)
(* CRLF, the head ends at the first empty line, the request line is   *)
(* split at SP, a field line at its first colon, optional whitespace  *)
(* before the value is dropped.  Nothing here refers to the model.    *)
(* ---------------------------------------------------------------- *)
Fixpoint split_crlf (b : list N) : list (list N) :=
  match b with
  | [] => [[]]
  | x :: r =>
      match r with
      | y :: r' =>
          if (x =? 13) && (y =? 10) then [] :: split_crlf r'
          else match split_crlf r with l :: ls => (x :: l) :: ls | [] => [[x]] end
      | [] => [[x]]
      end
  end.

Fixpoint split_sp (l : list N) : list (list N) :=
  match l with
  | [] => [[]]
  | x :: r => if x =? 32 then [] :: split_sp r
              else match split_sp r with w :: ws => (x :: w) :: ws | [] => [[x]] end
  end.

Fixpoint lstrip (l : list N) : list N :=
  match l with
  | x :: r => if (x =? 32) || (x =? 9) then lstrip r else l
  | [] => []
  end.

Fixpoint split_field (l : list N) : option (list N * list N) :=
  match l with
  | [] => None
  | x :: r => if x =? 58 then Some ([], lstrip r)
              else match split_field r with Some (n, v) => Some (x :: n, v) | None => None end
  end.

(* the lines up to the first empty one, and what follows it *)
Fixpoint take_fields (ls : list (list N)) : list (list N) * list (list N) :=
  match ls with
  | [] => ([], [])
  | l :: r => if nonempty l then let (a, b) := take_fields r in (l :: a, b) else ([], r)
  end.

(* Some (words of the request line, fields) when the bytes are exactly one head: request line, field
   lines, blank line and nothing after it *)
Definition read_head (b : list N) : option (list (list N) * list (option (list N * list N))) :=
  match split_crlf b with
  | rl :: rest =>
      match take_fields rest with
      | (fls, [[]]) => Some (split_sp rl, map split_field fls)
      | _ => None
      end
  | [] => None
  end.

(* what a reader must get from a head with method m, target t and fields fl *)
Definition reading (m t : str) (fl : list (str * str)) : list (list N) * list (option (list N * list N)) :=
  ([m; t; s_version], map (fun p => Some (fst p, lstrip (enc_replace (snd p)))) fl).
