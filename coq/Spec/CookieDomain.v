(* C16 - when may a cookie set by host A travel to host B (RFC 6265 5.1.3, 5.3 steps 4-6, 5.4 step 1),
   stated on host names and the domain the jar stored, without reference to how wpull decides it. *)
From Coq Require Import List NArith Bool.
From Wpull Require Import Lib.Hex Model.HttpReq Model.CookiePolicy.
Import ListNotations.
Open Scope N_scope.

(* h = <something> "." d *)
Definition label_suffix (h d : str) : Prop := exists pre, h = pre ++ DOT :: d.

(* RFC 6265 5.1.3: identical, or a suffix at a label boundary of a host that is a name, not an address *)
Definition domain_matches (h d : str) : Prop :=
  h = d \/ (label_suffix h d /\ is_ip_literal h = false).

Definition single_label (d : str) : Prop := has DOT d = false /\ has COLON d = false.

(* http.cookiejar files the cookies of a dot-less host h under "h.local" *)
Definition jar_name (h n : str) : Prop := n = h \/ n = h ++ s_dot_local.

(* A, B: lower-case request hosts; stored / specified: Cookie.domain and Cookie.domain_specified *)
Definition may_travel (A B stored : str) (specified : bool) : Prop :=
  if specified then
    let d := strip_dot (str_lower stored) in
    domain_matches A d /\ domain_matches B d /\ (single_label d -> A = d /\ B = d)
  else
    jar_name A (str_lower stored) /\ jar_name B (str_lower stored).
