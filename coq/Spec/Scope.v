(* Spec/Scope.v - the reference scope predicate (DESIGN Appendix B): what each
   scope option MEANS, written declaratively over typed inputs, independent of
   wpull's filter code.  Also the typed view of the inputs (URL info, link
   record, filter parameters, parsed command line) and their embedding into the
   dynamic values of Lib/MiniPy.  Definitions only. *)
From Coq Require Import List NArith ZArith Bool.
From Wpull Require Import Lib.MiniPy.
Import ListNotations.
Open Scope bool_scope.
Open Scope Z_scope.

(* ------------------------------------------------------------ typed inputs *)
Record urlinfo := {
  u_scheme : str;
  u_hostname : option str;     (* None for non-network schemes (mailto:, ...) *)
  u_port : option Z;
  u_path : str;
  u_url : str }.

Record urlrec := {
  r_level : Z;
  r_inline : option Z;         (* inline_level: None / 0 = not a page requisite *)
  r_tries : Z;                 (* try_count *)
  r_parent : option str;       (* parent_url *)
  r_root : option str }.       (* root_url *)

(* the 13 filter classes with the types their constructor arguments have when
   built from the parsed command line *)
Inductive filter :=
| FScheme (allowed : list str)
| FHTTPSOnly
| FFollowFTP (follow : bool)
| FDomain (accepted rejected : option (list str))
| FHostname (accepted rejected : option (list str))
| FRecursive (enabled page_requisites : bool)
| FLevel (depth inline_max_depth : Z)
| FTries (tries : Z)
| FParent
| FSpanHosts (hostnames : list str) (enabled page_requisites linked_pages : bool)
| FRegex (accepted rejected : option str)
| FDirectory (accepted rejected : option (list str))
| FFilename (accepted rejected : option (list str)).

Record args := {
  a_https_only : bool; a_recursive : bool; a_page_requisites : bool; a_follow_ftp : bool;
  a_no_parent : bool;
  a_domains : option (list str); a_exclude_domains : option (list str);
  a_hostnames : option (list str); a_exclude_hostnames : option (list str);
  a_tries : Z; a_level : Z; a_page_requisites_level : Z;
  a_accept_regex : option str; a_reject_regex : option str;
  a_include_directories : option (list str); a_exclude_directories : option (list str);
  a_accept : option (list str); a_reject : option (list str);
  a_span_hosts : bool; a_span_hosts_allow : list str }.

(* library oracles, typed *)
Record lib := {
  l_re_search : str -> str -> bool;
  l_fn_translate : str -> str;
  l_fnmatchcase : str -> str -> bool;
  l_parse : str -> urlinfo }.

(* ---------------------------------------------------------------- embedding *)
Definition mk_obj (c : cls) (l : list (attr * pv)) : pv := PObj c (fun a => assoc_attr a l).
Definition pv_ostr (o : option str) : pv := match o with Some s => PStr s | None => PNone end.
Definition pv_oint (o : option Z) : pv := match o with Some z => PInt z | None => PNone end.
Definition pv_strs (l : list str) : pv := PList (map PStr l).
Definition pv_ostrs (o : option (list str)) : pv := match o with Some l => pv_strs l | None => PNone end.

Arguments pv_ostr !o /.
Arguments pv_oint !o /.
Arguments pv_ostrs !o /.

Definition pv_urlinfo (u : urlinfo) : pv :=
  mk_obj C_URLInfo [(A_scheme, PStr (u_scheme u)); (A_hostname, pv_ostr (u_hostname u));
                    (A_port, pv_oint (u_port u)); (A_path, PStr (u_path u)); (A_url, PStr (u_url u))].

Definition pv_record (r : urlrec) : pv :=
  mk_obj C_Record [(A_level, PInt (r_level r)); (A_inline_level, pv_oint (r_inline r));
                   (A_try_count, PInt (r_tries r)); (A_parent_url, pv_ostr (r_parent r));
                   (A_root_url, pv_ostr (r_root r))].

Definition filter_cls (f : filter) : cls :=
  match f with
  | FScheme _ => C_SchemeFilter | FHTTPSOnly => C_HTTPSOnlyFilter | FFollowFTP _ => C_FollowFTPFilter
  | FDomain _ _ => C_BackwardDomainFilter | FHostname _ _ => C_HostnameFilter
  | FRecursive _ _ => C_RecursiveFilter | FLevel _ _ => C_LevelFilter | FTries _ => C_TriesFilter
  | FParent => C_ParentFilter | FSpanHosts _ _ _ _ => C_SpanHostsFilter | FRegex _ _ => C_RegexFilter
  | FDirectory _ _ => C_DirectoryFilter | FFilename _ _ => C_BackwardFilenameFilter
  end.

(* field lists are in the order of the assignments in each __init__ (that is the
   shape an ENew term evaluates to) *)
Definition filter_fields (f : filter) : list (attr * pv) :=
  match f with
  | FScheme al => [(A__allowed, PTuple (map PStr al))]
  | FHTTPSOnly => []
  | FFollowFTP fo => [(A__follow, PBool fo)]
  | FDomain a r => [(A__accepted, pv_ostrs a); (A__rejected, pv_ostrs r)]
  | FHostname a r => [(A__accepted, pv_ostrs a); (A__rejected, pv_ostrs r)]
  | FRecursive e p => [(A__enabled, PBool e); (A__page_requisites, PBool p)]
  | FLevel d i => [(A__depth, PInt d); (A__inline_max_depth, PInt i)]
  | FTries t => [(A__tries, PInt t)]
  | FParent => []
  | FSpanHosts h e p l => [(A__hostnames, PTuple (map PStr h)); (A__enabled, PBool e);
                           (A__page_requisites, PBool p); (A__linked_pages, PBool l)]
  | FRegex a r => [(A__accepted, pv_ostr a); (A__rejected, pv_ostr r)]
  | FDirectory a r => [(A__accepted, pv_ostrs a); (A__rejected, pv_ostrs r)]
  | FFilename a r => [(A__accepted, pv_ostrs a); (A__rejected, pv_ostrs r)]
  end.
Definition pv_filter (f : filter) : pv := mk_obj (filter_cls f) (filter_fields f).

Definition pv_args (a : args) : pv :=
  mk_obj C_Args [
    (A_https_only, PBool (a_https_only a)); (A_recursive, PBool (a_recursive a));
    (A_page_requisites, PBool (a_page_requisites a)); (A_follow_ftp, PBool (a_follow_ftp a));
    (A_no_parent, PBool (a_no_parent a));
    (A_domains, pv_ostrs (a_domains a)); (A_exclude_domains, pv_ostrs (a_exclude_domains a));
    (A_hostnames, pv_ostrs (a_hostnames a)); (A_exclude_hostnames, pv_ostrs (a_exclude_hostnames a));
    (A_tries, PInt (a_tries a)); (A_level, PInt (a_level a));
    (A_page_requisites_level, PInt (a_page_requisites_level a));
    (A_accept_regex, pv_ostr (a_accept_regex a)); (A_reject_regex, pv_ostr (a_reject_regex a));
    (A_include_directories, pv_ostrs (a_include_directories a));
    (A_exclude_directories, pv_ostrs (a_exclude_directories a));
    (A_accept, pv_ostrs (a_accept a)); (A_reject, pv_ostrs (a_reject a));
    (A_span_hosts, PBool (a_span_hosts a)); (A_span_hosts_allow, pv_strs (a_span_hosts_allow a))].

(* the session object as the two setup tasks see it: the parsed arguments and the
   URL table's hostnames relation (read once, after the start URLs were added) *)
Definition pv_session (a : args) (table_hostnames : list str) : pv :=
  mk_obj C_Session [(A_args, pv_args a); (A_table_hostnames, pv_strs table_hostnames)].

Definition mk_oracles (L : lib) : oracles :=
  {| o_re_search := l_re_search L; o_fn_translate := l_fn_translate L; o_fnmatchcase := l_fnmatchcase L;
     o_parse := fun s => pv_urlinfo (l_parse L s); o_urljoin := fun _ _ => None |}.

(* ---------------------------------------------------- the reference predicate *)
Definition s_http : str := [104; 116; 116; 112]%N.
Definition s_https : str := [104; 116; 116; 112; 115]%N.
Definition s_ftp : str := [102; 116; 112]%N.
Definition slash : N := 47%N.

Definition nonempty {A} (l : list A) : bool := match l with [] => false | _ => true end.
Definition given {A} (o : option (list A)) : bool := match o with Some l => nonempty l | None => false end.
Definition items {A} (o : option (list A)) : list A := match o with Some l => l | None => [] end.
Definition web_scheme (s : str) : bool := str_eqb s s_http || str_eqb s s_https.
Definition is_requisite (r : urlrec) : bool :=        (* inline depth present and non-zero *)
  match r_inline r with Some d => negb (d =? 0) | None => false end.
Definition ostr_eqb (a b : option str) : bool :=
  match a, b with Some x, Some y => str_eqb x y | None, None => true | _, _ => false end.
Definition oint_eqb (a b : option Z) : bool :=
  match a, b with Some x, Some y => x =? y | None, None => true | _, _ => false end.
Definition host_in (h : option str) (l : list str) : bool :=
  match h with Some s => existsb (str_eqb s) l | None => false end.

(* scheme *)
Definition scheme_spec (allowed : list str) (u : urlinfo) : bool := existsb (str_eqb (u_scheme u)) allowed.
Definition https_only_spec (u : urlinfo) : bool := str_eqb (u_scheme u) s_https.

(* follow-ftp: an ftp URL linked from a web page needs --follow-ftp *)
Definition parent_is_web (L : lib) (r : urlrec) : bool :=
  match r_parent r with
  | Some p => nonempty p && web_scheme (u_scheme (l_parse L p))
  | None => false
  end.
Definition follow_ftp_spec (L : lib) (follow : bool) (u : urlinfo) (r : urlrec) : bool :=
  if str_eqb (u_scheme u) s_ftp && parent_is_web L r then follow else true.

(* domains (suffix) / hostnames (equality) *)
Definition suffix_match (l : list str) (h : option str) : bool :=
  match h with
  | Some s => nonempty s && existsb (endswith s) l
  | None => false
  end.
Definition domain_spec (acc rej : option (list str)) (u : urlinfo) : bool :=
  (if given acc then suffix_match (items acc) (u_hostname u) else true) &&
  (if given rej then negb (suffix_match (items rej) (u_hostname u)) else true).
Definition hostname_spec (acc rej : option (list str)) (u : urlinfo) : bool :=
  (if given acc then host_in (u_hostname u) (items acc) else true) &&
  (if given rej then negb (host_in (u_hostname u) (items rej)) else true).

(* recursion: start URLs always; requisites with -p; links with -r *)
Definition recursive_spec (enabled page_requisites : bool) (r : urlrec) : bool :=
  (r_level r =? 0) || (if is_requisite r then page_requisites else enabled).

(* depth: requisites no deeper than P inline levels; links <= L, requisites <= L + 2 *)
Definition level_spec (depth inline_max : Z) (r : urlrec) : bool :=
  negb (negb (inline_max =? 0) &&
        match r_inline r with Some d => negb (d =? 0) && (d >? inline_max) | None => false end)
  && (if depth =? 0 then true
      else if is_requisite r then r_level r <=? depth + 2 else r_level r <=? depth).

(* tries *)
Definition tries_spec (tries : Z) (r : urlrec) : bool :=
  if tries =? 0 then true else r_tries r <? tries.

(* no-parent *)
Definition dir_of (p : str) : str := hd [] (rsplit1 slash p) ++ [slash].
Definition schemes_similar_spec (a b : str) : bool := str_eqb a b || (web_scheme a && web_scheme b).
Definition same_site (u t : urlinfo) : bool :=
  schemes_similar_spec (u_scheme u) (u_scheme t)
  && ostr_eqb (u_hostname u) (u_hostname t)
  && (negb (str_eqb (u_scheme u) (u_scheme t)) || oint_eqb (u_port u) (u_port t)).
Definition top_of (L : lib) (u : urlinfo) (r : urlrec) : urlinfo :=
  match r_root r with
  | Some ((_ :: _) as s) => l_parse L s
  | _ => u
  end.
Definition parent_spec (L : lib) (u : urlinfo) (r : urlrec) : bool :=
  is_requisite r
  || negb (same_site u (top_of L u r))
  || startswith (dir_of (u_path u)) (dir_of (u_path (top_of L u r))).

(* span-hosts *)
Definition span_hosts_spec (L : lib) (hosts : list str) (enabled page_requisites linked_pages : bool)
           (u : urlinfo) (r : urlrec) : bool :=
  enabled
  || host_in (u_hostname u) hosts
  || (page_requisites && is_requisite r)
  || (linked_pages && match r_parent r with
                      | Some p => host_in (u_hostname (l_parse L p)) hosts
                      | None => false
                      end).

(* regex *)
Definition ogiven (o : option str) : bool := match o with Some s => nonempty s | None => false end.
Definition otext (o : option str) : str := match o with Some s => s | None => [] end.
Definition regex_spec (L : lib) (acc rej : option str) (u : urlinfo) : bool :=
  (if ogiven acc then l_re_search L (otext acc) (u_url u) else true) &&
  (if ogiven rej then negb (l_re_search L (otext rej) (u_url u)) else true).

(* directories: glob match of "path/" against "dir/" *)
Definition slashed (p : str) : str := if endswith p [slash] then p else p ++ [slash].
Definition dir_match (L : lib) (dirs : list str) (u : urlinfo) : bool :=
  existsb (fun d => l_fnmatchcase L (slashed (u_path u)) (slashed d)) dirs.
Definition directory_spec (L : lib) (acc rej : option (list str)) (u : urlinfo) : bool :=
  (if given acc then dir_match L (items acc) u else true) &&
  (if given rej then negb (dir_match L (items rej) u) else true).

(* file-name suffix patterns; an empty file name passes *)
Definition file_name (u : urlinfo) : str := hd [] (rev (rsplit1 slash (u_path u))).
Definition name_match (L : lib) (pats : list str) (name : str) : bool :=
  existsb (fun p => l_re_search L (l_fn_translate L p) name) pats.
Definition filename_spec (L : lib) (acc rej : option (list str)) (u : urlinfo) : bool :=
  if nonempty (file_name u) then
    (if given acc then name_match L (items acc) (file_name u) else true) &&
    (if given rej then negb (name_match L (items rej) (file_name u)) else true)
  else true.

Definition filter_spec (L : lib) (f : filter) (u : urlinfo) (r : urlrec) : bool :=
  match f with
  | FScheme al => scheme_spec al u
  | FHTTPSOnly => https_only_spec u
  | FFollowFTP fo => follow_ftp_spec L fo u r
  | FDomain a rj => domain_spec a rj u
  | FHostname a rj => hostname_spec a rj u
  | FRecursive e p => recursive_spec e p r
  | FLevel d i => level_spec d i r
  | FTries t => tries_spec t r
  | FParent => parent_spec L u r
  | FSpanHosts h e p l => span_hosts_spec L h e p l u r
  | FRegex a rj => regex_spec L a rj u
  | FDirectory a rj => directory_spec L a rj u
  | FFilename a rj => filename_spec L a rj u
  end.

(* ----------------------------------------- options -> scope (DESIGN App. B) *)
Definition default_schemes : list str := [s_http; s_https; s_ftp].
Definition s_page_requisites : str := [112; 97; 103; 101; 45; 114; 101; 113; 117; 105; 115; 105; 116; 101; 115]%N.
Definition s_linked_pages : str := [108; 105; 110; 107; 101; 100; 45; 112; 97; 103; 101; 115]%N.

Definition depth_rule_present (a : args) : bool :=
  (negb (a_level a =? 0) && a_recursive a) || negb (a_page_requisites_level a =? 0).

(* every bullet of Appendix B except the span-hosts one *)
Definition in_scope_but_span (L : lib) (a : args) (u : urlinfo) (r : urlrec) : bool :=
  (if a_https_only a then https_only_spec u else scheme_spec default_schemes u)
  && recursive_spec (a_recursive a) (a_page_requisites a) r
  && follow_ftp_spec L (a_follow_ftp a) u r
  && (if a_no_parent a then parent_spec L u r else true)
  && (if given (a_domains a) || given (a_exclude_domains a)
      then domain_spec (a_domains a) (a_exclude_domains a) u else true)
  && (if given (a_hostnames a) || given (a_exclude_hostnames a)
      then hostname_spec (a_hostnames a) (a_exclude_hostnames a) u else true)
  && tries_spec (a_tries a) r
  && (if depth_rule_present a then level_spec (a_level a) (a_page_requisites_level a) r else true)
  && regex_spec L (a_accept_regex a) (a_reject_regex a) u
  && directory_spec L (a_include_directories a) (a_exclude_directories a) u
  && filename_spec L (a_accept a) (a_reject a) u.

(* in_scope a start_hosts u r: the conjunction of Appendix B's bullets *)
Definition in_scope (L : lib) (a : args) (start_hosts : list str) (u : urlinfo) (r : urlrec) : bool :=
  in_scope_but_span L a u r
  && span_hosts_spec L start_hosts (a_span_hosts a)
       (existsb (str_eqb s_page_requisites) (a_span_hosts_allow a))
       (existsb (str_eqb s_linked_pages) (a_span_hosts_allow a)) u r.

(* the filter list the options denote (used to state that the translated builder
   produces exactly these filters, in this order) *)
Definition opt_filter (b : bool) (f : filter) : list filter := if b then [f] else [].
Definition build_spec (a : args) : list filter :=
  [ (if a_https_only a then FHTTPSOnly else FScheme default_schemes);
    FRecursive (a_recursive a) (a_page_requisites a);
    FFollowFTP (a_follow_ftp a) ]
  ++ opt_filter (a_no_parent a) FParent
  ++ opt_filter (given (a_domains a) || given (a_exclude_domains a)) (FDomain (a_domains a) (a_exclude_domains a))
  ++ opt_filter (given (a_hostnames a) || given (a_exclude_hostnames a)) (FHostname (a_hostnames a) (a_exclude_hostnames a))
  ++ opt_filter (negb (a_tries a =? 0)) (FTries (a_tries a))
  ++ opt_filter (depth_rule_present a) (FLevel (a_level a) (a_page_requisites_level a))
  ++ opt_filter (ogiven (a_accept_regex a) || ogiven (a_reject_regex a)) (FRegex (a_accept_regex a) (a_reject_regex a))
  ++ opt_filter (given (a_include_directories a) || given (a_exclude_directories a))
       (FDirectory (a_include_directories a) (a_exclude_directories a))
  ++ opt_filter (given (a_accept a) || given (a_reject a)) (FFilename (a_accept a) (a_reject a)).
Definition span_spec_filter (a : args) (table_hostnames : list str) : filter :=
  FSpanHosts table_hostnames (a_span_hosts a)
    (existsb (str_eqb s_page_requisites) (a_span_hosts_allow a))
    (existsb (str_eqb s_linked_pages) (a_span_hosts_allow a)).
Definition full_filters (a : args) (table_hostnames : list str) : list filter :=
  build_spec a ++ [span_spec_filter a table_hostnames].
