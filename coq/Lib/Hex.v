(* Byte strings are [list N] (each element < 256 when it is a byte, a code point
   otherwise).  The harness writes them as hexadecimal Coq string literals; this
   file turns them into lists.  Definitions only. *)
From Coq Require Import List NArith Bool Ascii String.
Open Scope bool_scope.
Import ListNotations.
Open Scope N_scope.

Definition hexval (c : ascii) : N :=
  let n := N_of_ascii c in
  if (48 <=? n) && (n <=? 57) then n - 48
  else if (97 <=? n) && (n <=? 102) then n - 87
  else if (65 <=? n) && (n <=? 70) then n - 55
  else 0.

Fixpoint unhex (s : string) : list N :=
  match s with
  | String a (String b r) => (hexval a * 16 + hexval b) :: unhex r
  | _ => []
  end.

(* code points: fixed six hex digits each *)
Fixpoint unhex6 (s : string) : list N :=
  match s with
  | String a (String b (String c (String d (String e (String f r))))) =>
      (((((hexval a * 16 + hexval b) * 16 + hexval c) * 16 + hexval d) * 16 + hexval e) * 16 + hexval f)
        :: unhex6 r
  | _ => []
  end.

Definition hexdigit (n : N) : ascii :=
  if n <? 10 then ascii_of_N (48 + n) else ascii_of_N (87 + n).

Fixpoint tohex (l : list N) : string :=
  match l with
  | [] => EmptyString
  | x :: r => String (hexdigit (x / 16)) (String (hexdigit (x mod 16)) (tohex r))
  end.

Fixpoint list_eqb (a b : list N) : bool :=
  match a, b with
  | [], [] => true
  | x :: a', y :: b' => (x =? y) && list_eqb a' b'
  | _, _ => false
  end.

Definition opt_list_eqb (a b : option (list N)) : bool :=
  match a, b with
  | None, None => true
  | Some x, Some y => list_eqb x y
  | _, _ => false
  end.

(* indices of the cases whose check is false *)
Fixpoint failing_from (i : nat) (l : list bool) : list nat :=
  match l with
  | [] => []
  | true :: r => failing_from (S i) r
  | false :: r => i :: failing_from (S i) r
  end.
Definition failing (l : list bool) : list nat := failing_from 0 l.
