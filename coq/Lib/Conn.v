(* The connection as wpull's stream readers see it (network/connection.py on top
   of asyncio.StreamReader), with the way the byte stream is cut into reads made
   an explicit, universally quantifiable parameter.

   conn    = the bytes the peer has sent and the client has not consumed yet
             ([pending]; after them the peer closes: EOF) + whether a read has
             already run into that EOF ([eof_hit], i.e. StreamReader.at_eof()).
   oracle  = the SEGMENTATION ORACLE [sched]: when a [read n] is issued while
             [len] bytes are still pending it delivers [min n (sched len + 1)]
             bytes (never 0 unless EOF, never more than n, never more than is
             pending).  The oracle is indexed by the number of pending bytes
             rather than consumed from a list: every non-empty read strictly
             shortens [pending], so the k-th read of a run sees an index no other
             read of that run sees, and ANY finite sequence of read sizes (any
             way the kernel / event loop cuts the stream, down to single bytes)
             is the behaviour of some oracle.  Quantifying over all oracles is
             quantifying over all segmentations; the benefit of the positional
             form is that the oracle is an environment (no threading), so
             "segmentation independent" is literally "does not depend on [o]".
             [list_oracle] turns a scripted list of read sizes into an oracle.

   [readline] is StreamReader.readline (readuntil b'\n', default limit 2**16):
   through the first LF; everything when EOF comes first; ValueError when the
   LF is at an index > limit or there is no LF and more than limit bytes are
   pending.  (asyncio raises LimitOverrunError either when it finds the
   separator beyond the limit or when the buffer has outgrown the limit without
   one; WHICH of the two happens depends on the segmentation, THAT one happens
   does not.  What is left in the buffer afterwards differs; every wpull caller
   closes the connection on that error, so the model empties [pending].)

   This file has the definitions and the generic lemmas ("a read loop returns
   a function of the pending bytes for EVERY oracle"). *)
From Coq Require Import List NArith Bool Arith Lia.
From Wpull Require Import Lib.ListX.
Import ListNotations.

Record conn := mkConn { pending : list N; eof_hit : bool }.

Definition oracle := nat -> nat.

Definition read (o : oracle) (n : nat) (c : conn) : list N * conn :=
  match pending c with
  | [] => ([], mkConn [] true)
  | _ :: _ =>
      let m := Nat.min n (S (o (length (pending c)))) in
      (firstn m (pending c), mkConn (skipn m (pending c)) (eof_hit c))
  end.

(* a scripted run: the i-th non-empty read delivers (nth i sizes) bytes; the
   harness records (pending length before the read, size) pairs *)
Fixpoint list_oracle (tbl : list (nat * nat)) : oracle :=
  fun len =>
    match tbl with
    | [] => 0
    | (l, k) :: r => if Nat.eqb l len then Nat.pred k else list_oracle r len
    end.

(* the oracle of a SCRIPTED TRANSPORT: the stream of [total] bytes arrives in segments ending at the
   positions [ends] (ascending, the last one = total) and a segment is handed to the reader exactly
   when its buffer is empty (asyncio.StreamReader: read(n) returns what is buffered, up to n, and
   waits for the transport only on an empty buffer; readline may pull several segments, after which
   the buffer holds the rest of the last one).  So with [len] bytes pending, i.e. at position
   total - len, the buffer holds the rest of the segment that position lies in.  Unlike
   [list_oracle] this does not look at the reads an implementation made. *)
Fixpoint seg_end (ends : list nat) (p : nat) : nat :=
  match ends with
  | [] => S p
  | e :: r => if Nat.ltb p e then e else seg_end r p
  end.
Definition cuts_oracle (total : nat) (ends : list nat) : oracle :=
  fun len => Nat.pred (seg_end ends (total - len) - (total - len)).

Fixpoint find_lf (l : list N) : option nat :=
  match l with
  | [] => None
  | x :: r => if N.eqb x 10 then Some 0 else option_map S (find_lf r)
  end.

Definition line_limit : N := 65536.

Inductive line_result := Line (l : list N) | LineTooLong.

Definition readline (c : conn) : line_result * conn :=
  match find_lf (pending c) with
  | Some i =>
      if N.ltb line_limit (N.of_nat i) then (LineTooLong, mkConn [] (eof_hit c))
      else (Line (firstn (S i) (pending c)), mkConn (skipn (S i) (pending c)) (eof_hit c))
  | None =>
      if N.ltb line_limit (N.of_nat (length (pending c))) then (LineTooLong, mkConn [] (eof_hit c))
      else (Line (pending c), mkConn [] true)
  end.

(* the bare loop "read at most rs bytes at a time until [left] bytes have been
   delivered or EOF"; returns the pieces *)
Fixpoint read_exact (o : oracle) (fuel left rs : nat) (c : conn) : list (list N) * conn :=
  match fuel with
  | 0 => ([], c)
  | S f =>
      match left with
      | 0 => ([], c)
      | _ =>
          let '(d, c1) := read o (Nat.min left rs) c in
          match d with
          | [] => ([], c1)
          | _ => let '(ps, c2) := read_exact o f (left - length d) rs c1 in (d :: ps, c2)
          end
      end
  end.

(* ------------------------------------------------------------------ *)
(* one-step facts about [read] *)

Lemma read_eof o n c : pending c = [] -> read o n c = ([], mkConn [] true).
Proof. unfold read. now intros ->. Qed.

(* a read of n > 0 bytes on a non-empty stream delivers some m with
   1 <= m <= n, m <= |pending|: a non-empty prefix; nothing else is known *)
Lemma read_some o n c :
  pending c <> [] -> 0 < n ->
  exists m, 0 < m /\ m <= n /\ m <= length (pending c) /\
            read o n c = (firstn m (pending c), mkConn (skipn m (pending c)) (eof_hit c)).
Proof.
  intros Hne Hn. unfold read. destruct (pending c) as [|x p] eqn:E; [congruence|].
  set (k := Nat.min n (S (o (length (x :: p))))).
  destruct (le_lt_dec k (length (x :: p))) as [Hk|Hk].
  - exists k. repeat split; try reflexivity; subst k; cbn [length] in *; lia.
  - exists (length (x :: p)). repeat split; try (subst k; cbn [length] in *; lia).
    rewrite !firstn_all2 by lia. rewrite !skipn_all2 by lia. reflexivity.
Qed.

Lemma firstn_nonempty {A} m (l : list A) : 0 < m -> l <> [] -> firstn m l <> [].
Proof. destruct m; [lia|]. destruct l; [congruence|]. cbn. congruence. Qed.

(* ------------------------------------------------------------------ *)
(* the key lemma: for EVERY oracle the loop delivers exactly the first [left]
   pending bytes (all of them when the stream is shorter), in non-empty pieces,
   leaves the rest, and has seen EOF iff the stream was too short *)
Theorem read_exact_spec o rs : 0 < rs ->
  forall fuel left c, left <= fuel ->
    let '(ps, c') := read_exact o fuel left rs c in
    concat ps = firstn left (pending c)
    /\ Forall (fun p => p <> []) ps
    /\ pending c' = skipn left (pending c)
    /\ eof_hit c' = (eof_hit c || (length (pending c) <? left))%bool.
Proof.
  intros Hrs. induction fuel as [|f IH]; intros left c Hf.
  - assert (left = 0) by lia. subst. cbn. rewrite orb_false_r. repeat split; constructor.
  - cbn [read_exact]. destruct left as [|l].
    { cbn. rewrite orb_false_r. repeat split; constructor. }
    assert (Hcase : pending c = [] \/ pending c <> [])
      by (destruct (pending c); [now left | right; congruence]).
    destruct Hcase as [E|Hne].
    + rewrite read_eof by assumption. cbn. rewrite E. cbn. rewrite orb_true_r. repeat split; constructor.
    + 
      destruct (read_some o (Nat.min (S l) rs) c Hne ltac:(lia)) as (m & Hm0 & Hmn & Hml & R).
      rewrite R.
      assert (Hd : firstn m (pending c) <> []) by now apply firstn_nonempty.
      destruct (firstn m (pending c)) as [|d0 d] eqn:ED; [congruence|]. rewrite <- ED in *. clear ED d0 d.
      rewrite firstn_length_le by lia.
      specialize (IH (S l - m) (mkConn (skipn m (pending c)) (eof_hit c)) ltac:(lia)).
      destruct (read_exact o f (S l - m) rs _) as [ps c2]. cbn [pending eof_hit] in IH.
      destruct IH as (I1 & I2 & I3 & I4).
      replace (S l) with (m + (S l - m)) at 1 2 by lia.
      rewrite concat_cons_app, I1, firstn_plus, skipn_plus. repeat split; auto.
      rewrite I4. f_equal. rewrite skipn_length.
      destruct (Nat.ltb_spec (length (pending c) - m) (S l - m)), (Nat.ltb_spec (length (pending c)) (S l)); try reflexivity; lia.
Qed.

Corollary read_exact_oracle_independent o1 o2 rs fuel left c :
  0 < rs -> left <= fuel ->
  concat (fst (read_exact o1 fuel left rs c)) = concat (fst (read_exact o2 fuel left rs c))
  /\ snd (read_exact o1 fuel left rs c) = snd (read_exact o2 fuel left rs c).
Proof.
  intros Hrs Hf.
  pose proof (read_exact_spec o1 rs Hrs fuel left c Hf) as H1.
  pose proof (read_exact_spec o2 rs Hrs fuel left c Hf) as H2.
  destruct (read_exact o1 fuel left rs c) as [p1 [q1 e1]], (read_exact o2 fuel left rs c) as [p2 [q2 e2]].
  cbn [fst snd pending eof_hit] in *.
  destruct H1 as (A1 & _ & A3 & A4), H2 as (B1 & _ & B3 & B4). split; congruence.
Qed.

(* ------------------------------------------------------------------ *)
(* facts about [readline] *)

Lemma find_lf_some l i : find_lf l = Some i ->
  exists a b, l = a ++ 10%N :: b /\ length a = i /\ ~ In 10%N a.
Proof.
  revert i; induction l as [|x r IH]; intros i; cbn [find_lf]; [discriminate|].
  destruct (N.eqb_spec x 10) as [->|Hx].
  - intros [= <-]. exists [], r. repeat split. intros [].
  - destruct (find_lf r) as [j|]; [|discriminate]. intros [= <-].
    destruct (IH j eq_refl) as (a & b & -> & <- & Hn). exists (x :: a), b. repeat split.
    intros [H|H]; [congruence|contradiction].
Qed.

Lemma find_lf_none l : find_lf l = None -> ~ In 10%N l.
Proof.
  induction l as [|x r IH]; cbn [find_lf]; [intros _ []|].
  destruct (N.eqb_spec x 10) as [->|Hx]; [discriminate|].
  destruct (find_lf r); [discriminate|]. intros _ [H|H]; [congruence|now apply IH].
Qed.

Lemma find_lf_app a b : ~ In 10%N a -> find_lf (a ++ 10%N :: b) = Some (length a).
Proof.
  induction a as [|x a IH]; intros Hn; cbn [app find_lf length].
  - reflexivity.
  - destruct (N.eqb_spec x 10) as [->|Hx]; [exfalso; apply Hn; now left|].
    rewrite IH; [reflexivity|]. intros H; apply Hn; now right.
Qed.

Lemma find_lf_notin l : ~ In 10%N l -> find_lf l = None.
Proof.
  induction l as [|x r IH]; intros Hn; cbn [find_lf]; [reflexivity|].
  destruct (N.eqb_spec x 10) as [->|Hx]; [exfalso; apply Hn; now left|].
  rewrite IH; [reflexivity|]. intros H; apply Hn; now right.
Qed.

(* a complete short line is returned whole, the rest stays *)
Lemma readline_line a b e :
  ~ In 10%N a -> (N.of_nat (length a) <= line_limit)%N ->
  readline (mkConn (a ++ 10%N :: b) e) = (Line (a ++ [10%N]), mkConn b e).
Proof.
  intros Hn Hl. unfold readline. cbn [pending eof_hit]. rewrite find_lf_app by assumption.
  destruct (N.ltb_spec line_limit (N.of_nat (length a))); [lia|].
  replace (S (length a)) with (length (a ++ [10%N])) by (rewrite app_length; cbn; lia).
  replace (a ++ 10%N :: b) with ((a ++ [10%N]) ++ b) by (now rewrite <- app_assoc).
  rewrite firstn_app, firstn_all, Nat.sub_diag, firstn_O, app_nil_r.
  rewrite skipn_app, skipn_all, Nat.sub_diag. reflexivity.
Qed.

(* the peer closed inside a line: what there is comes back, without LF *)
Lemma readline_eof a e :
  ~ In 10%N a -> (N.of_nat (length a) <= line_limit)%N ->
  readline (mkConn a e) = (Line a, mkConn [] true).
Proof.
  intros Hn Hl. unfold readline. cbn [pending eof_hit]. rewrite find_lf_notin by assumption.
  destruct (N.ltb_spec line_limit (N.of_nat (length a))); [lia|reflexivity].
Qed.

(* whatever readline returns, it is a prefix of pending and the rest is what
   remains (or the connection is poisoned by the over-long line) *)
Lemma readline_prefix c l c' :
  readline c = (Line l, c') -> pending c = l ++ pending c'.
Proof.
  unfold readline. destruct (find_lf (pending c)) as [i|].
  - destruct (N.ltb line_limit (N.of_nat i)); [discriminate|]. intros [= <- <-].
    exact (eq_sym (firstn_skipn (S i) (pending c))).
  - destruct (N.ltb line_limit _); [discriminate|]. intros [= <- <-]. cbn. now rewrite app_nil_r.
Qed.

Lemma readline_progress c l c' :
  readline c = (Line l, c') -> l <> [] -> length (pending c') < length (pending c).
Proof.
  intros H Hl. apply readline_prefix in H. rewrite H, app_length. destruct l; [congruence|cbn; lia].
Qed.
