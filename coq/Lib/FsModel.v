(* A file system as the recorder sees it: a finite map from path strings to byte
   contents (association list), the primitive operations the WARC recorder
   performs on it, and the two adversaries of C06:
     - a FAULT makes one primitive raise OSError, after an arbitrary partial
       effect (a write may have put ANY bytes at the end of the file; an
       open/unlink/truncate may or may not have taken effect);
     - a CRASH stops the process at one primitive, with the same partial effects.
   What is below this boundary (page cache, fsync, directory durability, path
   aliasing, directories) is not modelled. *)
From Coq Require Import List NArith Bool Lia Arith ZifyBool ZifyNat ZifyN.
Import ListNotations.
Open Scope N_scope.
Open Scope bool_scope.

Definition name := list N.
Definition bytes := list N.
Definition fs := list (name * bytes).

Fixpoint leqb (a b : list N) : bool :=
  match a, b with
  | [], [] => true
  | x :: a', y :: b' => (x =? y) && leqb a' b'
  | _, _ => false
  end.

Fixpoint lookup (s : fs) (f : name) : option bytes :=
  match s with
  | [] => None
  | (g, c) :: r => if leqb g f then Some c else lookup r f
  end.

Definition content (s : fs) (f : name) : bytes :=
  match lookup s f with Some c => c | None => [] end.

Definition exists_file (s : fs) (f : name) : bool :=
  match lookup s f with Some _ => true | None => false end.

Fixpoint set (s : fs) (f : name) (c : bytes) : fs :=
  match s with
  | [] => [(f, c)]
  | (g, d) :: r => if leqb g f then (g, c) :: r else (g, d) :: set r f c
  end.

Fixpoint remove (s : fs) (f : name) : fs :=
  match s with
  | [] => []
  | (g, d) :: r => if leqb g f then remove r f else (g, d) :: remove r f
  end.

(* os.path.getsize, 0 when the file does not exist (write_record's before_offset) *)
Definition size (s : fs) (f : name) : N := N.of_nat (length (content s f)).

(* file.truncate(n): cut, or extend with NUL bytes *)
Definition truncate_to (n : N) (c : bytes) : bytes :=
  firstn (N.to_nat n) c ++ repeat 0 (N.to_nat n - length c).

Inductive op :=
| Create (f : name)                 (* open(f, 'w' / 'wb'): create, or truncate to empty *)
| OpenAppend (f : name)             (* open(f, 'ab'): create when absent *)
| Write (f : name) (b : bytes)      (* a write that lands at the end of the file *)
| Close (f : name)
| OpenRW (f : name)                 (* open(f, 'r+b'): OSError when absent *)
| Truncate (f : name) (n : N)
| Unlink (f : name).                (* os.remove: OSError when absent *)

(* None = the primitive raises OSError by itself *)
Definition apply_op (s : fs) (o : op) : option fs :=
  match o with
  | Create f => Some (set s f [])
  | OpenAppend f => Some (if exists_file s f then s else set s f [])
  | Write f b => Some (set s f (content s f ++ b))
  | Close _ => Some s
  | OpenRW f => if exists_file s f then Some s else None
  | Truncate f n => Some (set s f (truncate_to n (content s f)))
  | Unlink f => if exists_file s f then Some (remove s f) else None
  end.

(* what an interrupted primitive leaves behind: [w] = the bytes an interrupted
   write put into the file (arbitrary), [done] = whether an interrupted
   non-write primitive took effect *)
Definition partial_op (s : fs) (o : op) (done : bool) (w : bytes) : fs :=
  match o with
  | Write f _ => set s f (content s f ++ w)
  | _ => if done then match apply_op s o with Some s' => s' | None => s end else s
  end.

(* the adversary's choice: primitive number [k] (in execution order) is hit *)
Inductive interrupt := Intr (k : nat) (done : bool) (w : bytes).

Definition hits (i : option interrupt) (n : nat) : option (bool * bytes) :=
  match i with
  | Some (Intr k d w) => if Nat.eqb k n then Some (d, w) else None
  | None => None
  end.

Inductive ending := EndOk | EndErr | EndCrash.

(* run primitives [ops], numbered from [n], under a fault and a crash plan *)
Fixpoint run_phase (ops : list op) (n : nat) (flt crash : option interrupt) (s : fs)
  : fs * ending * nat :=
  match ops with
  | [] => (s, EndOk, n)
  | o :: r =>
      match hits crash n with
      | Some (d, w) => (partial_op s o d w, EndCrash, S n)
      | None =>
          match hits flt n with
          | Some (d, w) => (partial_op s o d w, EndErr, S n)
          | None =>
              match apply_op s o with
              | None => (s, EndErr, S n)
              | Some s' => run_phase r (S n) flt crash s'
              end
          end
      end
  end.

(* ---------------------------------------------------------------- lemmas *)

Lemma leqb_refl (a : list N) : leqb a a = true.
Proof. induction a as [|x a IH]; cbn; [reflexivity|]. rewrite N.eqb_refl. exact IH. Qed.

Lemma leqb_eq (a b : list N) : leqb a b = true <-> a = b.
Proof.
  split; [|intros ->; apply leqb_refl].
  revert b; induction a as [|x a IH]; intros [|y b] H; cbn in H; try discriminate; [reflexivity|].
  apply andb_true_iff in H. destruct H as [H1 H2]. apply N.eqb_eq in H1. subst y.
  f_equal. apply IH. exact H2.
Qed.

Lemma leqb_neq (a b : list N) : leqb a b = false <-> a <> b.
Proof.
  split.
  - intros H E. subst b. rewrite leqb_refl in H. discriminate.
  - intros H. destruct (leqb a b) eqn:E; [|reflexivity]. apply leqb_eq in E. contradiction.
Qed.

Lemma lookup_set_same (s : fs) (f : name) (c : bytes) : lookup (set s f c) f = Some c.
Proof.
  induction s as [|[g d] r IH]; cbn.
  - now rewrite leqb_refl.
  - destruct (leqb g f) eqn:E; cbn; rewrite E; [reflexivity|exact IH].
Qed.

Lemma lookup_set_other (s : fs) (f g : name) (c : bytes) :
  f <> g -> lookup (set s f c) g = lookup s g.
Proof.
  intros NE. induction s as [|[h d] r IH]; cbn.
  - apply leqb_neq in NE. now rewrite NE.
  - destruct (leqb h f) eqn:E; cbn.
    + apply leqb_eq in E. subst h. apply leqb_neq in NE. now rewrite NE.
    + destruct (leqb h g); [reflexivity|exact IH].
Qed.

Lemma lookup_remove_same (s : fs) (f : name) : lookup (remove s f) f = None.
Proof.
  induction s as [|[g d] r IH]; cbn; [reflexivity|].
  destruct (leqb g f) eqn:E; cbn; [exact IH|]. now rewrite E.
Qed.

Lemma lookup_remove_other (s : fs) (f g : name) :
  f <> g -> lookup (remove s f) g = lookup s g.
Proof.
  intros NE. induction s as [|[h d] r IH]; cbn; [reflexivity|].
  destruct (leqb h f) eqn:E; cbn.
  - apply leqb_eq in E. subst h. apply leqb_neq in NE. now rewrite NE.
  - destruct (leqb h g); [reflexivity|exact IH].
Qed.

Lemma content_set_same s f c : content (set s f c) f = c.
Proof. unfold content. now rewrite lookup_set_same. Qed.

Lemma content_set_other s f g c : f <> g -> content (set s f c) g = content s g.
Proof. intros H. unfold content. now rewrite lookup_set_other. Qed.

Lemma truncate_to_app (old junk : bytes) :
  truncate_to (N.of_nat (length old)) (old ++ junk) = old.
Proof.
  unfold truncate_to. rewrite Nat2N.id, firstn_app, firstn_all, Nat.sub_diag. cbn [firstn].
  rewrite app_nil_r, app_length.
  replace (length old - (length old + length junk))%nat with 0%nat by lia.
  cbn. apply app_nil_r.
Qed.

Lemma truncate_to_same (c : bytes) : truncate_to (N.of_nat (length c)) c = c.
Proof. rewrite <- (app_nil_r c) at 2. rewrite truncate_to_app. reflexivity. Qed.
