(* N <-> decimal digit strings (ASCII codes, most significant digit first), as
   Python's str(int) prints them and as a strict reader reads them back.
   Used for Content-Length, journal offsets, CDX offsets/lengths, file sequence
   numbers.  Round-trip lemma [undec_dec]. *)
From Coq Require Import List NArith Bool Lia Arith ZifyBool ZifyNat ZifyN.
Import ListNotations.
Open Scope N_scope.
Open Scope bool_scope.

Definition is_digit (c : N) : bool := (48 <=? c) && (c <=? 57).

(* little-endian digits; [fuel] bounds the number of digits *)
Fixpoint dec_le (fuel : nat) (n : N) : list N :=
  match fuel with
  | O => []
  | S f => (48 + n mod 10) :: (if n / 10 =? 0 then [] else dec_le f (n / 10))
  end.

(* str(n) *)
Definition dec (n : N) : list N := rev (dec_le (S (N.size_nat n)) n).

Fixpoint val_le (l : list N) : N :=
  match l with
  | [] => 0
  | d :: r => (d - 48) + 10 * val_le r
  end.

(* strict reader: one or more ASCII digits, nothing else *)
Definition undec (l : list N) : option N :=
  match l with
  | [] => None
  | _ => if forallb is_digit l then Some (val_le (rev l)) else None
  end.

(* '{:05d}'.format(n) and friends *)
Definition dec_pad (width : nat) (n : N) : list N :=
  let d := dec n in repeat 48 (width - length d) ++ d.

(* ---- lemmas ---- *)

Lemma size_nat_bound (n : N) : n < 2 ^ N.of_nat (N.size_nat n).
Proof.
  destruct n as [|p]; cbn; [lia|].
  induction p as [p IH|p IH|]; cbn [Pos.size_nat].
  - rewrite Nat2N.inj_succ, N.pow_succ_r'. change (N.pos p~1) with (2 * N.pos p + 1). lia.
  - rewrite Nat2N.inj_succ, N.pow_succ_r'. change (N.pos p~0) with (2 * N.pos p). lia.
  - cbn. lia.
Qed.

Lemma dec_le_S (f : nat) (n : N) :
  dec_le (S f) n = (48 + n mod 10) :: (if n / 10 =? 0 then [] else dec_le f (n / 10)).
Proof. reflexivity. Qed.

Lemma val_dec_le (f : nat) (n : N) : n < 2 ^ N.of_nat f -> val_le (dec_le (S f) n) = n.
Proof.
  revert n; induction f as [|f IH]; intros n Hn.
  - assert (n = 0) by (cbn in Hn; lia). subst n. reflexivity.
  - rewrite dec_le_S. cbn [val_le].
    pose proof (N.div_mod n 10 ltac:(lia)) as DM.
    pose proof (N.mod_lt n 10 ltac:(lia)) as ML.
    destruct (n / 10 =? 0) eqn:E.
    + cbn [val_le]. lia.
    + assert (Hq : n / 10 < 2 ^ N.of_nat f).
      { rewrite Nat2N.inj_succ, N.pow_succ_r' in Hn.
        apply N.div_lt_upper_bound; lia. }
      rewrite (IH (n / 10) Hq). lia.
Qed.

Lemma dec_le_digits (f : nat) (n : N) : forallb is_digit (dec_le f n) = true.
Proof.
  revert n; induction f as [|f IH]; intros n; cbn [dec_le forallb]; [reflexivity|].
  pose proof (N.mod_lt n 10 ltac:(lia)).
  assert (is_digit (48 + n mod 10) = true) by (unfold is_digit; lia).
  destruct (n / 10 =? 0); cbn [forallb]; rewrite ?IH; lia.
Qed.

Lemma dec_le_nonempty (f : nat) (n : N) : dec_le (S f) n <> [].
Proof. cbn [dec_le]. discriminate. Qed.

Lemma forallb_rev {A} (p : A -> bool) (l : list A) : forallb p (rev l) = forallb p l.
Proof.
  induction l as [|x l IH]; cbn; [reflexivity|].
  rewrite forallb_app, IH. cbn. rewrite andb_true_r. apply andb_comm.
Qed.

Lemma dec_digits (n : N) : forallb is_digit (dec n) = true.
Proof. unfold dec. rewrite forallb_rev. apply dec_le_digits. Qed.

Lemma dec_nonempty (n : N) : dec n <> [].
Proof.
  unfold dec. intros E. apply (f_equal (@rev N)) in E. rewrite rev_involutive in E.
  cbn [rev] in E. exact (dec_le_nonempty _ _ E).
Qed.

Theorem undec_dec (n : N) : undec (dec n) = Some n.
Proof.
  unfold undec. pose proof (dec_nonempty n) as NE. destruct (dec n) eqn:E; [contradiction|].
  rewrite <- E. rewrite dec_digits. unfold dec. rewrite rev_involutive.
  rewrite val_dec_le; [reflexivity | apply size_nat_bound].
Qed.

Lemma dec_pad_digits (w : nat) (n : N) : forallb is_digit (dec_pad w n) = true.
Proof.
  unfold dec_pad. rewrite forallb_app, dec_digits, andb_true_r.
  induction (w - length (dec n))%nat; cbn; [reflexivity|assumption].
Qed.
