(* List lemmas missing from the 8.16 standard library. *)
From Coq Require Import List Arith Lia.
Import ListNotations.

Lemma firstn_plus {A} (a b : nat) (l : list A) :
  firstn (a + b) l = firstn a l ++ firstn b (skipn a l).
Proof.
  revert l; induction a as [|a IH]; intros l; cbn; [reflexivity|].
  destruct l as [|x l]; cbn; [now rewrite firstn_nil|]. now rewrite IH.
Qed.

Lemma skipn_plus {A} (a b : nat) (l : list A) :
  skipn (a + b) l = skipn b (skipn a l).
Proof.
  revert l; induction a as [|a IH]; intros l; cbn; [reflexivity|].
  destruct l as [|x l]; cbn; [now rewrite skipn_nil|]. apply IH.
Qed.

Lemma firstn_all2' {A} (n : nat) (l : list A) : length l <= n -> firstn n l = l.
Proof. apply firstn_all2. Qed.

Lemma skipn_all2' {A} (n : nat) (l : list A) : length l <= n -> skipn n l = [].
Proof. apply skipn_all2. Qed.

Lemma concat_cons_app {A} (x : list A) (l : list (list A)) : concat (x :: l) = x ++ concat l.
Proof. reflexivity. Qed.

Lemma Forall_concat_nil {A} (l : list (list A)) :
  Forall (fun p => p <> []) l -> concat l = [] -> l = [].
Proof.
  intros H; destruct H as [|x l Hx Hl]; cbn; [reflexivity|].
  intros E. apply app_eq_nil in E. destruct E as [E _]. contradiction.
Qed.
