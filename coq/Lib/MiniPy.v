(* MiniPy - the deep-embedded mini-Python the translators print into
   (harness/translate/*.py), its dynamic values, and the interpreter.

   The translator does NOT decide what Python means: it prints a function body
   as a [stmt] term; truthiness of None/0/''/[], short-circuit and/or returning
   operands, None < 1 raising TypeError, falling off the end returning None,
   for ... return, dynamic dispatch on the receiver's class - all of that is
   the interpreter below, which is the object of the theorems.

   Names (classes, methods, attributes, builtins) are fixed ENUMERATIONS - the
   translator's signature table.  A name that is not listed here is a translator
   failure (fail closed).  Names are deliberately not Coq strings (String.eqb on
   a stuck match makes cbn explode).  Definitions and tactics only. *)
From Coq Require Import List NArith ZArith Bool String Ascii.
Import ListNotations.
Open Scope bool_scope.

(* ------------------------------------------------------------------ names *)
Inductive cls :=
| C_SchemeFilter | C_HTTPSOnlyFilter | C_FollowFTPFilter | C_BackwardDomainFilter
| C_HostnameFilter | C_RecursiveFilter | C_LevelFilter | C_TriesFilter | C_ParentFilter
| C_SpanHostsFilter | C_RegexFilter | C_DirectoryFilter | C_BackwardFilenameFilter
| C_DemuxURLFilter | C_FetchRule | C_RedirectTracker | C_URLProperties | C_URLInfo
| C_URLFiltersSetupTask | C_URLFiltersPostURLImportSetupTask
| C_Args | C_Session | C_Response | C_Request | C_Fields | C_Record
| C_mod_url.            (* module-level functions of wpull/url.py *)

Inductive mname :=
| M_test | M_match | M__is_accepted | M__is_rejected | M_test_info
| M_consult_filters | M_is_only_span_hosts_failed
| M__build_url_filters | M_span_hosts_filter
| M_load | M_next_location | M_is_redirect | M_is_repeat | M_count | M_exceeded
| M_parent_url_info | M_schemes_similar | M_is_subdir | M_new.

Inductive attr :=
(* URLInfo *)
| A_scheme | A_hostname | A_port | A_path | A_url
(* URLRecord / URLProperties *)
| A_level | A_inline_level | A_try_count | A_parent_url | A_root_url | A_parent_url_info
(* filter instance fields *)
| A__allowed | A__follow | A__accepted | A__rejected | A__enabled | A__page_requisites
| A__depth | A__inline_max_depth | A__tries | A__hostnames | A__linked_pages
| A__url_filters | A__url_filter
(* argparse namespace / session *)
| A_args | A_https_only | A_recursive | A_page_requisites | A_follow_ftp | A_no_parent
| A_domains | A_exclude_domains | A_hostnames | A_exclude_hostnames | A_tries
| A_page_requisites_level | A_accept_regex | A_reject_regex | A_include_directories
| A_exclude_directories | A_accept | A_reject | A_span_hosts | A_span_hosts_allow
| A_table_hostnames
(* RedirectTracker / Response / Request *)
| A__max_redirects | A__codes | A__repeat_codes | A__response | A__num_redirects
| A_fields | A_status_code | A_request | A_url_info.

Definition attr_idx (a : attr) : N :=
  match a with
  | A_scheme => 1 | A_hostname => 2 | A_port => 3 | A_path => 4 | A_url => 5
  | A_level => 6 | A_inline_level => 7 | A_try_count => 8 | A_parent_url => 9 | A_root_url => 10
  | A_parent_url_info => 11
  | A__allowed => 12 | A__follow => 13 | A__accepted => 14 | A__rejected => 15 | A__enabled => 16
  | A__page_requisites => 17 | A__depth => 18 | A__inline_max_depth => 19 | A__tries => 20
  | A__hostnames => 21 | A__linked_pages => 22 | A__url_filters => 23 | A__url_filter => 24
  | A_args => 25 | A_https_only => 26 | A_recursive => 27 | A_page_requisites => 28 | A_follow_ftp => 29
  | A_no_parent => 30 | A_domains => 31 | A_exclude_domains => 32 | A_hostnames => 33
  | A_exclude_hostnames => 34 | A_tries => 35 | A_page_requisites_level => 36 | A_accept_regex => 37
  | A_reject_regex => 38 | A_include_directories => 39 | A_exclude_directories => 40 | A_accept => 41
  | A_reject => 42 | A_span_hosts => 43 | A_span_hosts_allow => 44 | A_table_hostnames => 45
  | A__max_redirects => 46 | A__codes => 47 | A__repeat_codes => 48 | A__response => 49
  | A__num_redirects => 50 | A_fields => 51 | A_status_code => 52 | A_request => 53 | A_url_info => 54
  end%N.
Definition attr_eqb (a b : attr) : bool := N.eqb (attr_idx a) (attr_idx b).

(* builtins, modelled string methods, and library oracles *)
Inductive builtin :=
| B_len | B_set | B_dict | B_tuple
| B_endswith | B_startswith | B_rsplit1      (* s.endswith(t), s.startswith(t), s.rsplit(c, 1) *)
| B_get                                       (* mapping.get(key) *)
| B_re_search | B_fnmatch_translate | B_fnmatchcase   (* oracles *)
| B_URLInfo_parse | B_urljoin.                         (* oracles *)

Inductive cmpop := Eq | NotEq | Lt | LtE | Gt | GtE | In | NotIn | Is | IsNot.

(* ----------------------------------------------------------------- values *)
Definition str := list N.

Inductive pv :=
| PNone
| PBool (b : bool)
| PInt (z : Z)
| PStr (s : str)
| PTuple (l : list pv)
| PList (l : list pv)
| PSet (l : list pv)           (* insertion order kept; no duplicates (see set_add) *)
| PDict (l : list (pv * pv))   (* insertion order; keys unique (see dict_set) *)
| PObj (c : cls) (f : attr -> option pv)
| POpaque.                     (* a truthy object without attributes (e.g. an re match) *)

Inductive err :=
| OutOfFuel | Unsupported | TypeError | AttributeError | UnboundLocal | KeyError | IndexError | ValueError.

Inductive res (A : Type) := Ok (a : A) | Err (e : err).
Arguments Ok {A} a.
Arguments Err {A} e.

Definition bind {A B} (r : res A) (k : A -> res B) : res B :=
  match r with Ok a => k a | Err e => Err e end.
Notation "'do' x <- r ;; k" := (bind r (fun x => k)) (at level 200, x pattern, r at level 100, k at level 200).

(* ---------------------------------------------------------------- strings *)
Fixpoint str_eqb (a b : str) : bool :=
  match a, b with
  | [], [] => true
  | x :: a', y :: b' => N.eqb x y && str_eqb a' b'
  | _, _ => false
  end.

Fixpoint startswith (s p : str) : bool :=
  match p, s with
  | [], _ => true
  | y :: p', x :: s' => N.eqb x y && startswith s' p'
  | _ :: _, [] => false
  end.

Definition endswith (s p : str) : bool := startswith (rev s) (rev p).

(* s.rsplit(c, 1): [s] when c does not occur, else [before the last c; after it] *)
Fixpoint rsplit1_aux (c : N) (s : str) : option (str * str) :=
  match s with
  | [] => None
  | x :: s' =>
      match rsplit1_aux c s' with
      | Some (h, t) => Some (x :: h, t)
      | None => if N.eqb x c then Some ([], s') else None
      end
  end.
Definition rsplit1 (c : N) (s : str) : list str :=
  match rsplit1_aux c s with Some (h, t) => [h; t] | None => [s] end.

Fixpoint s2l (s : string) : str :=
  match s with EmptyString => [] | String a r => N_of_ascii a :: s2l r end.

Definition cls_name (c : cls) : str := Eval vm_compute in
  match c with
  | C_SchemeFilter => s2l "SchemeFilter" | C_HTTPSOnlyFilter => s2l "HTTPSOnlyFilter"
  | C_FollowFTPFilter => s2l "FollowFTPFilter" | C_BackwardDomainFilter => s2l "BackwardDomainFilter"
  | C_HostnameFilter => s2l "HostnameFilter" | C_RecursiveFilter => s2l "RecursiveFilter"
  | C_LevelFilter => s2l "LevelFilter" | C_TriesFilter => s2l "TriesFilter"
  | C_ParentFilter => s2l "ParentFilter" | C_SpanHostsFilter => s2l "SpanHostsFilter"
  | C_RegexFilter => s2l "RegexFilter" | C_DirectoryFilter => s2l "DirectoryFilter"
  | C_BackwardFilenameFilter => s2l "BackwardFilenameFilter" | C_DemuxURLFilter => s2l "DemuxURLFilter"
  | C_FetchRule => s2l "FetchRule" | C_RedirectTracker => s2l "RedirectTracker"
  | C_URLProperties => s2l "URLProperties" | C_URLInfo => s2l "URLInfo"
  | C_URLFiltersSetupTask => s2l "URLFiltersSetupTask"
  | C_URLFiltersPostURLImportSetupTask => s2l "URLFiltersPostURLImportSetupTask"
  | C_Args => s2l "Namespace" | C_Session => s2l "AppSession" | C_Response => s2l "Response"
  | C_Request => s2l "Request" | C_Fields => s2l "NameValueRecord" | C_Record => s2l "URLRecord"
  | C_mod_url => s2l "url"
  end.

(* ------------------------------------------------------- dynamic semantics *)
Definition truthy (v : pv) : bool :=
  match v with
  | PNone => false
  | PBool b => b
  | PInt z => negb (Z.eqb z 0)
  | PStr s => match s with [] => false | _ => true end
  | PTuple l | PList l | PSet l => match l with [] => false | _ => true end
  | PDict l => match l with [] => false | _ => true end
  | PObj _ _ => true           (* none of the modelled classes defines __bool__/__len__ *)
  | POpaque => true
  end.

Arguments truthy !v /.

Definition as_int (v : pv) : option Z :=
  match v with PInt z => Some z | PBool b => Some (if b then 1%Z else 0%Z) | _ => None end.

(* a == b on scalars (never raises in Python); objects/containers: not supported *)
Definition is_scalar (v : pv) : bool :=
  match v with PNone | PStr _ | PInt _ | PBool _ => true | _ => false end.

Definition py_eq (a b : pv) : option bool :=
  match a, b with
  | PNone, PNone => Some true
  | PStr x, PStr y => Some (str_eqb x y)
  | _, _ =>
      match as_int a, as_int b with
      | Some x, Some y => Some (Z.eqb x y)          (* True == 1 *)
      | _, _ => if is_scalar a && is_scalar b then Some false else None
      end
  end.

Definition py_order (op : cmpop) (a b : pv) : res bool :=
  match as_int a, as_int b with
  | Some x, Some y =>
      match op with
      | Lt => Ok (Z.ltb x y) | LtE => Ok (Z.leb x y) | Gt => Ok (Z.gtb x y) | GtE => Ok (Z.geb x y)
      | _ => Err Unsupported
      end
  | _, _ =>
      match a, b with
      | (PNone | PInt _ | PBool _), (PNone | PInt _ | PBool _) => Err TypeError   (* None < 1 *)
      | _, _ => Err Unsupported
      end
  end.

Fixpoint in_list (x : pv) (l : list pv) : res bool :=
  match l with
  | [] => Ok false
  | y :: l' => match py_eq x y with
               | Some true => Ok true
               | Some false => in_list x l'
               | None => Err Unsupported
               end
  end.

(* iterating a str yields its one-character strings *)
Definition chars (s : str) : list pv := map (fun c => PStr [c]) s.

Definition py_in (x c : pv) : res bool :=
  match c with
  | PTuple l | PList l | PSet l => in_list x l
  | PDict l => in_list x (map fst l)
  | _ => Err Unsupported
  end.

Definition py_cmp (op : cmpop) (a b : pv) : res pv :=
  match op with
  | Eq => match py_eq a b with Some r => Ok (PBool r) | None => Err Unsupported end
  | NotEq => match py_eq a b with Some r => Ok (PBool (negb r)) | None => Err Unsupported end
  | Lt | LtE | Gt | GtE => do r <- py_order op a b ;; Ok (PBool r)
  | In => do r <- py_in a b ;; Ok (PBool r)
  | NotIn => do r <- py_in a b ;; Ok (PBool (negb r))
  | Is => match a, b with
          | PNone, PNone => Ok (PBool true)
          | PNone, _ | _, PNone => Ok (PBool false)
          | _, _ => Err Unsupported
          end
  | IsNot => match a, b with
             | PNone, PNone => Ok (PBool false)
             | PNone, _ | _, PNone => Ok (PBool true)
             | _, _ => Err Unsupported
             end
  end.

Definition py_add (a b : pv) : res pv :=
  match a, b with
  | PStr x, PStr y => Ok (PStr (x ++ y))
  | (PInt _ | PBool _), (PInt _ | PBool _) =>
      match as_int a, as_int b with Some x, Some y => Ok (PInt (x + y)) | _, _ => Err Unsupported end
  | PNone, _ | _, PNone => Err TypeError
  | _, _ => Err Unsupported
  end.

Fixpoint dict_get (k : pv) (l : list (pv * pv)) : res (option pv) :=
  match l with
  | [] => Ok None
  | (k', v) :: l' => match py_eq k k' with
                     | Some true => Ok (Some v)
                     | Some false => dict_get k l'
                     | None => Err Unsupported
                     end
  end.

Fixpoint dict_set (k v : pv) (l : list (pv * pv)) : res (list (pv * pv)) :=
  match l with
  | [] => Ok [(k, v)]
  | (k', v') :: l' => match py_eq k k' with
                      | Some true => Ok ((k', v) :: l')
                      | Some false => do r <- dict_set k v l' ;; Ok ((k', v') :: r)
                      | None => Err Unsupported
                      end
  end.

(* set.add: scalars are deduplicated by ==; OBJECTS are appended - sets of objects
   are modelled under the assumption that the objects added are pairwise distinct
   instances (hash/eq by identity).  Stated in the trusted base of C02. *)
Definition set_add (v : pv) (l : list pv) : res (list pv) :=
  match v with
  | PObj _ _ | POpaque => Ok (l ++ [v])
  | _ => do b <- in_list v l ;; Ok (if b then l else l ++ [v])
  end.

Definition py_subscript (c i : pv) : res pv :=
  match c with
  | PDict l => do r <- dict_get i l ;; match r with Some v => Ok v | None => Err KeyError end
  | PTuple l | PList l =>
      match i with
      | PInt 0%Z => match l with x :: _ => Ok x | [] => Err IndexError end
      | PInt (-1)%Z => match rev l with x :: _ => Ok x | [] => Err IndexError end
      | _ => Err Unsupported
      end
  | _ => Err Unsupported
  end.

Definition py_getattr (v : pv) (a : attr) : res pv :=
  match v with
  | PObj _ f => match f a with Some x => Ok x | None => Err AttributeError end
  | PNone => Err AttributeError
  | _ => Err Unsupported
  end.

Definition obj_set (v : pv) (a : attr) (x : pv) : res pv :=
  match v with
  | PObj c f => Ok (PObj c (fun b => if attr_eqb b a then Some x else f b))
  | _ => Err Unsupported
  end.

Fixpoint assoc_attr (a : attr) (l : list (attr * pv)) : option pv :=
  match l with
  | [] => None
  | (b, v) :: l' => if attr_eqb a b then Some v else assoc_attr a l'
  end.

Definition iter_of (v : pv) : res (list pv) :=
  match v with
  | PTuple l | PList l | PSet l => Ok l
  | PStr s => Ok (chars s)
  | PNone => Err TypeError
  | _ => Err Unsupported
  end.

(* library functions the translated code calls but wpull does not define *)
Record oracles := {
  o_re_search : str -> str -> bool;        (* bool(re.search(pattern, text)) *)
  o_fn_translate : str -> str;             (* fnmatch.translate *)
  o_fnmatchcase : str -> str -> bool;      (* fnmatch.fnmatchcase(name, pattern) *)
  o_parse : str -> pv;                     (* URLInfo.parse(text) on a str (None handled by the interpreter) *)
  o_urljoin : str -> str -> option str     (* wpull.url.urljoin; None = ValueError *)
}.

Definition py_builtin (O : oracles) (b : builtin) (args : list pv) : res pv :=
  match b, args with
  | B_len, [PTuple l] | B_len, [PList l] | B_len, [PSet l] => Ok (PInt (Z.of_nat (List.length l)))
  | B_len, [PDict l] => Ok (PInt (Z.of_nat (List.length l)))
  | B_len, [PStr s] => Ok (PInt (Z.of_nat (List.length s)))
  | B_set, [] => Ok (PSet [])
  | B_dict, [] => Ok (PDict [])
  | B_tuple, [v] => do l <- iter_of v ;; Ok (PTuple l)
  | B_endswith, [PStr s; PStr p] => Ok (PBool (endswith s p))
  | B_startswith, [PStr s; PStr p] => Ok (PBool (startswith s p))
  | B_endswith, [PNone; _] | B_startswith, [PNone; _] | B_rsplit1, [PNone; _] => Err AttributeError
  | B_endswith, [PStr _; PNone] | B_startswith, [PStr _; PNone] => Err TypeError
  | B_rsplit1, [PStr s; PStr [c]] => Ok (PList (map PStr (rsplit1 c s)))
  | B_get, [PDict l; k] => do r <- dict_get k l ;; Ok (match r with Some v => v | None => PNone end)
  | B_re_search, [PStr p; PStr t] => Ok (if o_re_search O p t then POpaque else PNone)
  | B_fnmatch_translate, [PStr p] => Ok (PStr (o_fn_translate O p))
  | B_fnmatchcase, [PStr n; PStr p] => Ok (PBool (o_fnmatchcase O n p))
  | B_URLInfo_parse, [PNone] => Ok PNone           (* url.py: "if url is None: return None" (shape-checked by the translator) *)
  | B_URLInfo_parse, [PStr s] => Ok (o_parse O s)
  | B_urljoin, [PStr b; PStr u] => match o_urljoin O b u with Some r => Ok (PStr r) | None => Err ValueError end
  | _, _ => Err Unsupported
  end.

(* ----------------------------------------------------------------- syntax *)
Inductive expr :=
| EConst (v : pv)
| EVar (x : nat)
| EAttr (e : expr) (a : attr)
| EAnd (a b : expr)
| EOr (a b : expr)
| ENot (e : expr)
| ECmp (op : cmpop) (a b : expr)
| EAdd (a b : expr)
| EIfExp (c a b : expr)
| ETuple (l : list expr)
| EListLit (l : list expr)
| EDictLit (l : list (expr * expr))
| ESubscript (e i : expr)
| EBuiltin (b : builtin) (args : list expr)
| ECall (c : cls) (m : mname) (args : list expr)      (* statically resolved: self.m(...), module functions *)
| ECallDyn (recv : expr) (m : mname) (args : list expr) (* recv.m(args): class taken from the receiver *)
| ENew (c : cls) (fields : list (attr * expr))         (* constructor call whose __init__ only stores its parameters *)
| EClassName (e : expr).                               (* e.__class__.__name__ *)

Inductive stmt :=
| SSkip
| SSeq (a b : stmt)
| SAssign (x : nat) (e : expr)
| SSetAttr (x : nat) (a : attr) (e : expr)    (* x.a = e *)
| SSetItem (x : nat) (k e : expr)             (* x[k] = e   (dict) *)
| SAppend (x : nat) (e : expr)                (* x.append(e) (list) *)
| SSetAdd (x : nat) (e : expr)                (* x.add(e)   (set) *)
| SIf (c : expr) (a b : stmt)
| SFor (x : nat) (e : expr) (body : stmt)
| SReturn (e : expr)
| SExpr (e : expr).

Record fundef := { f_nparams : nat; f_body : stmt }.
Definition program := cls -> mname -> option fundef.

(* ------------------------------------------------------------ interpreter *)
Definition env := nat -> option pv.
Definition empty_env : env := fun _ => None.
Definition upd (E : env) (x : nat) (v : pv) : env := fun y => if Nat.eqb y x then Some v else E y.
Fixpoint bind_args (n : nat) (vs : list pv) (E : env) : env :=
  match vs with
  | [] => E
  | v :: vs' => bind_args (S n) vs' (upd E n v)
  end.

Definition class_of (v : pv) : res cls :=
  match v with PObj c _ => Ok c | PNone => Err AttributeError | _ => Err Unsupported end.

(* the for-loop skeleton: [step] runs the body for one element; Some v = returned *)
Fixpoint for_loop (step : env -> pv -> res (env * option pv)) (l : list pv) (E : env)
  : res (env * option pv) :=
  match l with
  | [] => Ok (E, None)
  | v :: l' => match step E v with
               | Ok (E', None) => for_loop step l' E'
               | r => r
               end
  end.

Section Interp.
  Variable O : oracles.
  Variable call : cls -> mname -> list pv -> res pv.   (* user function calls (knot tied by [run]) *)

  Fixpoint eval (E : env) (e : expr) {struct e} : res pv :=
    let evals := fix evals (l : list expr) : res (list pv) :=
      match l with
      | [] => Ok []
      | x :: l' => do v <- eval E x ;; do vs <- evals l' ;; Ok (v :: vs)
      end in
    match e with
    | EConst v => Ok v
    | EVar x => match E x with Some v => Ok v | None => Err UnboundLocal end
    | EAttr e a => do v <- eval E e ;; py_getattr v a
    | EAnd a b => do va <- eval E a ;; if truthy va then eval E b else Ok va
    | EOr a b => do va <- eval E a ;; if truthy va then Ok va else eval E b
    | ENot a => do va <- eval E a ;; Ok (PBool (negb (truthy va)))
    | ECmp op a b => do va <- eval E a ;; do vb <- eval E b ;; py_cmp op va vb
    | EAdd a b => do va <- eval E a ;; do vb <- eval E b ;; py_add va vb
    | EIfExp c a b => do vc <- eval E c ;; if truthy vc then eval E a else eval E b
    | ETuple l => do vs <- evals l ;; Ok (PTuple vs)
    | EListLit l => do vs <- evals l ;; Ok (PList vs)
    | EDictLit l =>
        (fix go (l : list (expr * expr)) (acc : list (pv * pv)) : res pv :=
           match l with
           | [] => Ok (PDict acc)
           | (k, v) :: l' => do vk <- eval E k ;; do vv <- eval E v ;;
                             do acc' <- dict_set vk vv acc ;; go l' acc'
           end) l []
    | ESubscript c i => do vc <- eval E c ;; do vi <- eval E i ;; py_subscript vc vi
    | EBuiltin b args => do vs <- evals args ;; py_builtin O b vs
    | ECall c m args => do vs <- evals args ;; call c m vs
    | ECallDyn r m args => do vr <- eval E r ;; do c <- class_of vr ;; do vs <- evals args ;; call c m (vr :: vs)
    | ENew c fields =>
        (fix go (l : list (attr * expr)) (acc : list (attr * pv)) : res pv :=
           match l with
           | [] => Ok (PObj c (fun a => assoc_attr a acc))
           | (a, x) :: l' => do v <- eval E x ;; go l' (acc ++ [(a, v)])
           end) fields []
    | EClassName x => do v <- eval E x ;; do c <- class_of v ;; Ok (PStr (cls_name c))
    end.

  Definition lookup (E : env) (x : nat) : res pv :=
    match E x with Some v => Ok v | None => Err UnboundLocal end.

  Fixpoint exec (E : env) (s : stmt) {struct s} : res (env * option pv) :=
    match s with
    | SSkip => Ok (E, None)
    | SSeq a b => match exec E a with
                  | Ok (E', None) => exec E' b
                  | r => r
                  end
    | SAssign x e => do v <- eval E e ;; Ok (upd E x v, None)
    | SSetAttr x a e => do o <- lookup E x ;; do v <- eval E e ;; do o' <- obj_set o a v ;; Ok (upd E x o', None)
    | SSetItem x k e =>
        do d <- lookup E x ;; do vk <- eval E k ;; do v <- eval E e ;;
        match d with
        | PDict l => do l' <- dict_set vk v l ;; Ok (upd E x (PDict l'), None)
        | _ => Err Unsupported
        end
    | SAppend x e =>
        do d <- lookup E x ;; do v <- eval E e ;;
        match d with
        | PList l => Ok (upd E x (PList (l ++ [v])), None)
        | _ => Err Unsupported
        end
    | SSetAdd x e =>
        do d <- lookup E x ;; do v <- eval E e ;;
        match d with
        | PSet l => do l' <- set_add v l ;; Ok (upd E x (PSet l'), None)
        | _ => Err Unsupported
        end
    | SIf c a b => do vc <- eval E c ;; if truthy vc then exec E a else exec E b
    | SFor x e body =>
        do v <- eval E e ;; do l <- iter_of v ;;
        for_loop (fun E' item => exec (upd E' x item) body) l E
    | SReturn e => do v <- eval E e ;; Ok (E, Some v)
    | SExpr e => do _ <- eval E e ;; Ok (E, None)
    end.

  (* run a function body on its arguments: falling off the end returns None *)
  Definition run_body (f : fundef) (args : list pv) : res (pv * env) :=
    if Nat.eqb (List.length args) (f_nparams f) then
      match exec (bind_args 0 args empty_env) (f_body f) with
      | Ok (E, Some v) => Ok (v, E)
      | Ok (E, None) => Ok (PNone, E)
      | Err e => Err e
      end
    else Err TypeError.
End Interp.

(* tie the knot with fuel: only CALLS consume fuel (eval/exec are structural) *)
Fixpoint run (O : oracles) (P : program) (fuel : nat) (c : cls) (m : mname) (args : list pv) : res pv :=
  match fuel with
  | 0 => Err OutOfFuel
  | S f => match P c m with
           | Some fd => match run_body O (run O P f) fd args with
                        | Ok (v, _) => Ok v
                        | Err e => Err e
                        end
           | None => Err AttributeError
           end
  end.

(* the same, also returning the final value of parameter 0 (self) - for methods that
   assign attributes of self (RedirectTracker.load) *)
Definition run_mut (O : oracles) (P : program) (fuel : nat) (c : cls) (m : mname) (args : list pv)
  : res (pv * pv) :=
  match fuel with
  | 0 => Err OutOfFuel
  | S f => match P c m with
           | Some fd => match run_body O (run O P f) fd args with
                        | Ok (v, E) => match E 0 with Some s => Ok (v, s) | None => Err UnboundLocal end
                        | Err e => Err e
                        end
           | None => Err AttributeError
           end
  end.

(* --------------------------------------------------------------- tactics *)
(* Generic split-then-reduce: reduce the interpreter on the concrete program term
   as far as the symbolic inputs allow, then split on an ATOMIC stuck condition
   (one that contains no other conditional), and repeat. *)
Ltac mp_reduce :=
  cbn [eval exec run run_body run_mut bind lookup for_loop bind_args upd empty_env
       py_builtin py_cmp py_eq py_order py_in in_list py_add py_subscript py_getattr obj_set
       assoc_attr attr_eqb attr_idx is_scalar iter_of class_of dict_get dict_set set_add truthy as_int
       f_nparams f_body List.length map fst snd rev app negb andb orb
       Nat.eqb N.eqb Pos.eqb hd tl].

Ltac mp_atomic c :=
  lazymatch c with
  | context [if _ then _ else _] => fail
  | context [match _ with _ => _ end] => fail
  | _ => idtac
  end.

Ltac mp_atom c :=
  lazymatch c with
  | negb ?a => mp_atom a
  | andb ?a ?b => first [mp_atom a | mp_atom b]
  | orb ?a ?b => first [mp_atom a | mp_atom b]
  | true => fail
  | false => fail
  | truthy _ => fail          (* not atomic: reduce / split its argument first *)
  | _ => mp_atomic c;
         first [ match goal with H : c = _ |- _ => rewrite H end
               | let H := fresh "C" in destruct c eqn:H ]
  end.

Ltac mp_split :=
  match goal with
  | |- context [if ?c then _ else _] => mp_atom c
  | |- context [match ?c with [] => _ | _ :: _ => _ end] =>
      is_var c; let H := fresh "C" in destruct c eqn:H
  end.

Ltac mp_step := mp_reduce; try mp_split.
