"""Harness-side helper: run one end-to-end crawl (child process, real wpull, scripted
site) and collect the request log, database rows and exit code."""
import json
import os
import shutil
import sqlite3
import subprocess
import tempfile

from harness.lib import common

BASE_ARGS = ['--html-parser', 'html5lib', '--database', '{WORK}/db.sqlite', '--waitretry', '0',
             '--no-verbose', '--output-file', '{WORK}/wpull.log']


def html(links=(), inline=(), nofollow=False, extra=''):
    """a page: <a href> links and <img src> requisites"""
    head = '<meta name="robots" content="nofollow">' if nofollow else ''
    return ('<html><head>%s</head><body>%s%s%s</body></html>' % (
        head, ''.join('<a href="%s">x</a>\n' % l for l in links),
        ''.join('<img src="%s">\n' % l for l in inline), extra))


def read_db(path):
    if not os.path.exists(path):
        return []
    con = sqlite3.connect(path)
    try:
        cur = con.execute(
            'select u.url, q.status, q.try_count, q.level, q.inline_level, q.status_code, p.url, r.url '
            'from queued_urls q join url_strings u on q.url_string_id = u.id '
            'left join url_strings p on q.parent_url_string_id = p.id '
            'left join url_strings r on q.root_url_string_id = r.id order by q.id')
        return [dict(zip(('url', 'status', 'try_count', 'level', 'inline_level', 'status_code', 'parent', 'root'), row))
                for row in cur]
    finally:
        con.close()


def read_log(workdir):
    p = os.path.join(workdir, 'requests.log')
    if not os.path.exists(p):
        return []
    out = []
    for line in open(p):
        line = line.strip()
        if line:
            try:
                out.append(json.loads(line))
            except ValueError:
                pass
    return out


def run_once(workdir, spec, timeout=120):
    spec = dict(spec)
    spec['workdir'] = workdir
    os.makedirs(os.path.join(workdir, 'out'), exist_ok=True)
    base = [a for a in BASE_ARGS]
    if spec.get('db_uri'):
        # the same on-disk database named by an SQLAlchemy URL (GenericSQLURLTable instead of SQLiteURLTable)
        i = base.index('--database')
        base[i:i + 2] = ['--database-uri', 'sqlite:///{WORK}/db.sqlite']
    spec['args'] = list(spec['args']) + base
    env = dict(os.environ)
    env['PYTHONPATH'] = '%s:%s' % (spec.get('repo') or common.REPO, common.VERIF)
    env['PYTHONHASHSEED'] = '0'
    env['PYTHONWARNINGS'] = 'ignore'
    env['PYTHONDONTWRITEBYTECODE'] = '1'
    try:
        p = subprocess.run([common.PY, '-W', 'ignore', os.path.join(common.VERIF, 'harness', 'impl', 'crawl_run.py')],
                           input=json.dumps(spec), stdout=subprocess.PIPE, stderr=subprocess.PIPE, text=True,
                           env=env, timeout=timeout)
        rc, out, err, timed_out = p.returncode, p.stdout, p.stderr, False
    except subprocess.TimeoutExpired as e:
        rc, out, err, timed_out = -1, (e.stdout or b'').decode() if isinstance(e.stdout, bytes) else (e.stdout or ''), '', True
    res = {'rc': rc, 'timed_out': timed_out, 'killed': rc == 9, 'stderr_tail': err[-1500:]}
    for line in reversed(out.strip().splitlines() if out else []):
        if line.startswith('{'):
            try:
                res.update(json.loads(line))
                break
            except ValueError:
                pass
    res['requests'] = read_log(workdir)
    res['rows'] = read_db(os.path.join(workdir, 'db.sqlite'))
    return res


def run_crawl(spec, timeout=120, keep=None):
    """one crawl in a fresh temporary directory (removed afterwards)"""
    work = tempfile.mkdtemp(prefix='verif-crawl-')
    try:
        return run_once(work, spec, timeout)
    finally:
        if keep is None:
            shutil.rmtree(work, ignore_errors=True)


def random_loopback():
    import random
    r = random.SystemRandom()
    return '127.%d.%d.%d' % (r.randrange(1, 255), r.randrange(0, 256), r.randrange(1, 255))


def free_port():
    import socket
    s = socket.socket()
    s.bind(('127.0.0.1', 0))
    p = s.getsockname()[1]
    s.close()
    return p


def run_with_resume(spec, kill, timeout=120):
    """run 1 with a kill plan (dict of kill_* keys), run 2 = same command on the same
    directory/database/port. Returns (run1, run2); requests of run 2 are those logged after run 1."""
    busy = lambda r: r.get('rc') not in (0, 9) and 'Address already in use' in (r.get('stderr_tail') or '')
    for attempt in range(4):
        work = tempfile.mkdtemp(prefix='verif-crawl-')
        tp = spec.get('engine_trace_path')
        if attempt and tp and os.path.exists(tp):
            os.remove(tp)       # the void attempt's operation trace
        try:
            # a fixed port (spec['port'], with a per-run loopback address) keeps the URL strings of a site the same in every run
            port = spec.get('port') or free_port()
            if spec.get('port'):
                spec = dict(spec, bind_ip=random_loopback())
            s1 = dict(spec, port=port, **kill)
            r1 = run_once(work, s1, timeout)
            if busy(r1) and attempt < 3:
                continue        # another process took the port between the probe and the bind: nothing ran, start over
            n1 = len(r1['requests'])
            s2 = dict(spec, port=port)
            r2 = run_once(work, s2, timeout)
            if busy(r2) and attempt < 3:
                continue        # the rerun must listen on the same port (the table holds it); the pair is void, start over
            r2['requests'] = r2['requests'][n1:]
            return r1, r2
        finally:
            shutil.rmtree(work, ignore_errors=True)
