"""pre_hooks for the C20 end-to-end crawls (run inside the crawl child before wpull is built).

wpull 2.0.x parses --concurrent but never hands it to the PipelineSeries (only a plugin or the
debug console can raise the concurrency), so a crawl started from the command line always runs one
worker.  set_concurrency does what a plugin would do: PipelineSeries.concurrency = spec['concurrency']
right after the application is built."""


def set_concurrency(spec):
    import wpull.application.builder as builder
    n = int(spec.get('concurrency') or 1)
    orig = builder.Builder.build

    def build(self):
        app = orig(self)
        self.factory['PipelineSeries'].concurrency = n
        return app
    builder.Builder.build = build


def instrument(spec):
    """Log, in the order things happen on the event loop, what the robots gate of the REAL application does:
    one JSON list per line appended to spec['c20_events'].  Nothing in wpull's behaviour is changed: every wrapper
    calls the original and passes its result / exception through.

      pick t url6 key            WebProcessorSession.process begins (t = index of the asyncio task = pipeline worker)
      filters t verdict url6 key kind   FetchRule.consult_filters returned inside check_initial_web_request (kind initial) /
                                        check_subsequent_web_request (kind sub: top of every _process_loop iteration)
      fetchstart t key           RobotsTxtChecker.fetch_robots_txt begins
      stored t key rulesets      RobotsTxtPool.load_robots_txt returned
      req t url key              wpull.protocol.http.client.Session.start called (robots.txt session or item session)
      resp t status location     ... returned a response   /  resperr t class: ... raised
      status t name              ItemSession.set_status / skip
      end t                      WebProcessorSession.process returned / raised
    """
    path = spec.get('c20_events')
    if not path:
        return
    import asyncio
    import json
    import harness.compat as compat
    import wpull.pipeline.session as psession
    import wpull.processor.rule as rule
    import wpull.processor.web as web
    import wpull.protocol.http.client as client
    import wpull.protocol.http.robots as robots
    import wpull.robotstxt as robotstxt

    out = open(path, 'a', buffering=1)
    tasks = {}

    def tid():
        t = asyncio.current_task()
        if t not in tasks:
            tasks[t] = len(tasks)
        return tasks[t]

    def emit(*a):
        out.write(json.dumps(a) + '\n')

    def cps(s):
        return ''.join('%06x' % ord(c) for c in s)

    def key(ui):
        return [ui.scheme, ui.hostname, ui.port]

    def rulesets(parser):
        return [{'names': [cps(n) for n in rs.robot_names], 'rules': [[1 if t == rs.ALLOW else 0, cps(p)] for t, p in rs.rules]}
                for rs in parser._RobotExclusionRulesParser__rulesets]

    o_process = web.WebProcessorSession.process

    @compat.coroutine
    def process(self):
        ui = self._item_session.url_record.url_info
        emit('pick', tid(), cps(ui.url), key(ui))
        try:
            res = yield from o_process(self)
        finally:
            emit('end', tid())
        return res
    web.WebProcessorSession.process = process

    # consult_filters is also used for every scraped child URL; only the calls made by the two request checks count
    inside = {}
    o_filters = rule.FetchRule.consult_filters

    def consult_filters(self, url_info, url_record, is_redirect=False):
        res = o_filters(self, url_info, url_record, is_redirect=is_redirect)
        kind = inside.pop(tid(), None)
        if kind:
            emit('filters', tid(), bool(res[0]), cps(url_info.url), key(url_info), kind)
        return res
    rule.FetchRule.consult_filters = consult_filters

    o_initial = rule.FetchRule.check_initial_web_request

    @compat.coroutine
    def check_initial_web_request(self, item_session, request):
        inside[tid()] = 'initial'
        res = yield from o_initial(self, item_session, request)
        return res
    rule.FetchRule.check_initial_web_request = check_initial_web_request

    o_sub = rule.FetchRule.check_subsequent_web_request

    def check_subsequent_web_request(self, item_session, is_redirect=False):
        inside[tid()] = 'sub'
        return o_sub(self, item_session, is_redirect=is_redirect)
    rule.FetchRule.check_subsequent_web_request = check_subsequent_web_request

    o_fetch = robots.RobotsTxtChecker.fetch_robots_txt

    @compat.coroutine
    def fetch_robots_txt(self, request, file=None):
        emit('fetchstart', tid(), key(request.url_info))
        res = yield from o_fetch(self, request, file=file)
        return res
    robots.RobotsTxtChecker.fetch_robots_txt = fetch_robots_txt

    o_load = robotstxt.RobotsTxtPool.load_robots_txt

    def load_robots_txt(self, url_info, text):
        o_load(self, url_info, text)
        emit('stored', tid(), key(url_info), rulesets(self._parsers[self.url_info_key(url_info)]))
    robotstxt.RobotsTxtPool.load_robots_txt = load_robots_txt

    o_start = client.Session.start

    @compat.coroutine
    def start(self, request):
        emit('req', tid(), request.url_info.url, key(request.url_info))
        try:
            resp = yield from o_start(self, request)
        except BaseException as e:
            emit('resperr', tid(), type(e).__name__)
            raise
        emit('resp', tid(), resp.status_code, resp.fields.get('Location'))
        return resp
    client.Session.start = start

    o_status = psession.ItemSession.set_status

    def set_status(self, status, *a, **k):
        emit('status', tid(), getattr(status, 'value', str(status)))
        return o_status(self, status, *a, **k)
    psession.ItemSession.set_status = set_status

    o_skip = psession.ItemSession.skip

    def skip(self):
        emit('status', tid(), 'skipped')
        return o_skip(self)
    psession.ItemSession.skip = skip
