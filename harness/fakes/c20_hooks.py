"""pre_hooks for the C20 end-to-end crawls (run inside the crawl child before wpull is built).

wpull 2.0.x parses --concurrent but never hands it to the PipelineSeries (only a plugin or the
debug console can raise the concurrency), so a crawl started from the command line always runs one
worker.  set_concurrency does what a plugin would do: PipelineSeries.concurrency = spec['concurrency']
right after the application is built."""


def set_concurrency(spec):
    import wpull.application.builder as builder
    n = int(spec.get('concurrency') or 1)
    orig = builder.Builder.build

    def build(self):
        app = orig(self)
        self.factory['PipelineSeries'].concurrency = n
        return app
    builder.Builder.build = build
