"""Scripted ADVERSARIAL site for the end-to-end runs of C18 (pre-hook of harness/impl/crawl_run.py,
runs inside the child before wpull is built): a page may be a SEQUENCE of answers, one per request
for that path, and an answer may be `reset` - the server logs the request and then drops the
connection without a response.

spec['site'][host][path] = {'seq': [page, page, ...], 'cycle': bool}   (after the last answer: repeat the
last one, or start over when cycle is set); page = the usual page dict of crawl_run.py or {'reset': true}.
Counters are per (host, path) for the whole crawl."""
import sys
import threading

_lock = threading.Lock()


class _Reset(Exception):
    pass


class _ResetPage(dict):
    """the first thing crawl_run's handler does with a page (after logging the request) is page.get('delay')"""
    def get(self, key, default=None):
        raise _Reset()


class _SeqHost(dict):
    def __init__(self, pages):
        super().__init__(pages)
        self._counts = {}

    def get(self, path, default=None):
        page = dict.get(self, path, default)
        if isinstance(page, dict) and 'seq' in page:
            with _lock:
                k = self._counts.get(path, 0)
                self._counts[path] = k + 1
            seq = page['seq']
            if k >= len(seq):
                k = (k % len(seq)) if page.get('cycle') else len(seq) - 1
            page = seq[k]
        if isinstance(page, dict) and page.get('reset'):
            return _ResetPage()
        return page


def install(spec):
    main = sys.modules['__main__']
    for host in list(spec['site']):
        spec['site'][host] = _SeqHost(spec['site'][host])
    # a dropped connection is part of the script, not an error to report
    main.Server.handle_error = lambda self, request, client_address: None
