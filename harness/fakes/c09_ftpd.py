"""C09: a scripted FTP server for end-to-end crawls (harness/impl/crawl_run.py pre_hook).

spec['ftp'] = {'greeting': hex,
               'replies': [hex, ...],                   # positional script: k-th command line -> replies[k]; then close
               'by_verb': {VERB: [hex | "CLOSE", ...]}, # or: k-th occurrence of a verb -> k-th entry (the last one repeats)
               'data': {VERB: hex} | hex}               # what the data connection delivers for LIST / MLSD / RETR
"{P1}" / "{P2}" inside a reply are replaced by the two PASV port numbers of the data listener.
Occurrence counters are global over all control connections.  A verb missing from 'by_verb'
is answered "500 unknown".  "{FTPPORT}" in spec['args'] is replaced by the control port.
Use: spec['pre_hooks'] = ['harness.fakes.c09_ftpd.start']"""
import queue
import socketserver
import threading


def start(spec):
    conf = spec['ftp']
    data_conf = conf.get('data', '')
    pending = queue.Queue()
    counts = {}
    lock = threading.Lock()

    class Data(socketserver.BaseRequestHandler):
        def handle(self):
            try:
                data = pending.get(timeout=10)
                self.request.sendall(data)
            except (OSError, queue.Empty):
                pass

    dsrv = socketserver.ThreadingTCPServer(('127.0.0.1', 0), Data)
    dsrv.daemon_threads = True
    dport = dsrv.server_address[1]
    threading.Thread(target=dsrv.serve_forever, daemon=True).start()

    def sub(b):
        return b.replace(b'{P1}', b'%d' % (dport // 256)).replace(b'{P2}', b'%d' % (dport % 256))

    def data_for(verb):
        if isinstance(data_conf, dict):
            return bytes.fromhex(data_conf.get(verb, ''))
        return bytes.fromhex(data_conf)

    class Control(socketserver.StreamRequestHandler):
        def handle(self):
            try:
                self.wfile.write(sub(bytes.fromhex(conf.get('greeting', ''))))
                self.wfile.flush()
                if 'by_verb' in conf:
                    while True:
                        line = self.rfile.readline()
                        if not line:
                            return
                        verb = line.split(None, 1)[0].decode('latin-1').upper() if line.strip() else ''
                        with lock:
                            k = counts.get(verb, 0)
                            counts[verb] = k + 1
                        entries = conf['by_verb'].get(verb)
                        if entries is None:
                            reply = b'500 unknown\r\n'.hex()
                        else:
                            reply = entries[min(k, len(entries) - 1)]
                        if reply == 'CLOSE':
                            return
                        if verb in ('LIST', 'MLSD', 'RETR', 'NLST') and bytes.fromhex(reply)[:1] == b'1':
                            pending.put(data_for(verb))
                        self.wfile.write(sub(bytes.fromhex(reply)))
                        self.wfile.flush()
                else:
                    for reply in conf.get('replies', []):
                        line = self.rfile.readline()
                        if not line:
                            return
                        if bytes.fromhex(reply)[:1] == b'1':
                            pending.put(data_for(''))
                        self.wfile.write(sub(bytes.fromhex(reply)))
                        self.wfile.flush()
            except OSError:
                pass

    csrv = socketserver.ThreadingTCPServer(('127.0.0.1', 0), Control)
    csrv.daemon_threads = True
    cport = csrv.server_address[1]
    threading.Thread(target=csrv.serve_forever, daemon=True).start()
    spec['args'] = [a.replace('{FTPPORT}', str(cport)) for a in spec['args']]
    return cport


def start_raw(spec):
    """A raw scripted HTTP server: spec['raw_http'] = {path: hex of the bytes sent in answer to a request for
    that path}; the connection is closed after the answer (unknown path: a well-formed 404).  "{RAWPORT}" in
    spec['args'] is replaced by the port.  Use: spec['pre_hooks'] = ['harness.fakes.c09_ftpd.start_raw']"""
    table = spec['raw_http']

    class Raw(socketserver.StreamRequestHandler):
        timeout = 5

        def handle(self):
            try:
                first = self.rfile.readline(65536)
                while True:
                    line = self.rfile.readline(65536)
                    if not line or line in (b'\r\n', b'\n'):
                        break
                parts = first.split()
                path = parts[1].decode('latin-1') if len(parts) >= 2 else ''
                if path.startswith('http://'):
                    path = '/' + path.split('/', 3)[3] if path.count('/') >= 3 else '/'
                if path in table:
                    self.wfile.write(bytes.fromhex(table[path]))
                else:
                    self.wfile.write(b'HTTP/1.1 404 Not Found\r\nContent-Length: 0\r\nConnection: close\r\n\r\n')
                self.wfile.flush()
            except OSError:
                pass

    srv = socketserver.ThreadingTCPServer(('127.0.0.1', 0), Raw)
    srv.daemon_threads = True
    port = srv.server_address[1]
    threading.Thread(target=srv.serve_forever, daemon=True).start()
    spec['args'] = [a.replace('{RAWPORT}', str(port)) for a in spec['args']]
    return port
