"""Scripted event loop + fake connection + client driver for the C12 correspondence.

The REAL ``wpull.network.pool.ConnectionPool`` / ``HostPool`` and the REAL
``wpull.protocol.abstract.client.BaseSession`` run on a ``SchedLoop``: an asyncio
event loop in which *we* decide which ready handle runs next and where no real time
or I/O exists.  Only the connection objects are fakes (``FakeConn``), installed in
place of ``HappyEyeballsConnection``.

One *action* of a schedule is either the run of exactly one task step (one handle
of the ready queue = the code of one coroutine between two real suspension
points) or one environment action (cancel a client task, remote close of a
connection, spawn ``pool.clean()``).  Client tasks are parked on an environment
future whenever they are outside the pool code, so "client i now starts an
acquire on key k" / "its connect succeeded" / "it leaves its session" are
actions too (the future is resolved and the client's step runs at once).

Handles that are not task steps (the done-callback plumbing of ``asyncio.shield``
and of awaiting a task) are run eagerly right after the action that produced
them: they only forward a completion and touch no pool state.
"""
import asyncio
import heapq

import wpull.network.pool as poolmod
from wpull.errors import NetworkError
from wpull.protocol.abstract.client import BaseSession


class SchedLoop(asyncio.SelectorEventLoop):
    """Event loop with virtual time whose ``_run_once`` hands control to a driver."""

    def __init__(self):
        super().__init__()
        self._vtime = 0.0
        self.driver = None

    def time(self):
        return self._vtime

    def _run_once(self):
        while self._scheduled and self._scheduled[0]._cancelled:
            h = heapq.heappop(self._scheduled)
            h._scheduled = False
        if not self._ready and self._scheduled:
            self._vtime = max(self._vtime, self._scheduled[0]._when)
        while self._scheduled and self._scheduled[0]._when <= self._vtime:
            h = heapq.heappop(self._scheduled)
            h._scheduled = False
            self._ready.append(h)
        self.driver.schedule_point()


class _SeqTask(asyncio.Task):
    """Task with a deterministic hash (creation number), so that ``set.pop()`` on
    ``ConnectionPool._release_tasks`` does not depend on memory addresses."""
    _seq_counter = [0]

    def __init__(self, coro, **kw):
        _SeqTask._seq_counter[0] += 1
        self.seq = _SeqTask._seq_counter[0]      # before super(): the task is hashed during registration
        super().__init__(coro, **kw)

    def __hash__(self):
        return self.seq

    def __eq__(self, other):
        return self is other


class FakeConn(object):
    """Stands for HappyEyeballsConnection: ``closed()`` is True until connected,
    after ``close()`` and after a remote close."""

    def __init__(self, world, cid):
        self.world = world
        self.cid = cid
        self.key = None
        self.is_open = False
        self.proxied = False
        self.tunneled = False
        self.ssl = False

    def __hash__(self):
        return self.cid

    def __eq__(self, other):
        return self is other

    def closed(self):
        return not self.is_open

    def close(self):
        self.is_open = False

    def reset(self):
        self.is_open = False

    def __repr__(self):
        return 'conn%d' % self.cid


class Stop(Exception):
    pass


class World(object):
    """N clients over H keys on one real ConnectionPool (per-host limit M)."""

    def __init__(self, n_clients, n_keys, max_host, max_count=100, pool_cls=None):
        _SeqTask._seq_counter[0] = 0
        self.loop = SchedLoop()
        self.loop.driver = self
        self.loop.set_task_factory(lambda loop, coro, **kw: _SeqTask(coro, loop=loop, **kw))
        asyncio.set_event_loop(self.loop)
        self.n = n_clients
        self.h = n_keys
        self.m = max_host
        self.max_count = max_count
        self.conns = []                 # by cid
        self.keys = [('h%d' % k, 80, False) for k in range(n_keys)]
        self._orig_he = poolmod.HappyEyeballsConnection
        poolmod.HappyEyeballsConnection = self._factory
        self.pool = (pool_cls or poolmod.ConnectionPool)(max_host_count=max_host, resolver=object(),
                                                         max_count=max_count)
        self.env = [None] * n_clients        # env future a client is parked on
        self.where = ['new'] * n_clients     # idle | pool | hold | done | cancelled | error
        self.holding = [None] * n_clients
        self.errors = []
        self.ctasks = []
        self.task_name = {}                  # Task -> ('c', i) | ('r', j)
        self.rel_seen = 0
        self.rel_conn = {}                   # release task number -> cid it returns
        self.events = []                     # what the step just run did (pops / new connection)
        self.stuck = False
        self._orig_create_task = self.loop.create_task
        self.loop.create_task = self._create_task
        self.actions = None
        self.on_point = None
        self._in_setup = True
        for i in range(n_clients):
            t = self._orig_create_task(self._client(i))
            self.task_name[t] = ('c', i)
            self.ctasks.append(t)

    # -- plumbing ---------------------------------------------------------
    def _factory(self, address, connection_factory, resolver, table, is_ssl=False):
        c = FakeConn(self, len(self.conns))
        self.conns.append(c)
        self.events.append(['new', c.cid])
        return c

    def _create_task(self, coro, **kw):
        t = self._orig_create_task(coro, **kw)
        j = self.rel_seen
        self.task_name[t] = ('r', j)
        self.rel_seen += 1
        gen = getattr(coro, 'gen', coro)
        fr = getattr(gen, 'gi_frame', None) or getattr(gen, 'cr_frame', None)
        conn = fr.f_locals.get('connection') if fr is not None else None
        self.rel_conn[j] = conn.cid if conn is not None else None     # None: a pool.clean() task
        self.events.append(['spawn', j, self.rel_conn[j]])
        return t

    def close(self):
        poolmod.HappyEyeballsConnection = self._orig_he
        for t in list(self.task_name):
            if not t.done():
                t.cancel()
        try:
            self.loop.driver = _Drain(self.loop)
            self.loop.call_soon(self.loop.stop)
            self.loop.run_forever()
        except Exception:
            pass
        asyncio.set_event_loop(None)
        self.loop.close()

    # -- the client: real BaseSession around the real pool ---------------------
    @asyncio.coroutine
    def _env_wait(self, i):
        fut = self.loop.create_future()
        self.env[i] = fut
        try:
            cmd = yield from fut
        finally:
            self.env[i] = None
        return cmd

    @asyncio.coroutine
    def _client(self, i):
        try:
            while True:
                self.where[i] = 'idle'
                cmd = yield from self._env_wait(i)
                if cmd[0] == 'quit':
                    break
                assert cmd[0] == 'start'
                host, port, ssl_ = self.keys[cmd[2]]
                self.where[i] = 'pool'
                session = BaseSession(self.pool)
                try:
                    with session:
                        conn = yield from session._acquire_connection(host, port, ssl_)
                        self.holding[i] = conn
                        self.where[i] = 'hold'
                        try:
                            while True:
                                cmd = yield from self._env_wait(i)
                                if cmd[0] == 'connok':
                                    conn.is_open = True
                                elif cmd[0] == 'fail':
                                    raise NetworkError('injected')
                                elif cmd[0] == 'finish':
                                    break
                                else:
                                    raise AssertionError(cmd)
                        finally:
                            self.holding[i] = None
                except NetworkError:
                    pass        # the session aborted (closed) and recycled its connection
            self.where[i] = 'done'
        except asyncio.CancelledError:
            self.where[i] = 'cancelled'
            raise
        except BaseException as e:         # anything else is a defect of the pool
            self.where[i] = 'error'
            self.errors.append('client %d: %r' % (i, e))

    # -- scheduling ---------------------------------------------------------
    def _task_of(self, handle):
        cb = handle._callback
        t = getattr(cb, '__self__', None)
        return t if t in self.task_name else None

    def _flush_plumbing(self):
        """run every ready handle that is not a task step (future done-callbacks)."""
        while True:
            rest = [h for h in self.loop._ready if not h._cancelled]
            plumb = [h for h in rest if self._task_of(h) is None]
            if not plumb:
                self.loop._ready.clear()
                self.loop._ready.extend(rest)
                return
            h = plumb[0]
            rest.remove(h)
            self.loop._ready.clear()
            self.loop._ready.extend(rest)
            h._run()

    def _run_task_handle(self, name):
        for h in list(self.loop._ready):
            t = self._task_of(h)
            if t is not None and self.task_name[t] == name and not h._cancelled:
                self.loop._ready.remove(h)
                h._run()
                self._flush_plumbing()
                return
        raise KeyError('no ready handle for %r' % (name,))

    def runnable(self):
        """names of tasks with a ready handle (clients parked on the env future never are)."""
        out = []
        for h in self.loop._ready:
            if h._cancelled:
                continue
            t = self._task_of(h)
            if t is not None:
                out.append(self.task_name[t])
        return sorted(set(out))

    def enabled(self):
        """every action possible now, canonical order."""
        acts = []
        run = self.runnable()
        for i in range(self.n):
            t = self.ctasks[i]
            if t.done():
                continue
            if self.env[i] is not None and not self.env[i].done() and not t._must_cancel:
                if self.where[i] == 'idle':
                    for k in range(self.h):
                        acts.append(['start', i, k])
                elif self.where[i] == 'hold':
                    acts.append(['connok', i])
                    acts.append(['fail', i])
                    acts.append(['finish', i])
        for name in run:
            acts.append(['step', name[0], name[1]])
        for i in range(self.n):
            t = self.ctasks[i]
            if not t.done() and self.where[i] in ('pool', 'hold') and not self._cancel_requested(i):
                acts.append(['cancel', i])
        for c in self.conns:
            if c.is_open:
                acts.append(['close', c.cid])
        acts.append(['clean', 0])
        acts.append(['clean', 1])
        return acts

    def _cancel_requested(self, i):
        return i in self._cancelled_clients

    _cancelled_clients = ()

    def apply(self, act):
        """perform one action on the real objects."""
        self.events = []
        kind = act[0]
        if kind in ('start', 'connok', 'fail', 'finish'):
            i = act[1]
            fut = self.env[i]
            assert fut is not None and not fut.done(), 'client %d is not parked on the environment' % i
            fut.set_result(act)
            self._run_task_handle(('c', i))
        elif kind == 'step':
            self._run_task_handle((act[1], act[2]))
        elif kind == 'cancel':
            i = act[1]
            if not isinstance(self._cancelled_clients, set):
                self._cancelled_clients = set()
            self._cancelled_clients.add(i)
            self.ctasks[i].cancel()
            self._flush_plumbing()
        elif kind == 'close':
            self.conns[act[1]].is_open = False
        elif kind == 'clean':
            self.loop.create_task(self.pool.clean(force=bool(act[1])))
        else:
            raise AssertionError(act)
        for t, name in self.task_name.items():
            if t.done() and not t.cancelled() and t.exception() is not None:
                msg = '%s%d raised %r' % (name[0], name[1], t.exception())
                if msg not in self.errors:
                    self.errors.append(msg)

    # -- observation ---------------------------------------------------------
    @staticmethod
    def _attr(obj, name, pred):
        """the private attribute `name` of obj - or, when a maintenance commit has renamed it, the one attribute of obj that
        satisfies pred (the observation must not depend on how private names are spelled)"""
        d = vars(obj)
        if name in d:
            return d[name]
        hits = [v for v in d.values() if pred(v)]
        if len(hits) != 1:
            raise AttributeError('cannot identify the attribute formerly called %s on %s (%d candidates)'
                                 % (name, type(obj).__name__, len(hits)))
        return hits[0]

    def observe(self):
        p = self.pool
        host_pools = p.host_pools
        waiters = self._attr(p, '_host_pool_waiters', lambda v: isinstance(v, dict) and v is not host_pools and
                             all(isinstance(x, int) for x in v.values()))
        release_tasks = self._attr(p, '_release_tasks', lambda v: isinstance(v, (set, frozenset)))
        hp_lock = self._attr(p, '_host_pools_lock', lambda v: isinstance(v, asyncio.Lock))
        pools = []
        for k, key in enumerate(self.keys):
            hp = host_pools.get(key)
            if hp is None:
                pools.append(None)
                continue
            cond = self._attr(hp, '_condition', lambda v: isinstance(v, asyncio.Condition))
            lock = self._attr(hp, '_lock', lambda v: isinstance(v, asyncio.Lock))
            cw = []
            for fut in cond._waiters:
                cw.append('c' if fut.cancelled() else ('n' if fut.done() else 'p'))
            lq = []
            for fut in (lock._waiters or ()):
                lq.append('c' if fut.cancelled() else ('w' if fut.done() else 'p'))
            pools.append({'ready': sorted(c.cid for c in hp.ready), 'busy': sorted(c.cid for c in hp.busy),
                          'waiters': waiters.get(key), 'locked': lock.locked(),
                          'lockq': lq, 'cond': cw})
        hq = []
        for fut in (hp_lock._waiters or ()):
            hq.append('c' if fut.cancelled() else ('w' if fut.done() else 'p'))
        rel = sorted(self.task_name[t][1] for t in release_tasks)
        live_rel = sorted(j for t, (kind, j) in self.task_name.items() if kind == 'r' and not t.done())
        return {'pools': pools, 'hp_locked': p._host_pools_lock.locked(), 'hp_q': hq,
                'release_set': rel, 'live_tasks': live_rel,
                'holding': [c.cid if c is not None else None for c in self.holding],
                'where': list(self.where), 'open': [1 if c.is_open else 0 for c in self.conns],
                'runnable': [list(x) for x in self.runnable()],
                'events': list(self.events)}

    # -- running a schedule ----------------------------------------------------
    def schedule_point(self):
        if self._in_setup:
            # run every client's first step up to its env future
            for i in range(self.n):
                self._run_task_handle(('c', i))
            self._in_setup = False
        try:
            self.on_point(self)
        except Stop:
            pass
        self.loop.stop()

    def run(self, on_point):
        """on_point(world) performs as many actions as it likes (world.apply) and returns."""
        self.on_point = on_point
        self.loop.run_forever()


class _Drain(object):
    def __init__(self, loop):
        self.loop = loop

    def schedule_point(self):
        n = 0
        while self.loop._ready and n < 10000:
            h = self.loop._ready.popleft()
            n += 1
            if not h._cancelled:
                try:
                    h._run()
                except Exception:
                    pass
        self.loop.stop()
