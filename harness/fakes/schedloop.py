"""Scripted asyncio event loop (C13 correspondence).

``SchedLoop`` is a real ``asyncio.SelectorEventLoop`` in which nothing happens by
itself: time is virtual, and at every ``_run_once`` a *director* decides what
happens next.  One decision is either

* the run of exactly ONE ready task step (one handle of the ready queue whose
  callback is ``Task.__step`` / ``Task.__wakeup`` = the code one coroutine runs
  between two real asyncio suspension points), or
* one environment action of the director (resolve a future, call ``stop()`` ...).

Handles that are not task steps (the done-callback plumbing of ``asyncio.wait``:
``_on_completion``) only forward a completion and touch no application state; they
are run eagerly, in FIFO order, before the next decision (they commute with every
task step, so no interleaving is lost).

When there is no ready handle, no timer and the director has no environment action
that the environment still owes (``obligations``), the loop records ``stuck`` and
stops: that is "nothing runnable", i.e. a hang of whatever is still waiting.

Tasks are pure-Python ``asyncio.tasks._PyTask`` objects (so that handle callbacks are
bound methods whose ``__self__`` is the task) named in creation order by the
director's ``name_task(coro)``.
"""
import asyncio
import asyncio.tasks
import heapq


class SchedLoop(asyncio.SelectorEventLoop):
    def __init__(self, director):
        super().__init__()
        self._vtime = 0.0
        self.director = director
        self.task_names = {}          # task -> name
        self.stuck = False
        self.set_task_factory(self._factory)

    # -- no self-pipe: nothing ever wakes this loop from another thread, and thousands of
    #    loops are created per process (one per run), so they must not hold sockets ----------
    def _make_self_pipe(self):
        self._ssock = None
        self._csock = None

    def _close_self_pipe(self):
        pass

    def _write_to_self(self):
        pass

    def release_fds(self):
        """give back the selector's descriptor once a run is over (the loop object itself is
        kept alive by the caller so that no finaliser runs)"""
        try:
            self._selector.close()
        except Exception:
            pass

    # -- virtual time -------------------------------------------------------
    def time(self):
        return self._vtime

    # -- named pure-python tasks ---------------------------------------------
    def _factory(self, loop, coro, **kw):
        task = asyncio.tasks._PyTask(coro, loop=loop, **kw)
        self.task_names[task] = self.director.name_task(coro)
        return task

    def _task_of(self, handle):
        cb = getattr(handle, '_callback', None)
        owner = getattr(cb, '__self__', None)
        if isinstance(owner, asyncio.tasks._PyTask) and owner in self.task_names:
            return owner
        return None

    def ready_task_handles(self):
        """[(name, handle)] for the ready, not cancelled task steps, sorted by name
        (a task has at most one ready step)."""
        out = []
        for h in self._ready:
            if h._cancelled:
                continue
            t = self._task_of(h)
            if t is not None:
                out.append((self.task_names[t], h))
        out.sort(key=lambda p: p[0])
        return out

    # -- one decision per iteration ------------------------------------------
    def _run_once(self):
        while self._scheduled and self._scheduled[0]._cancelled:
            h = heapq.heappop(self._scheduled)
            h._scheduled = False
        # eager plumbing: first ready handle that is not a task step
        for h in list(self._ready):
            if h._cancelled:
                self._ready.remove(h)
                continue
            if self._task_of(h) is None:
                self._ready.remove(h)
                h._run()
                return
        tasks = self.ready_task_handles()
        decision = self.director.decide([n for n, _ in tasks])
        if decision is None:
            if self._scheduled:                       # only timers left: jump to the next one
                h = heapq.heappop(self._scheduled)
                h._scheduled = False
                self._vtime = max(self._vtime, h._when)
                self._ready.append(h)
                return
            self.stuck = True
            self.stop()
            return
        kind, what = decision
        if kind == 'finish':
            self.stop()
        elif kind == 'run':
            h = dict(tasks)[what]
            self._ready.remove(h)
            self.director.before_step(what)
            h._run()
            self.director.after_step(what)
        else:                                         # environment action
            self.director.apply(what)
