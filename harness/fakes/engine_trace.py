"""pre_hook for harness/impl/crawl_run.py (C01, C03): log every URL-table transaction of the
REAL crawl to <workdir>/ops.log, one JSON line when the operation begins ("b") and one when it
has returned, i.e. after its commit ("e").  A "b" without "e" at the end of a killed run is the
operation the kill interrupted.  Lines "l" record every link the scraper handed to
ProcessingRule._process_scrape_info (before filtering), in order; "h" the hostnames read at start-up;
"start" begins a run.

The wrappers only observe: arguments are copied, the wrapped method is called unchanged and its
result / exception is passed through."""
import json
import os
import time


def install(spec):
    import wpull.database.sqltable as st

    log = open(spec.get('engine_trace_path') or os.path.join(spec['workdir'], 'ops.log'), 'ab', buffering=0)
    seq = [0]
    t0 = time.time()

    def emit(rec):
        rec['ts'] = round(time.time() - t0, 3)        # for diagnosis only; never compared
        log.write((json.dumps(rec) + '\n').encode())

    emit({'t': 'start', 'pid': os.getpid()})

    # `--concurrent N` is parsed but never applied by this tree (nothing reads args.concurrent
    # except the verbosity default), so the number of workers is set the way the API offers it:
    # PipelineSeries.concurrency (which forwards to the download pipeline).
    conc = int(spec.get('engine_concurrency') or 0)
    if conc > 1:
        import wpull.application.builder as wb
        o_build = wb.Builder.build

        def build(self):
            app = o_build(self)
            app._pipeline_series.concurrency = conc
            return app

        wb.Builder.build = build

    # the links of a scraped page in the scraper's (set iteration) order, admitted or not
    import wpull.pipeline.session as ps
    o_child = ps.ItemSession.child_url_record

    def child_url_record(self, url, inline=False, **kw):
        emit({'t': 'l', 'item': self.url_record.url, 'url': url, 'inline': bool(inline)})
        return o_child(self, url, inline=inline, **kw)

    ps.ItemSession.child_url_record = child_url_record

    def props(p):
        if p is None:
            return None
        return {'level': p.level, 'inline': p.inline_level, 'parent': p.parent_url, 'root': p.root_url}

    cls = st.BaseSQLURLTable
    o_add, o_out, o_in, o_upd, o_rel, o_hosts = (cls.add_many, cls.check_out, cls.check_in, cls.update_one,
                                                  cls.release, cls.get_hostnames)

    def begin(op, **kw):
        seq[0] += 1
        n = seq[0]
        emit(dict(kw, t='b', n=n, op=op))
        return n

    def add_many(self, new_urls):
        new_urls = tuple(new_urls)
        if not new_urls:
            return o_add(self, new_urls)
        n = begin('add_many', urls=[[u, props(p)] for u, p, d in new_urls])
        r = o_add(self, new_urls)
        emit({'t': 'e', 'n': n, 'added': list(r)})
        return r

    def check_out(self, filter_status, level=None):
        n = begin('check_out', status=filter_status.value)
        try:
            r = o_out(self, filter_status, level)
        except st.NotFound:
            emit({'t': 'e', 'n': n, 'url': None})
            raise
        emit({'t': 'e', 'n': n, 'url': r.url, 'try_count': r.try_count, 'level': r.level})
        return r

    def check_in(self, url, new_status, increment_try_count=True, url_result=None):
        n = begin('check_in', url=url, status=new_status.value, inc=bool(increment_try_count))
        r = o_in(self, url, new_status, increment_try_count=increment_try_count, url_result=url_result)
        emit({'t': 'e', 'n': n})
        return r

    def update_one(self, url, **kwargs):
        n = begin('update_one', url=url, values={k: v for k, v in kwargs.items() if isinstance(v, (int, str, type(None)))})
        r = o_upd(self, url, **kwargs)
        emit({'t': 'e', 'n': n})
        return r

    def release(self):
        n = begin('release')
        r = o_rel(self)
        emit({'t': 'e', 'n': n})
        return r

    def get_hostnames(self):
        r = o_hosts(self)
        emit({'t': 'h', 'hostnames': list(r)})
        return r

    cls.add_many, cls.check_out, cls.check_in, cls.update_one, cls.release, cls.get_hostnames = (
        add_many, check_out, check_in, update_one, release, get_hostnames)
