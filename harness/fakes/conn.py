"""Scripted connection: the REAL wpull ``Connection`` object (so that
``Connection.read/readline/run_network_operation/close/closed`` are the code
under test) whose ``reader`` is a real ``asyncio.StreamReader`` fed from a script
and whose ``writer`` only records.  No sockets, no timing.

A script is a list of *exchanges*; exchange k is a list of byte segments.  The
segments of exchange k become deliverable only after the k-th ``write`` of a
request head (reactive transport: the server answers request k only after it has
received it).  A segment is handed to the StreamReader exactly when the reader
would otherwise block (``_wait_for_data``), so the way the stream is cut into
reads is exactly the scripted segmentation.  When the script of the current
exchange is exhausted the peer closes (EOF) if ``eof_after`` is true for that
exchange, else the read would block forever: that is reported as ``starved`` and
turned into EOF so that the run terminates.

Import ``harness.compat`` before this module."""
import asyncio

from wpull.network.connection import Connection, ConnectionState, DummyCloseTimer


class ScriptedReader(asyncio.StreamReader):
    def __init__(self, loop):
        super().__init__(loop=loop)         # default limit 2**16, as in wpull
        self.script = []                    # segments deliverable now
        self.total_fed = 0
        self.eof_fed = False
        self.starved = False                # a read wanted data the peer will never send
        self.peer_closes = True

    def consumed(self):
        return self.total_fed - len(self._buffer)

    async def _wait_for_data(self, func_name):
        if self.script:
            seg = self.script.pop(0)
            assert seg, 'empty segment in script'
            self.total_fed += len(seg)
            self.feed_data(seg)
        else:
            if not self.peer_closes:
                self.starved = True
            self.eof_fed = True
            self.feed_eof()


class RecordingWriter(object):
    def __init__(self, on_write):
        self.chunks = []
        self.closed = False
        self._on_write = on_write

    def write(self, data):
        self.chunks.append(bytes(data))
        self._on_write(data)

    def drain(self):
        return None

    def close(self):
        self.closed = True

    def get_extra_info(self, name, default=None):
        return default


class ScriptedConnection(object):
    """Builds and owns a real wpull Connection wired to the script."""

    def __init__(self, loop, exchanges, eof_after=None, gate='first-write'):
        self.loop = loop
        self.exchanges = [list(x) for x in exchanges]
        self.eof_after = eof_after or [True] * len(self.exchanges)
        self.next_exchange = 0
        self.read_log = []                  # (bytes consumed before, size) of every non-empty Connection.read
        self.reader = ScriptedReader(loop)
        self.writer = RecordingWriter(self._on_write)
        self.request_open = False           # set by the driver before a request is written
        self.reconnects = 0                 # times the code re-connected THIS connection object (Connection.connect)
        self._consumed_base = 0             # bytes consumed on earlier incarnations
        owner = self

        class _Conn(Connection):
            # a closed connection that the code resets and connects again reaches the same scripted server, which goes on
            # with its script: the next request written gets the next scripted response
            @asyncio.coroutine
            def connect(self):
                owner._rearm()
                return
                yield       # pragma: no cover
        conn = _Conn(('127.0.0.1', 80), hostname='h.test')
        self.connection = conn
        self._wire(first=True)

    def _wire(self, first=False):
        conn = self.connection
        conn.reader = self.reader
        conn.writer = self.writer
        conn._close_timer = DummyCloseTimer()
        conn._state = ConnectionState.created
        # wrap the reader's read to log what each read delivered (observation only)
        reader = self.reader
        real_read = reader.read

        async def logged_read(n=-1):
            before = self.consumed()
            data = await real_read(n)
            if data:
                self.read_log.append((before, len(data)))
            return data
        reader.read = logged_read

    def _rearm(self):
        self.reconnects += 1
        self._consumed_base += self.reader.consumed()
        self.reader = ScriptedReader(self.loop)
        self.writer.closed = False
        self._wire()
        self.request_open = True

    def begin_exchange(self):
        """The driver calls this just before a request is written; the first byte
        written opens the gate for the next scripted response."""
        self.request_open = True

    def _on_write(self, data):
        if self.request_open:
            self.request_open = False
            self.open_gate()

    def open_gate(self):
        k = self.next_exchange
        if k < len(self.exchanges):
            self.reader.script.extend(self.exchanges[k])
            self.reader.peer_closes = self.eof_after[k]
            self.next_exchange += 1

    # observations -----------------------------------------------------
    def explicitly_closed(self):
        return self.connection.state() == ConnectionState.dead

    def consumed(self):
        return self._consumed_base + self.reader.consumed()
