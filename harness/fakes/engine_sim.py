"""Shared by harness/corr/c01.py and c03.py: generated sites and option sets for end-to-end
crawls of the REAL application, the recorded URL-table trace (engine_trace.py), and its
translation into a [sim_case] term for coq/Model/EngineSim.v (trace replay on the LTS).

Canonical URLs are 'http://<host>:{PORT}<path>'; the generator decides which canonical URL
every link spelling denotes (by construction), so a spelling wpull fails to canonicalise shows
up as an unknown row / a second request."""
import json
import os
import re
import shutil
import tempfile

from harness.fakes import crawl

HOSTS = ['h1', 'h2', 'h3']
HOOK = 'harness.fakes.engine_trace.install'


# --------------------------------------------------------------------------
# generation
# --------------------------------------------------------------------------
def canon(host, path):
    return 'http://%s:{PORT}%s' % (host, path)


def _rel(from_path, to_path):
    """a relative reference from the page at from_path to to_path (same host)"""
    fd = from_path.split('?')[0].rsplit('/', 1)[0].split('/')[1:]      # directory segments of the page
    tp = to_path.split('/')[1:]
    i = 0
    while i < len(fd) and i < len(tp) - 1 and fd[i] == tp[i]:
        i += 1
    rel = '../' * (len(fd) - i) + '/'.join(tp[i:])
    return rel or './'


def spell(r, page_host, page_path, host, path):
    """one spelling of canonical URL (host, path) as written in a page at (page_host, page_path)"""
    kinds = ['abs', 'ABS', 'frag', 'dots', 'dot1']
    # dot and empty segments in other positions (checked against URLInfo.parse: all normalise to the canonical path)
    if path.split('?')[0] != '/':
        kinds += ['dslash', 'middot']
        kinds += ['dirdots'] if path.split('?')[0].endswith('/') else ['dotend', 'dotdotend']
    if host == page_host:
        kinds += ['path', 'path', 'rel', 'rel', 'pfrag', 'emptyfrag']
    k = r.choice(kinds)
    p0 = path.split('?')[0]
    q = path[len(p0):]
    if k == 'abs':
        return canon(host, path)
    if k == 'ABS':
        return 'HTTP://%s:{PORT}%s' % (host.upper(), path)
    if k == 'frag':
        return canon(host, path) + '#sec%d' % r.randrange(3)
    if k == 'dots':
        return 'http://%s:{PORT}/zz/..%s' % (host, path)
    if k == 'dot1':
        return 'http://%s:{PORT}/.%s' % (host, path) if path.startswith('/') else canon(host, path)
    if k == 'dslash':                  # empty segment: //a/b
        return 'http://%s:{PORT}/%s' % (host, path)
    if k == 'middot':                  # /a/./b  (or /./a)
        i = p0.rfind('/', 0, len(p0) - 1)
        return 'http://%s:{PORT}%s/.%s%s' % (host, p0[:i], p0[i:], q)
    if k == 'dotend':                  # /a/b/.   -> /a/b
        return 'http://%s:{PORT}%s/.%s' % (host, p0, q)
    if k == 'dotdotend':               # /a/b/zz/.. -> /a/b   (path ENDS in a dot-dot segment)
        return 'http://%s:{PORT}%s/zz/..%s' % (host, p0, q)
    if k == 'dirdots':                 # /d/zz/../ -> /d/
        return 'http://%s:{PORT}%szz/../%s' % (host, p0, q)
    if k == 'path':
        return path
    if k == 'pfrag':
        return path + '#x'
    if k == 'emptyfrag':
        return path + '#'
    if k == 'rel':
        if q and _rel(page_path, p0) in ('./',):
            return path
        return _rel(page_path, p0) + q
    return canon(host, path)


PATHS = ['/', '/a', '/b', '/c.html', '/d/', '/d/e', '/d/f.html', '/d/g/', '/d/g/h', '/k/l', '/k/m/n.html', '/o?x=1',
         '/p/q?y=2', '/img/1.png', '/img/2.png', '/d/i.png', '/s', '/t', '/u/v', '/u/w/', '/zz', '/d/e2', '/k/', '/r1', '/r2', '/r3']


def gen_site(r, n_pages=None, hosts=1, errors=False, redirects=True):
    """returns meta: {'pages': {(host,path): page}, 'order': [...]} where page =
    {'kind': 'doc'|'leaf'|'img'|'nodoc'|'err'|'redir', 'code', 'links': [(host,path,inline,spelling)], 'target': (host,path)|None,
     'delay': s}"""
    n = n_pages or r.randrange(3, 26)
    hs = HOSTS[:hosts]
    keys = [('h1', '/')]
    pool = [(h, p) for h in hs for p in PATHS if (h, p) != ('h1', '/')]
    r.shuffle(pool)
    # most pages on h1
    pool.sort(key=lambda hp: (hp[0] != 'h1') and r.random() < 0.7)
    keys += pool[:n - 1]
    pages = {}
    for (h, p) in keys:
        t = r.random()
        if p.endswith('.png'):
            kind = 'img'
        elif (h, p) == ('h1', '/'):
            kind = 'doc'
        elif t < 0.62:
            kind = 'doc'
        elif t < 0.72:
            kind = 'leaf'
        elif t < 0.80:
            kind = 'nodoc'
        elif t < 0.84 and errors:
            kind = 'err'
        elif t < 0.97 and redirects:
            kind = 'redir'
        else:
            kind = 'leaf'
        pages[(h, p)] = {'kind': kind, 'links': [], 'target': None, 'delay': 0.0}
    docs = [k for k in keys if pages[k]['kind'] == 'doc']
    allk = list(keys)
    dangling = [(h, p) for h in hs for p in ('/nope', '/d/nope2')]
    for k in keys:
        pg = pages[k]
        if pg['kind'] == 'doc':
            m = r.choice([0, 1, 2, 2, 3, 3, 4, 5, 7])
            for _ in range(m):
                tgt = r.choice(allk + ([k] if r.random() < 0.3 else []) + (dangling if r.random() < 0.15 else []))
                inline = tgt[1].endswith('.png') or r.random() < 0.08
                pg['links'].append((tgt[0], tgt[1], inline, spell(r, k[0], k[1], tgt[0], tgt[1])))
                if r.random() < 0.25:      # the same target again, in another spelling
                    pg['links'].append((tgt[0], tgt[1], inline, spell(r, k[0], k[1], tgt[0], tgt[1])))
            pg['code'] = 200
        elif pg['kind'] in ('leaf', 'img'):
            pg['code'] = 200
        elif pg['kind'] == 'nodoc':
            pg['code'] = r.choice([404, 403, 410, 401, 405])
        elif pg['kind'] == 'err':
            pg['code'] = r.choice([500, 503, 400])
        elif pg['kind'] == 'redir':
            pg['code'] = r.choice([301, 302, 303, 307, 308])
            same = [x for x in allk if x[0] == k[0] and x != k]
            if errors and r.random() < 0.06:
                pg['target'] = None                   # no Location
            elif same and r.random() < 0.9:
                pg['target'] = r.choice(same)
            else:
                pg['target'] = r.choice(allk)
            if pg['target']:
                pg['tspell'] = spell(r, k[0], k[1], pg['target'][0], pg['target'][1])
    # make everything on h1 reachable-ish: chain missing pages from random docs
    reach = set()
    stack = [('h1', '/')]
    while stack:
        k = stack.pop()
        if k in reach or k not in pages:
            continue
        reach.add(k)
        for l in pages[k]['links']:
            stack.append((l[0], l[1]))
        if pages[k]['target']:
            stack.append(pages[k]['target'])
    for k in keys:
        if k not in reach and r.random() < 0.8:
            src = r.choice([d for d in docs if d in reach] or [('h1', '/')])
            inline = k[1].endswith('.png')
            pages[src]['links'].append((k[0], k[1], inline, spell(r, src[0], src[1], k[0], k[1])))
            reach.add(k)
    return {'pages': pages}


def html_of(pg):
    links = [l[3] for l in pg['links'] if not l[2]]
    inline = [l[3] for l in pg['links'] if l[2]]
    return crawl.html(links=links, inline=inline)


def site_spec(meta):
    site = {}
    for (h, p), pg in meta['pages'].items():
        d = site.setdefault(h, {})
        if pg['kind'] == 'doc':
            d[p] = {'status': pg['code'], 'body': html_of(pg)}
        elif pg['kind'] == 'leaf':
            d[p] = {'status': 200, 'body': 'leaf page', 'ctype': 'text/plain'}
        elif pg['kind'] == 'img':
            d[p] = {'status': 200, 'body': 'PNG', 'ctype': 'image/png'}
        elif pg['kind'] in ('nodoc', 'err'):
            d[p] = {'status': pg['code'], 'body': 'status %d' % pg['code'], 'ctype': 'text/plain'}
        elif pg['kind'] == 'redir':
            d[p] = {'status': pg['code'], 'body': '', 'ctype': 'text/plain'}
            if pg['target']:
                d[p]['location'] = pg['tspell']
        if pg.get('delay'):
            d[p]['delay'] = pg['delay']
    for h in HOSTS:
        site.setdefault(h, {})
    return site


def gen_opts(r, hosts=1, conc=None, simple=False):
    o = {'recursive': r.random() < 0.93, 'preq': (not simple) and r.random() < 0.45,
         'level': r.choice([None, None, 0, 1, 2, 2, 3, 3, 4]), 'prl': None,
         'no_parent': r.random() < 0.2, 'tries': r.choice([1, 1, 2, 3]), 'acc': None, 'rej': None,
         'span': hosts > 1 and r.random() < 0.25, 'span_preq': False, 'span_linked': False,
         'maxredir': r.choice([None, None, 1, 2, 3]), 'conc': conc or r.choice([1, 1, 2, 3, 4])}
    if not simple and r.random() < 0.15:
        o['prl'] = r.choice([1, 2])
    if r.random() < 0.18:
        o['acc'] = r.choice([r'/(d|k)/|/$', r'h1:\d+/[a-d]', r'[^g]$', r'html|/$|/[a-s]$'])
    if r.random() < 0.18:
        o['rej'] = r.choice([r'/k/', r'\.png$', r'/d/g', r'x=1', r'/[st]$'])
    if hosts > 1 and not o['span'] and not simple and r.random() < 0.4:
        o['span_preq'] = r.random() < 0.6
        o['span_linked'] = r.random() < 0.6
    return o


def args_of(o, starts):
    a = list(starts)
    if o['recursive']:
        a.append('-r')
    if o['preq']:
        a.append('-p')
    if o['level'] is not None:
        a += ['-l', 'inf' if o['level'] == 0 else str(o['level'])]
    if o['prl'] is not None:
        a += ['--page-requisites-level', str(o['prl'])]
    if o['no_parent']:
        a.append('--no-parent')
    a += ['--tries', str(o['tries'])]
    if o['acc']:
        a += ['--accept-regex', o['acc']]
    if o['rej']:
        a += ['--reject-regex', o['rej']]
    if o['span']:
        a.append('--span-hosts')
    allow = [n for n, k in (('page-requisites', 'span_preq'), ('linked-pages', 'span_linked')) if o[k]]
    if allow:
        a += ['--span-hosts-allow', ','.join(allow)]
    if o['maxredir'] is not None:
        a += ['--max-redirect', str(o['maxredir'])]
    a += ['--concurrent', str(o['conc']), '--no-robots']
    if o.get('convert_links'):
        a.append('--convert-links')       # a second pipeline stage after the crawl, with its own check-outs in the same database
    return a


DEFAULT_LEVEL = 5
DEFAULT_PRL = 5
DEFAULT_MAXREDIR = 20


def gen_case(r, hosts=None, conc=None, errors=False, n_pages=None, simple=False, delays=False):
    hosts = hosts or r.choice([1, 1, 2, 2, 3])
    meta = gen_site(r, n_pages=n_pages, hosts=hosts, errors=errors)
    o = gen_opts(r, hosts=hosts, conc=conc, simple=simple)
    docs = [k for k, pg in meta['pages'].items() if pg['kind'] == 'doc' and k[0] == 'h1']
    starts = [('h1', '/')]
    if o['no_parent'] or r.random() < 0.15:
        sub = [k for k in docs if k[1].count('/') >= 2]
        if sub:
            starts = [r.choice(sub)]
    if r.random() < 0.2:
        extra = r.choice(list(meta['pages'].keys()))
        if extra not in starts:
            starts.append(extra)
    sp = []
    for (h, p) in starts:
        sp.append(r.choice([canon(h, p), canon(h, p), 'HTTP://%s:{PORT}%s' % (h.upper(), p), canon(h, p) + '#top']))
    if delays or o['conc'] > 1:
        for k, pg in meta['pages'].items():
            if r.random() < 0.3:
                pg['delay'] = r.choice([0.02, 0.05, 0.1])
    return {'meta': meta, 'opts': o, 'starts': starts, 'start_spellings': sp}


def stable_port(case):
    """one port per site: the URL strings - and with PYTHONHASHSEED fixed the scraper's set-iteration order, which decides what is
    discovered first - are then the same in every run of the site (each run listens on its own loopback address)"""
    import zlib
    key = json.dumps([sorted((list(k), v.get('kind'), v.get('links'), v.get('target')) for k, v in case['meta']['pages'].items()),
                      case['start_spellings']], sort_keys=True, default=str)
    return 20000 + zlib.crc32(key.encode()) % 30000


def spec_of(case, repo, trace_path):
    return {'port': stable_port(case), 'bind_ip': crawl.random_loopback(),
            'args': args_of(case['opts'], case['start_spellings']), 'site': site_spec(case['meta']), 'repo': repo,
            'pre_hooks': [HOOK], 'engine_trace_path': trace_path, 'engine_concurrency': case['opts']['conc'],
            'db_uri': bool(case['opts'].get('db_uri'))}


# --------------------------------------------------------------------------
# running
# --------------------------------------------------------------------------
def read_trace(path):
    """-> list of runs; run = list of records"""
    runs = []
    if not os.path.exists(path):
        return runs
    for line in open(path):
        line = line.strip()
        if not line:
            continue
        try:
            rec = json.loads(line)
        except ValueError:
            continue
        if rec.get('t') == 'start':
            runs.append([])
        elif runs:
            runs[-1].append(rec)
    return runs


def run_case(case, repo, kill=None, timeout=45):
    """one crawl (kill=None) or a killed crawl followed by the same command again.
    returns {'runs': [ {'res':..., 'trace': [...]} ... ]}"""
    tmp = tempfile.mkdtemp(prefix='verif-engine-')
    try:
        tp = os.path.join(tmp, 'ops.log')
        spec = spec_of(case, repo, tp)
        if kill is None:
            res = [crawl.run_crawl(spec, timeout=timeout)]
            for attempt in range(3):
                if res[0].get('rc') not in (0, 9) and 'Address already in use' in (res[0].get('stderr_tail') or ''):
                    if os.path.exists(tp):
                        os.remove(tp)
                    res = [crawl.run_crawl(dict(spec, bind_ip=crawl.random_loopback()), timeout=timeout)]
        else:
            r1, r2 = crawl.run_with_resume(spec, kill, timeout=timeout)
            res = [r1, r2]
        traces = read_trace(tp)
        while len(traces) < len(res):
            traces.append([])
        return {'runs': [{'res': _slim(x), 'trace': t} for x, t in zip(res, traces)], 'kill': kill}
    finally:
        shutil.rmtree(tmp, ignore_errors=True)


def _slim(res):
    return {'rc': res.get('rc'), 'killed': res.get('killed'), 'timed_out': res.get('timed_out'), 'exit_code': res.get('exit_code'),
            'port': res.get('port'), 'commits': res.get('commits'),
            'requests': [{'host': q['host'], 'path': q['path'], 'method': q['method']} for q in res.get('requests', [])],
            'rows': res.get('rows', []), 'stderr_tail': (res.get('stderr_tail') or '')[-300:]}


# --------------------------------------------------------------------------
# translation to Coq
# --------------------------------------------------------------------------
class Ids:
    """canonical URL template -> N"""
    def __init__(self, case):
        self.ids = {}
        self.rev = []
        keys = set(case['meta']['pages'].keys()) | set(case['starts'])
        for pg in case['meta']['pages'].values():
            for l in pg['links']:
                keys.add((l[0], l[1]))
            if pg['target']:
                keys.add(pg['target'])
        for k in sorted(keys):
            self.get(canon(*k))
        self.unknown = []

    def get(self, tmpl):
        if tmpl not in self.ids:
            self.ids[tmpl] = len(self.rev) + 1
            self.rev.append(tmpl)
        return self.ids[tmpl]

    def of_real(self, url, port):
        """a URL string as wpull stores it -> id (unknown strings get fresh ids)"""
        t = url.replace(':%d' % port, ':{PORT}', 1) if port else url
        if t not in self.ids:
            self.unknown.append(url)
        return self.get(t)


def _parse_tmpl(t):
    m = re.match(r'^(\w+)://([^/:]+)(?::(\{PORT\}|\d+))?(/[^?#]*)?(\?[^#]*)?', t)
    if not m:
        return ('other', '', 0, '/')
    return (m.group(1).lower(), m.group(2).lower(), m.group(3), m.group(4) or '/')


def coq_list(xs):
    return '[' + '; '.join(xs) + ']'


def coq_opt(x):
    return 'None' if x is None else '(Some %d)' % x


def coq_bool(b):
    return 'true' if b else 'false'


def coq_rinfo(u, level, inline, parent, root):
    return '(mkInfo %d %d %s %d %d)' % (u, level, coq_opt(inline if inline else None), parent, root)


STATUS = {'todo': 'Todo', 'in_progress': 'InProgress', 'done': 'Done', 'error': 'Error', 'skipped': 'Skipped'}


def coq_opts(o):
    lvl = DEFAULT_LEVEL if o['level'] is None else o['level']
    prl = DEFAULT_PRL if o['prl'] is None else o['prl']
    return '(mkOpts %s %s %d %d %s %d %s %s %s %s %s)' % (
        coq_bool(o['recursive']), coq_bool(o['preq']), lvl, prl, coq_bool(o['no_parent']), o['tries'],
        coq_bool(bool(o['acc'])), coq_bool(bool(o['rej'])), coq_bool(o['span']), coq_bool(o['span_preq']),
        coq_bool(o['span_linked']))


def events_of_run(ids, port, run, last, variant):
    """-> (events as Coq strings, pending op description or None, problems)"""
    trace = run['trace']
    res = run['res']
    begun = {}
    order = []
    ended = {}
    spans = []
    for rec in trace:
        if rec.get('t') == 'b':
            begun[rec['n']] = rec
            order.append(('op', rec['n']))
        elif rec.get('t') == 'e':
            ended[rec['n']] = rec
        elif rec.get('t') == 'h':
            order.append(('h', rec))
    evs = []
    problems = []
    pending = None
    U = lambda s: ids.of_real(s, port)
    for kind, x in order:
        if kind == 'h':
            evs.append('EvSpan %s' % coq_list(str(HOSTS.index(h) + 1) if h in HOSTS else '99' for h in x['hostnames']))
            continue
        b = begun[x]
        e = ended.get(x)
        done = e is not None
        if not done:
            pending = b['op']
            if not variant:
                continue
        op = b['op']
        if op == 'release':
            evs.append('EvRelease')
        elif op == 'add_many':
            urls = b['urls']
            if all(p is None for _, p in urls):
                evs.append('EvAddStarts %s' % coq_list(coq_rinfo(U(u), 0, None, U(u), U(u)) for u, _ in urls))
            else:
                parents = {p['parent'] for _, p in urls if p}
                if len(parents) != 1 or any(p is None for _, p in urls):
                    problems.append('add_many batch with mixed parents')
                    continue
                par = U(parents.pop())
                evs.append('EvOp %d (AAddMany %s)' % (par, coq_list(
                    coq_rinfo(U(u), p['level'], p['inline'], U(p['parent']), U(p['root'])) for u, p in urls)))
        elif op == 'check_out':
            if not done:
                evs.append('EvCheckoutAny')
            elif e.get('url'):
                evs.append('EvCheckout %d' % U(e['url']))
        elif op == 'update_one':
            vals = b.get('values') or {}
            if list(vals.keys()) != ['status_code']:
                problems.append('update_one of %r' % (vals,))
                continue
            evs.append('EvOp %d (ASetCode %d)' % (U(b['url']), vals['status_code']))
        elif op == 'check_in':
            if not b.get('inc'):
                problems.append('check_in without try_count increment')
            evs.append('EvOp %d (ACheckIn %s)' % (U(b['url']), STATUS[b['status']]))
    reqs = []
    for q in res['requests']:
        reqs.append(str(U('http://%s:%d%s' % (q['host'], port, q['path']))))
    evs.append('EvEnd %s %s' % (coq_bool(not res.get('killed')), coq_list(reqs)))
    rows = []
    for row in res['rows']:
        rows.append('(mkRow %s %s %d %s)' % (
            coq_rinfo(U(row['url']), row['level'], row['inline_level'], U(row['parent']) if row['parent'] else 0,
                      U(row['root']) if row['root'] else 0),
            STATUS[row['status']], row['try_count'], coq_opt(row['status_code'])))
    evs.append('EvTable %s' % coq_list(rows))
    if res.get('killed') and not last:
        evs.append('EvCrash')
    return evs, pending, problems


def resolve_page(meta, key, limit=40):
    """the page whose body an item for `key` ends up scraping (following the site's redirects)"""
    seen = 0
    while key in meta['pages'] and meta['pages'][key]['kind'] == 'redir' and meta['pages'][key]['target'] and seen < limit:
        key = meta['pages'][key]['target']
        seen += 1
    return key


def link_orders(case, ids, port, result):
    """observed scraper order per scraped page: {page id: [(target id, inline)]} from the "l" records
    (one per link handed to the filters, in order).  Several observations of a page must agree."""
    rev = {}
    for k in case['meta']['pages']:
        rev[ids.get(canon(*k))] = k
    seqs = {}
    cur = {}
    problems = []
    for run in result['runs']:
        open_items = {}
        for rec in run['trace']:
            if rec.get('t') == 'l':
                open_items.setdefault(rec['item'], []).append((ids.of_real(rec['url'], port), bool(rec['inline'])))
            elif rec.get('t') == 'b' and rec['op'] in ('check_in',) and rec['url'] in open_items:
                _close(case, ids, port, rev, rec['url'], open_items.pop(rec['url']), seqs, problems)
        for item, seq in open_items.items():       # killed before the check-in
            _close(case, ids, port, rev, item, seq, seqs, problems, partial=True)
    return seqs, problems


def _close(case, ids, port, rev, item, seq, seqs, problems, partial=False):
    iid = ids.of_real(item, port)
    if iid not in rev:
        return
    page = ids.get(canon(*resolve_page(case['meta'], rev[iid])))
    old = seqs.get(page)
    if old is None or (len(seq) > len(old) and seq[:len(old)] == old):
        seqs[page] = seq
    elif seq != old[:len(seq)] and not partial:
        problems.append('page %d scraped in two different orders' % page)


def observed_orders(case, port, result):
    """the scraper's link order as observed in the trace, keyed like the site: {page key: [(target key, inline)]}
    (the order in which a page's links come out of the scraper is set-iteration order, an input of the crawl)"""
    ids = Ids(case)
    keys = set(case['meta']['pages'].keys()) | set(case['starts'])
    for pg in case['meta']['pages'].values():
        keys.update((l[0], l[1]) for l in pg['links'])
        if pg['target']:
            keys.add(tuple(pg['target']))
    rev = {ids.get(canon(*k)): k for k in keys}
    seqs, _ = link_orders(case, ids, port, result)
    out = {}
    for pid, seq in seqs.items():
        if pid in rev and all(t in rev for t, _ in seq):
            # only a COMPLETE observation (every declared (target, link-or-embedded) context seen) replaces the declared order:
            # a context that never reached the filters must stay in the reference
            declared = {((l[0], l[1]), bool(l[2])) for l in case['meta']['pages'].get(rev[pid], {}).get('links', [])}
            if {(rev[t], bool(i)) for t, i in seq} == declared:
                out[rev[pid]] = [(rev[t], i) for t, i in seq]
    return out


def coq_case(case, result):
    """-> (list of alternative Coq terms [sim_case ...] (any of them = 0 means the trace replays), problems)"""
    port = None
    for run in result['runs']:
        port = port or run['res'].get('port')
    ids = Ids(case)
    problems = []
    if not port:
        return [], ['no port reported (crawl did not start)'], ids
    # events (two variants when a run was killed inside an operation)
    variants = [[]]
    nruns = len(result['runs'])
    for i, run in enumerate(result['runs']):
        evs0, pending, pr = events_of_run(ids, port, run, i == nruns - 1, False)
        problems += pr
        if pending:
            evs1, _, _ = events_of_run(ids, port, run, i == nruns - 1, True)
            variants = [v + evs0 for v in variants] + [v + evs1 for v in variants]
        else:
            variants = [v + evs0 for v in variants]
    killed_any = any(run['res'].get('killed') for run in result['runs'])
    # site with link order taken from the observed scraper output
    seqs, pr = link_orders(case, ids, port, result)
    problems += pr
    pages = []
    for (h, p), pg in sorted(case['meta']['pages'].items()):
        uid = ids.get(canon(h, p))
        if pg['kind'] == 'doc':
            links = [(ids.get(canon(l[0], l[1])), bool(l[2])) for l in pg['links']]
            ordered = seqs.get(uid)
            if ordered is None:
                ordered = links                      # never scraped: order irrelevant
            else:
                # the scraper collects links in a set: identical references collapse, so an observed
                # multiplicity may be lower than the generated one, never higher; the SET must agree
                # (a kill may cut the scrape short: then the rest is appended, order irrelevant)
                over = [x for x in set(ordered) if ordered.count(x) > links.count(x)]
                missing = [x for x in set(links) if x not in ordered]
                if over:
                    problems.append('page %d: scraper produced links %r, generated %r' % (uid, sorted(ordered), sorted(links)))
                elif missing:
                    if killed_any:
                        ordered = list(ordered) + sorted(missing)
                    else:
                        problems.append('page %d: scraper missed links %r' % (uid, sorted(missing)))
            pages.append('(%d, Doc %d %s)' % (uid, pg['code'], coq_list('(%d, %s)' % (t, coq_bool(i)) for t, i in ordered)))
        elif pg['kind'] in ('leaf', 'img'):
            pages.append('(%d, Doc 200 [])' % uid)
        elif pg['kind'] == 'nodoc':
            pages.append('(%d, NoDoc %d)' % (uid, pg['code']))
        elif pg['kind'] == 'err':
            pages.append('(%d, Err %d)' % (uid, pg['code']))
        elif pg['kind'] == 'redir':
            pages.append('(%d, Redirect %d %s)' % (uid, pg['code'], coq_opt(ids.get(canon(*pg['target'])) if pg['target'] else None)))
    o = case['opts']
    attrs = []
    for tmpl in list(ids.rev):
        scheme, host, prt, path = _parse_tmpl(tmpl)
        real = tmpl.replace('{PORT}', str(port))
        sc = {'http': 0, 'https': 1, 'ftp': 2}.get(scheme, 3)
        hid = HOSTS.index(host) + 1 if host in HOSTS else 99
        acc = bool(o['acc'] and re.search(o['acc'], real))
        rej = bool(o['rej'] and re.search(o['rej'], real))
        attrs.append('(%d, mkUA %d %d %d %s %s %s)' % (ids.ids[tmpl], sc, hid, port if prt else 80,
                                                     coq_list(str(ord(c)) for c in path), coq_bool(acc), coq_bool(rej)))
    starts = coq_list(str(ids.get(canon(*k))) for k in case['starts'])
    maxredir = DEFAULT_MAXREDIR if o['maxredir'] is None else o['maxredir']
    head = 'sim_case %s %s %s %d %s %d' % (coq_list(pages), coq_list(attrs), coq_opts(o), maxredir, starts, o['conc'])
    if ids.unknown:
        problems.append('URLs outside the generated universe: %r' % (ids.unknown[:4],))
    terms = ['(%s %s)' % (head, coq_list(v)) for v in variants]
    return terms, problems, ids


# --------------------------------------------------------------------------
# JSON form of a case (replays) and the sequential reference crawl (property checker, Python side)
# --------------------------------------------------------------------------
def case_to_json(case):
    pages = {}
    for (h, p), pg in case['meta']['pages'].items():
        q = dict(pg)
        q['links'] = [list(l) for l in pg['links']]
        q['target'] = list(pg['target']) if pg['target'] else None
        pages['%s %s' % (h, p)] = q
    return {'pages': pages, 'opts': case['opts'], 'starts': [list(s) for s in case['starts']],
            'start_spellings': case['start_spellings']}


def case_from_json(d):
    pages = {}
    for k, pg in d['pages'].items():
        h, p = k.split(' ', 1)
        q = dict(pg)
        q['links'] = [tuple(l) for l in pg['links']]
        q['target'] = tuple(pg['target']) if pg['target'] else None
        pages[(h, p)] = q
    return {'meta': {'pages': pages}, 'opts': d['opts'], 'starts': [tuple(s) for s in d['starts']],
            'start_spellings': d['start_spellings']}


def _dir_of(path):
    return path.rsplit('/', 1)[0] + '/'


def ref_scope(case, span, is_redirect, key, rec, tries):
    """FetchRule.consult_filters over urlfilter.py for the generated option set (reference, Python)"""
    o = case['opts']
    host, path = key
    p0 = path.split('?')[0]
    level, inline, parent, root = rec
    if level != 0:
        if inline:
            if not o['preq']:
                return False
        elif not o['recursive']:
            return False
    if o['no_parent'] and not inline and root is not None and host == root[0]:
        if not _dir_of(p0).startswith(_dir_of(root[1].split('?')[0])):
            return False
    if o['tries'] and not tries < o['tries']:
        return False
    lvl = DEFAULT_LEVEL if o['level'] is None else o['level']
    prl = DEFAULT_PRL if o['prl'] is None else o['prl']
    if (lvl and o['recursive']) or prl:
        if prl and inline and inline > prl:
            return False
        if lvl:
            if inline:
                if not level <= lvl + 2:
                    return False
            elif not level <= lvl:
                return False
    url = 'http://%s:%s%s' % (host, case.get('_port', 0), path)
    if o['acc'] and not re.search(o['acc'], url):
        return False
    if o['rej'] and re.search(o['rej'], url):
        return False
    ok_span = (o['span'] or host in span or (o['span_preq'] and bool(inline))
               or (o['span_linked'] and parent is not None and parent[0] in span))
    return ok_span or is_redirect


def ref_crawl(case, port, orders=None):
    """sequential crawl of the generated site following the code's rules (first-in first-out, one worker);
    no fetch may fail.  Returns {'requests': [key...], 'initial': [key...], 'rows': {key: (level, status)}, 'failed': bool}.
    orders: optional {page key: [(target key, inline)]} scraper order."""
    case = dict(case, _port=port)
    pages = case['meta']['pages']
    o = case['opts']
    span = {k[0] for k in case['starts']}
    maxredir = DEFAULT_MAXREDIR if o['maxredir'] is None else o['maxredir']
    table = {}
    queue = []
    for k in case['starts']:
        if k not in table:
            table[k] = [0, None, k, k, 'todo']
            queue.append(k)
    requests, initial = [], []
    failed = False
    while queue:
        k = queue.pop(0)
        level, inline, parent, root, _ = table[k]
        rec = (level, inline, parent, root)
        if not ref_scope(case, span, False, k, rec, 0):
            table[k][4] = 'skipped'
            continue
        cur, ini, fuel = k, True, maxredir
        while True:
            requests.append(cur)
            if ini:
                initial.append(cur)
            pg = pages.get(cur, {'kind': 'nodoc', 'code': 404, 'links': [], 'target': None})
            if pg['kind'] in ('doc', 'leaf', 'img'):
                links = pg['links']
                if orders and cur in orders:
                    links = [(t[0], t[1], i, '') for t, i in orders[cur]]
                for l in links:
                    ck = (l[0], l[1])
                    crec = (level + 1, ((inline or 0) + 1) if l[2] else None, k, root)
                    if ref_scope(case, span, False, cur, crec, 0) and ck not in table:
                        table[ck] = [crec[0], crec[1], k, root, 'todo']
                        queue.append(ck)
                table[k][4] = 'done'
                break
            if pg['kind'] == 'nodoc':
                table[k][4] = 'skipped'
                break
            if pg['kind'] == 'err':
                table[k][4] = 'error'
                failed = True
                break
            # redirect
            if not pg['target'] or fuel == 0:
                table[k][4] = 'error'
                failed = True
                break
            fuel -= 1
            if not ref_scope(case, span, True, pg['target'], rec, 0):
                table[k][4] = 'skipped'
                break
            cur, ini = pg['target'], False
    return {'requests': requests, 'initial': initial, 'rows': {k: (v[0], v[4]) for k, v in table.items()}, 'failed': failed,
            'roots': {k: v[3] for k, v in table.items()}}
