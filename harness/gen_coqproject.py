#!/usr/bin/env python3
"""Write coq/_CoqProject from the .v files present (Lib Model Spec Proofs Props Gen)."""
import os
import sys

HERE = os.path.dirname(os.path.dirname(os.path.abspath(__file__)))
COQ = os.path.join(HERE, 'coq')
HEAD = ['-Q . Wpull',
        '-arg -w -arg -notation-overridden,-deprecated-hint-without-locality,-deprecated-instance-without-locality,-deprecated-syntactic-definition']


def content():
    lines = list(HEAD)
    for d in ('Lib', 'Gen', 'Model', 'Spec', 'Proofs', 'Props'):
        p = os.path.join(COQ, d)
        if os.path.isdir(p):
            for fn in sorted(os.listdir(p)):
                if fn.endswith('.v') and not fn.startswith('.'):
                    lines.append('%s/%s' % (d, fn))
    return '\n'.join(lines) + '\n'


def main():
    path = os.path.join(COQ, '_CoqProject')
    new = content()
    old = open(path).read() if os.path.exists(path) else None
    if new != old:
        with open(path, 'w') as f:
            f.write(new)
        return True
    return False


if __name__ == '__main__':
    print('changed' if main() else 'unchanged')
