#!/usr/bin/env python3
"""Regenerate MANIFEST.json from the property modules under harness/corr."""
import importlib
import json
import os
import sys

HERE = os.path.dirname(os.path.dirname(os.path.abspath(__file__)))
sys.path.insert(0, HERE)

ALL = ['C%02d' % i for i in range(1, 21)]
PENDING_REASON = ('not claimed yet: model and theorems for this property are not built in this tree '
                  '(DESIGN.md 8.3: nothing is claimed before its theorems are machine-checked and its correspondence runs)')


def main():
    checks = []
    na = []
    # a property is claimed only once the lead has seen its check pass on /repo: harness/claimed.txt
    claimed = set(open(os.path.join(HERE, 'harness', 'claimed.txt')).read().split())
    for pid in ALL:
        path = os.path.join(HERE, 'harness', 'corr', pid.lower() + '.py')
        if not os.path.exists(path) or pid not in claimed:
            na.append({'property_id': pid, 'reason': PENDING_REASON})
            continue
        m = importlib.import_module('harness.corr.' + pid.lower())
        if getattr(m, 'NOT_CLAIMED', None):
            na.append({'property_id': pid, 'reason': m.NOT_CLAIMED})
            continue
        checks.append({
            'property_id': pid,
            'quick_cmd': './check %s --tier quick' % pid,
            'thorough_cmd': './check %s --tier thorough' % pid,
            'evidence_file': 'evidence/%s.json' % pid,
            'replay_cmd_template': './check %s --replay {path}' % pid,
            'engine': 'coq',
            'level_claimed': {'category': 'proof', 'text': m.LEVEL_TEXT, 'design_ref': getattr(m, 'DESIGN_REF', 'DESIGN.md section 4, ' + pid)},
            'level_note': m.LEVEL_NOTE,
            'technique': getattr(m, 'TECHNIQUE', 'Coq theorem over an executable Gallina model + vm_compute correspondence with the implementation'),
        })
    fixes = []
    kf = os.path.join(HERE, 'known_findings.txt')
    if os.path.exists(kf):
        fixes = [l.strip() for l in open(kf) if l.startswith('fixed:')]
    man = {
        'version': 1,
        'setup_cmd': 'python3 harness/setup.py',
        'hooks': {
            'guard': 'WPULL_VERIF',
            'enable': 'none needed: the launcher (harness/compat + harness/impl/*) monkeypatches fakes, fault plans and schedulers from outside /repo',
            'baseline_off_cmd': 'cd /repo && /venv/bin/python -m pytest -ra -q -p no:cacheprovider --timeout=900 --continue-on-collection-errors',
            'source_commits': [],
            'add_only': True,
        },
        'engines': [{'name': 'coq', 'path': 'coq/', 'serves_properties': [c['property_id'] for c in checks],
                     'kind_free_text': 'Coq 8.16.1 development (Lib/ Model/ Proofs/ Props/ Gen/) + Python correspondence harness (harness/)'}],
        'checks': checks,
        'not_applicable': na,
        'notes': 'Technique: machine-checked proof in Coq 8.16.1; model tied to /repo by regeneration (translator) and/or vm_compute correspondence on every run. '
                 'fix: commits in /repo are listed in known_findings.txt (%d fixed entries).' % len(fixes),
    }
    with open(os.path.join(HERE, 'MANIFEST.json'), 'w') as f:
        json.dump(man, f, indent=1)
    print('MANIFEST.json: %d checks, %d not claimed' % (len(checks), len(na)))


if __name__ == '__main__':
    main()
