#!/venv/bin/python
"""setup-time sanity: the shim imports wpull from the repo tree."""
import os
import sys
sys.path.insert(0, os.environ.get('VERIF_REPO', '/repo'))
sys.path.insert(0, os.path.dirname(os.path.dirname(os.path.abspath(__file__))))
import warnings
warnings.simplefilter('ignore')
import harness.compat as c  # noqa
import wpull.url, wpull.decompression, wpull.protocol.http.stream, wpull.warc.recorder  # noqa
import wpull.network.pool, wpull.pipeline.pipeline, wpull.database.sqltable, wpull.protocol.ftp.client  # noqa
import wpull.processor.web, wpull.application.builder  # noqa
c.patch_sqlalchemy()
print('selfcheck ok')
