"""Implementation side of C13: run the REAL wpull.pipeline.pipeline.Pipeline on the
scripted event loop (harness/fakes/schedloop.py) with an instrumented source and
instrumented tasks; every decision (which ready task step runs / which environment
action happens) is taken from an explicit choice list or from a seeded PRNG.

stdin : {"cases": [{"n":..,"t":..,"c":..,"choices":[..]|null,"seed":int,
                     "stops":int,"raises":int,"srcraises":int,"nones":int,"concs":[k..],"conc_budget":int,
                     "max_steps":int}]}
stdout: {"results": [{"trace":[...], "terminal":str, "choices":[[idx,nopts],..], "yielded":[..], ...}]}

trace entries: ["run", actor, [[S|E,item,task],..]]   one task step and the log events it emitted
               ["env", action, arg]                    action in done|raise|item|none|srcraise|stop|conc

"mode": "table" (property-only runs, not replayed by the model): the source is SYNCHRONOUS and GROWING like wpull's
URL table - get_item() never suspends, returns the next pending id or None; an item that completes its last task
adds up to "fanout" children (n = total ever created); with "sync_tasks" percent of the task calls do not suspend.
"""
import json
import os
import random
import signal
import sys

import asyncio
import harness.compat  # noqa
from harness.fakes.schedloop import SchedLoop
import wpull.pipeline.pipeline as P


def _attr(obj, name, pred, none_ok=False):
    """the private attribute `name` of obj - or, when a maintenance commit has renamed it, the one attribute that satisfies pred
    (observation must not depend on how private names are spelled)"""
    d = vars(obj)
    if name in d:
        return d[name]
    hits = [v for v in d.values() if pred(v)]
    if len(hits) == 1:
        return hits[0]
    if not hits and none_ok:
        return None
    raise AttributeError('cannot identify the attribute formerly called %s on %s (%d candidates)' % (name, type(obj).__name__, len(hits)))


def p_state(pipeline):
    return _attr(pipeline, '_state', lambda v: isinstance(v, P.PipelineState))


def p_queue(pipeline):
    return _attr(pipeline, '_item_queue', lambda v: isinstance(v, P.ItemQueue))


def q_inner(q):
    return _attr(q, '_queue', lambda v: isinstance(v, asyncio.Queue))


def q_cond(q):
    return _attr(q, '_worker_ready_condition', lambda v: isinstance(v, asyncio.Condition))


def p_producer_task(pipeline):
    return _attr(pipeline, '_producer_task', lambda v: isinstance(v, asyncio.Future), none_ok=True)


class TaskBoom(Exception):
    pass


class SrcBoom(Exception):
    pass


class BusyLoop(BaseException):
    pass


WEIGHTS = {'run': 3.0, 'done': 2.0, 'raise': 0.25, 'item': 3.0, 'none': 1.0, 'srcraise': 0.15, 'stop': 0.3, 'conc': 0.25}


class Director:
    def __init__(self, case):
        self.case = case
        self.n_left = case['n']
        self.t = case['t']
        self.stops = case.get('stops', 0)
        self.raises = case.get('raises', 0)
        self.srcraises = case.get('srcraises', 0)
        self.nones = case.get('nones', 0)
        self.concs = list(case.get('concs', []))
        self.conc_budget = case.get('conc_budget', 0)
        self.max_steps = case.get('max_steps', 400)
        self.choices = case.get('choices')
        self.rnd = random.Random(case.get('seed', 0))
        self.pos = 0
        self.choice_log = []
        self.trace = []
        self.events = []
        self.ev_mark = 0
        self.src_fut = None
        self.inflight = []            # [item, k, fut]
        self.next_item = 1
        self.yielded = []
        self.worker_count = 0
        self.main_task = None
        self.pipeline = None
        self.terminal = None
        self.effective_stops = 0
        self.forced_unpause = 0
        self.last_ready = []
        self.mode = case.get('mode', 'async')
        self.fanout = case.get('fanout', 2)
        self.sync_tasks = case.get('sync_tasks', 0)
        self.rnd2 = random.Random(case.get('seed', 0) * 7919 + 13)     # decisions that are not scheduling choices
        self.pool = []
        self.created = 0
        if self.mode == 'table' and case['n'] > 0:
            self.pool.append(1)
            self.created = 1

    # -- table mode: the growing synchronous source -------------------------------
    def table_get(self):
        if self.pool:
            item = self.pool.pop(0)
            self.yielded.append(item)
            self.trace.append(['env', 'item', item, 'sync'])
            return item
        return None

    def table_children(self, item):
        k = min(self.rnd2.randint(0, self.fanout), self.case['n'] - self.created)
        for _ in range(k):
            self.created += 1
            self.pool.append(self.created)

    # -- naming ---------------------------------------------------------------
    def name_task(self, coro):
        gen = getattr(coro, 'gen', coro)
        qn = getattr(gen, '__qualname__', '') or getattr(coro, '__qualname__', '')
        if qn.endswith('Pipeline.process'):
            return 'main'
        parts = qn.split('.')
        if qn.endswith('_run_producer_wrapper') or qn.endswith('Producer.process') or \
                (len(parts) >= 2 and parts[-2] == 'Pipeline' and parts[-1] != 'process'):
            # the one other task a Pipeline spawns is the producer (whatever its private wrapper is called)
            return 'prod'
        if qn.endswith('Worker.process'):
            self.worker_count += 1
            return 'w%03d' % (self.worker_count - 1)
        return 'other:' + qn

    # -- options ----------------------------------------------------------------
    def env_options(self):
        oblig, optional = [], []
        for item, k, fut in sorted(self.inflight, key=lambda e: (e[0], e[1])):
            oblig.append(('done', item))
            if self.raises > 0:
                oblig.append(('raise', item))
        if self.mode != 'table' and self.src_fut is not None and not self.src_fut.done():
            if self.n_left > 0:
                oblig.append(('item', self.next_item))
            if self.n_left == 0 or self.nones > 0:
                oblig.append(('none', 0))
            if self.srcraises > 0:
                oblig.append(('srcraise', 0))
        if self.stops > 0:
            optional.append(('stop', 0))
        if self.conc_budget > 0:
            for k in self.concs:
                optional.append(('conc', k))
        return oblig, optional

    def decide(self, ready):
        if self.main_task is not None and self.main_task.done():
            exc = None if self.main_task.cancelled() else self.main_task.exception()
            self.terminal = 'cancelled' if self.main_task.cancelled() else (
                'returned' if exc is None else 'busyloop' if isinstance(exc, BusyLoop) else 'raised:' + type(exc).__name__)
            return ('finish', None)
        if len(self.trace) >= self.max_steps:
            self.terminal = 'nonterminating'
            return ('finish', None)
        self.last_ready = list(ready)
        oblig, optional = self.env_options()
        paused = (p_state(self.pipeline) == P.PipelineState.running and self.pipeline.concurrency == 0)
        if not ready and not oblig:
            if paused:
                # the environment owes an unpause (property: "pauses followed by an unpause")
                self.forced_unpause += 1
                return ('env', ('conc', 1))
            return None                                   # nothing runnable: stuck
        opts = [('run', r) for r in ready] + [('env', o) for o in oblig + optional]
        if self.choices is not None:
            idx = self.choices[self.pos] if self.pos < len(self.choices) else 0
            if idx >= len(opts):
                idx = 0
        else:
            ws = [WEIGHTS['run'] if k == 'run' else WEIGHTS[o[0]] for k, o in opts]
            idx = self.rnd.choices(range(len(opts)), weights=ws)[0]
        self.pos += 1
        self.choice_log.append([idx, len(opts)])
        return opts[idx]

    # -- steps ------------------------------------------------------------------
    def before_step(self, name):
        self.ev_mark = len(self.events)
        self.ready_before = list(self.last_ready)
        signal.setitimer(signal.ITIMER_VIRTUAL, 4.0)      # CPU time of this process: a step that never yields

    def after_step(self, name):
        signal.setitimer(signal.ITIMER_VIRTUAL, 0)
        self.trace.append(['run', name, self.events[self.ev_mark:], self.ready_before])

    def apply(self, action):
        kind, arg = action
        self.trace.append(['env', kind, arg])
        if kind in ('done', 'raise'):
            for e in self.inflight:
                if e[0] == arg:
                    self.inflight.remove(e)
                    if kind == 'done':
                        e[2].set_result(None)
                    else:
                        self.raises -= 1
                        e[2].set_exception(TaskBoom())
                    break
        elif kind == 'item':
            self.n_left -= 1
            self.next_item += 1
            self.yielded.append(arg)
            fut, self.src_fut = self.src_fut, None
            fut.set_result(arg)
        elif kind == 'none':
            if self.n_left > 0:
                self.nones -= 1
            fut, self.src_fut = self.src_fut, None
            fut.set_result(None)
        elif kind == 'srcraise':
            self.srcraises -= 1
            fut, self.src_fut = self.src_fut, None
            fut.set_exception(SrcBoom())
        elif kind == 'stop':
            self.stops -= 1
            if p_state(self.pipeline) == P.PipelineState.running:
                self.effective_stops += 1
                self.trace[-1].append('effective')
                q = p_queue(self.pipeline)
                if q_inner(q).qsize() > 0 and len(q_cond(q)._waiters) > 0:
                    self.trace[-1].append('producer-parked')       # the F26 situation
                if self.pipeline.concurrency == 0:
                    self.trace[-1].append('paused')                # the F31 situation
            self.pipeline.stop()
        elif kind == 'conc':
            if self.conc_budget > 0:
                self.conc_budget -= 1
            self.pipeline.concurrency = arg


KEEP = []


def run_case(case):
    d = Director(case)
    loop = SchedLoop(d)
    asyncio.set_event_loop(loop)

    class Src(P.ItemSource):
        @asyncio.coroutine
        def get_item(self):
            if d.mode == 'table':
                return d.table_get()
            fut = loop.create_future()
            d.src_fut = fut
            try:
                return (yield from fut)
            finally:
                if d.src_fut is fut:
                    d.src_fut = None

    def make_task(k):
        class T(P.ItemTask):
            @asyncio.coroutine
            def process(self, item):
                d.events.append(['S', item, k])
                if not (d.mode == 'table' and d.rnd2.randrange(100) < d.sync_tasks):
                    fut = loop.create_future()
                    d.inflight.append([item, k, fut])
                    yield from fut
                d.events.append(['E', item, k])
                if d.mode == 'table' and k == case['t'] - 1:
                    d.table_children(item)
        return T()

    pipeline = P.Pipeline(Src(), [make_task(k) for k in range(case['t'])])
    pipeline.concurrency = case['c']
    d.pipeline = pipeline

    def on_alarm(signum, frame):
        raise BusyLoop()
    signal.signal(signal.SIGVTALRM, on_alarm)
    try:
        d.main_task = loop.create_task(pipeline.process())
        loop.run_forever()
    except BusyLoop:
        d.terminal = 'busyloop'
    finally:
        signal.setitimer(signal.ITIMER_VIRTUAL, 0)
    if loop.stuck:
        d.terminal = 'stuck'
    ptask = p_producer_task(pipeline)
    state = {'pstate': p_state(pipeline).value, 'conc': pipeline.concurrency,
             'qsize': q_inner(p_queue(pipeline)).qsize(), 'unfinished': p_queue(pipeline).unfinished_items,
             'producer_done': bool(ptask and ptask.done())}
    # do not let pending tasks complain at interpreter exit
    for t in list(loop.task_names):
        if not t.done():
            t._log_destroy_pending = False
        elif not t.cancelled():
            t.exception()
    loop.release_fds()
    KEEP.append((loop, pipeline, d))          # no finalisers before os._exit
    return {'trace': d.trace, 'terminal': d.terminal, 'choices': d.choice_log, 'yielded': d.yielded,
            'effective_stops': d.effective_stops, 'forced_unpause': d.forced_unpause, 'final': state,
            'workers': d.worker_count, 'pool_left': len(d.pool), 'created': d.created}


def enumerate_runs(case, max_runs):
    """stateless depth-first enumeration of the whole choice tree of one configuration"""
    out = []
    prefix = []
    complete = False
    while len(out) < max_runs:
        c = dict(case)
        c['choices'] = list(prefix)
        res = run_case(c)
        out.append(res)
        log = res['choices']
        j = len(log) - 1
        while j >= 0 and log[j][0] + 1 >= log[j][1]:
            j -= 1
        if j < 0:
            complete = True
            break
        prefix = [i for i, _ in log[:j]] + [log[j][0] + 1]
    return out, complete


def main():
    import gc
    gc.disable()            # thousands of loops are kept alive on purpose; no collector pauses inside a timed step
    req = json.load(sys.stdin)
    out = []
    if 'enumerate' in req:
        out, complete = enumerate_runs(req['enumerate'], req.get('max_runs', 1000))
        print(json.dumps({'results': out, 'complete': complete}))
        sys.stdout.flush()
        os._exit(0)
    for case in req['cases']:
        out.append(run_case(case))
    print(json.dumps({'results': out}))
    sys.stdout.flush()
    os._exit(0)


if __name__ == '__main__':
    main()
