"""Implementation side of C16, cookie stage: ONE real http.cookiejar.CookieJar with wpull's
DeFactoCookiePolicy behind wpull's CookieJarWrapper, shared by a sequence of fetches (as one crawl
shares it), each fetch driven through the real WebClient/WebSession/Client/Stream over the scripted
connection pool of c16_impl.  Responses carry Set-Cookie fields with arbitrary Domain/Path/Secure
attributes; every request's bytes are captured together with the URL it was written for, and for
every response the URL of the request it answered (the host that SET the cookies).

Also reports, for every Set-Cookie, what wpull's policy functions saw (for the Coq model of
wpull/cookie.py): the verdict of the stdlib parent policy, the jar counters, and the final verdict."""
import asyncio
import functools
import http.cookiejar
import json
import sys
import types

import harness.compat  # noqa
import wpull.cookie
from wpull.application.tasks.download import ClientSetupTask
from wpull.cookie import DeFactoCookiePolicy
from wpull.cookiewrapper import CookieJarWrapper
from wpull.errors import ProtocolError
from wpull.protocol.http.client import Client
from wpull.protocol.http.redirect import RedirectTracker
from wpull.protocol.http.request import Request
from wpull.protocol.http.stream import Stream
from wpull.protocol.http.web import WebClient
from wpull.url import URLInfo

from harness.impl.c16_impl import FakePool


def response_bytes(r):
    out = b'HTTP/1.1 %d R\r\nContent-Length: 0\r\n' % r['status']
    if r.get('location') is not None:
        out += b'Location: ' + r['location'].encode('latin-1') + b'\r\n'
    for sc in r.get('set_cookie', []):
        out += b'Set-Cookie: ' + sc.encode('latin-1') + b'\r\n'
    return out + b'\r\n'


class TracingPolicy(DeFactoCookiePolicy):
    """wpull's policy, unchanged in behaviour; records the inputs and the result of every set_ok /
    set_ok_domain / return_ok_domain decision (with the verdict of the stdlib parent method) so that the
    Coq model of wpull/cookie.py can be evaluated on the same inputs"""
    trace = None

    def set_ok(self, cookie, request):
        parent = http.cookiejar.DefaultCookiePolicy.set_ok(self, cookie, request)
        try:
            length = self.cookie_length(cookie.domain)
            count = self.count_cookies(cookie.domain)
            cookies = self.cookie_jar._cookies
            present = cookie.name in cookies.get(cookie.domain, {}).get(cookie.path, {})
        except Exception:
            length = count = -1
            present = False
        verdict = DeFactoCookiePolicy.set_ok(self, cookie, request)
        self.trace.append({
            'op': 'set_ok', 'name': cookie.name, 'value': cookie.value, 'domain': cookie.domain,
            'domain_specified': bool(cookie.domain_specified), 'path': cookie.path,
            'host': http.cookiejar.request_host(request), 'parent_ok': bool(parent),
            'jar_length': length, 'jar_count': count, 'present': bool(present),
            'text': str(cookie), 'verdict': bool(verdict)})
        return verdict

    def _domain_call(self, op, cookie, request):
        std = getattr(http.cookiejar.DefaultCookiePolicy, op)(self, cookie, request)
        verdict = getattr(DeFactoCookiePolicy, op)(self, cookie, request)
        self.trace.append({
            'op': op, 'name': cookie.name, 'domain': cookie.domain,
            'domain_specified': bool(cookie.domain_specified),
            'host': http.cookiejar.request_host(request), 'std': bool(std), 'verdict': bool(verdict)})
        return verdict

    def set_ok_domain(self, cookie, request):
        return self._domain_call('set_ok_domain', cookie, request)

    def return_ok_domain(self, cookie, request):
        return self._domain_call('return_ok_domain', cookie, request)


def run_scenario(sc, loop):
    opts = types.SimpleNamespace(user_agent=None, referer=None, header=[], http_compression=False, no_cache=False)
    app_session = types.SimpleNamespace(factory=types.SimpleNamespace(class_map={'Request': Request}),
                                        default_user_agent='Wpull/verif', args=opts)
    factory = ClientSetupTask._build_request_factory(app_session)
    jar = http.cookiejar.CookieJar()
    policy = TracingPolicy(cookie_jar=jar)
    policy.trace = []
    jar.set_policy(policy)
    wrapper = CookieJarWrapper(jar)
    events = []

    for fetch in sc['fetches']:
        try:
            info = URLInfo.parse(fetch['url'])
        except ValueError:
            events.append({'skip': fetch['url']})
            continue
        pool = FakePool([response_bytes(r) for r in fetch['responses']], False)
        client = Client(connection_pool=pool, stream_factory=functools.partial(Stream, keep_alive=True))
        web_client = WebClient(client, request_factory=factory,
                               redirect_tracker_factory=functools.partial(RedirectTracker, max_redirects=20),
                               cookie_jar=wrapper)
        request = factory(info.url)
        if fetch.get('post'):
            request.method = 'POST'
        try:
            session = web_client.session(request)
        except ValueError as e:
            events.append({'error': 'session: %s' % e, 'url': fetch['url']})
            continue
        n_resp = len(fetch['responses'])

        async def go():
            k = 0
            while not session.done() and k < n_resp:
                nxt = session.next_request()
                if nxt.url_info.scheme not in ('http', 'https'):
                    return
                ev = {'scheme': nxt.url_info.scheme, 'host': nxt.url_info.hostname, 'port': nxt.url_info.port,
                      'path': nxt.url_info.path, 'url': nxt.url_info.url, 'sent': None,
                      'set_cookie': fetch['responses'][k].get('set_cookie', []),
                      'status': fetch['responses'][k]['status']}
                events.append(ev)
                n_conn = len(pool.connections)
                try:
                    response = await session.start()
                except ProtocolError as e:
                    ev['error'] = 'ProtocolError: %s' % e
                    response = None
                except Exception as e:
                    ev['error'] = 'exc:%s: %s' % (type(e).__name__, e)
                    response = None
                conns = pool.connections[n_conn:]
                if conns and conns[0].writes:
                    ev['sent'] = conns[0].writes[0].hex()
                if response is None:
                    return
                await session.download()
                k += 1

        loop.run_until_complete(go())
    return {'events': events, 'trace': policy.trace}


def run_direct(triples):
    """wpull.cookie.cookie_domain_ok / is_ip_literal called directly (the policy only reaches them when the
    parent policy agrees, which hides part of their behaviour)"""
    return [[bool(wpull.cookie.cookie_domain_ok(d, bool(sp), h)), bool(wpull.cookie.is_ip_literal(h))] for d, sp, h in triples]


def main():
    req = json.load(sys.stdin)
    if 'direct' in req:
        print(json.dumps({'direct': run_direct(req['direct'])}))
        return
    loop = asyncio.new_event_loop()
    asyncio.set_event_loop(loop)
    res = []
    for sc in req['cases']:
        try:
            res.append(run_scenario(sc, loop))
        except Exception as e:
            import traceback
            res.append({'driver_error': '%s: %s' % (type(e).__name__, e), 'tb': traceback.format_exc()[-1500:]})
    print(json.dumps({'results': res}))


if __name__ == '__main__':
    main()
