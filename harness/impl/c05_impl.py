"""Implementation side of C05 / C07: the REAL wpull WARCRecorder (and, for HTTP, the
real http Client / Session / Stream on a scripted connection) is run on generated
recorder lifetimes; everything the model needs is OBSERVED, nothing is computed
here on wpull's behalf:
  - the events the clients emitted to the recorder sessions, in global order;
  - the values uuid4 / datetime_str returned, in order (pinned for determinism);
  - per write_record call: file, size before, bytes appended;
  - directory content before and after each lifetime.

stdin : {"cases": [ {"runs": [ {"cfg": {...}, "sessions": [...], "schedule": [[sidx, step], ...]}, ...]}, ...]}
stdout: {"results": [ {"runs": [ {...observations...} ]} ], "default_software": str}"""
import gzip
import io
import json
import logging
import os
import shutil
import sys
import tempfile
import types
import uuid
import calendar
import time

import harness.compat  # noqa
from harness.compat import new_loop
from harness.fakes.conn import ScriptedConnection
import wpull.util
import wpull.warc.format
from wpull.protocol.http.client import Client, Session as HTTPSession
from wpull.protocol.http.request import Request
from wpull.warc.recorder import WARCRecorder, WARCRecorderParams


class Pool(object):
    def __init__(self):
        self.next_conn = None

    async def acquire(self, host, port, ssl=False):
        return self.next_conn

    def no_wait_release(self, c):
        pass

    def close(self):
        pass


class Clock(object):
    """pins uuid4 and datetime_str and logs what they returned"""
    def __init__(self, seed):
        self.ids = []
        self.dates = []
        self.n = seed * 1000
        self.t = 1400000000 + seed * 86400 * 3

    def uuid4(self):
        self.n += 1
        u = uuid.UUID(int=(self.n * 0x9E3779B97F4A7C15F39CC0605CEDC835) % (1 << 128))
        self.ids.append('<%s>' % u.urn)
        return u

    def datetime_str(self):
        self.t += 997
        s = time.strftime('%Y-%m-%dT%H:%M:%SZ', time.gmtime(self.t))
        self.dates.append(s)
        return s


class FakeTable(object):
    def __init__(self, visits):
        self.visits = {(u, d): i for u, d, i in visits}
        self.last = None
        self.calls = []

    def get_revisit_id(self, url, digest):
        self.last = self.visits.get((url, digest))
        self.calls.append([url, digest, self.last])
        return self.last


def snapshot(d):
    out = {}
    for root, _, files in os.walk(d):
        for fn in files:
            p = os.path.join(root, fn)
            out[os.path.relpath(p, d)] = open(p, 'rb').read().hex()
    return out


class FailingRecord(object):
    """stands in for the record of ONE write_record call: after `chunks` pieces of the record have been handed to the
    output file, reading the next piece fails with an I/O error (an unreadable temporary block file, a full disk ...)"""
    def __init__(self, record, chunks):
        self.__dict__['_rec'] = record
        self.__dict__['_chunks'] = chunks

    def __getattr__(self, name):
        return getattr(self._rec, name)

    def __setattr__(self, name, value):
        setattr(self._rec, name, value)

    def __iter__(self):
        n = 0
        for piece in self._rec:
            if n >= self._chunks:
                raise OSError(28, 'No space left on device (injected by the harness)')
            yield piece
            n += 1


def make_recorder_class(log, fault=None):
    """fault = {'at': index of the write_record call that fails, 'chunks': pieces written before the error, 'fired': ...}"""
    calls = [0]

    def _archive_sizes(current):
        d = os.path.dirname(current) or '.'
        out = {}
        try:
            names = os.listdir(d)
        except OSError:
            names = []
        for n in names:
            if n.endswith(('.warc', '.warc.gz')):
                p = os.path.join(d, n) if os.path.dirname(current) else n
                try:
                    out[p] = os.path.getsize(p)
                except OSError:
                    pass
        return out

    class ObservedRecorder(WARCRecorder):
        def write_record(self, record, *args, **kwargs):
            # which file grows is OBSERVED (directory sizes before / after), not taken from the recorder's own idea of it
            cur = self._warc_filename
            sizes0 = _archive_sizes(cur)
            sizes0.setdefault(cur, os.path.getsize(cur) if os.path.exists(cur) else 0)
            k = calls[0]
            calls[0] += 1
            failing = fault is not None and fault['at'] == k
            ok = False
            try:
                if failing:
                    fault['fired'] = {'file': cur, 'before': sizes0[cur], 'type': record.fields.get('WARC-Type')}
                    r = super().write_record(FailingRecord(record, fault['chunks']), *args, **kwargs)
                else:
                    r = super().write_record(record, *args, **kwargs)
                ok = True
                return r
            finally:
                sizes1 = _archive_sizes(cur)
                if failing and not ok:
                    fault['fired']['after'] = sizes1.get(cur, 0)
                    fault['fired']['journal_left'] = os.path.exists(cur + '-wpullinc')
                else:
                    grown = [f for f in sizes1 if sizes1[f] != sizes0.get(f, 0)] or [cur]
                    for fn in sorted(grown):
                        before = sizes0.get(fn, 0)
                        with open(fn, 'rb') as f:
                            f.seek(before)
                            data = f.read()
                        log.append({'file': fn, 'before': before, 'after': sizes1.get(fn, before), 'data': data.hex()})
    return ObservedRecorder


def run_lifetime(run, clock, tmpdir):
    cfg = run['cfg']
    events = []
    writes = []
    table = FakeTable(cfg.get('visits') or []) if cfg.get('revisit') else None
    params = WARCRecorderParams(
        compress=cfg['compress'], extra_fields=[tuple(x) for x in cfg.get('extra') or []] or None,
        temp_dir=tmpdir, log=cfg['log'], appending=cfg['appending'], digests=cfg['digests'],
        cdx=cfg['cdx'], max_size=cfg['max_size'], url_table=table, software_string=cfg.get('software'))
    before = snapshot('.')
    out = {'error': None}
    loop = new_loop()
    rec = None
    try:
        fault = None
        if cfg.get('fail_write') is not None:
            fault = {'at': cfg['fail_write'][0], 'chunks': cfg['fail_write'][1], 'fired': None}
        out['fault'] = fault
        cur_step = [None]           # (session index, step) being run: where an injected fault surfaces
        rec = make_recorder_class(writes, fault)(cfg['prefix'], params=params)
        pool = Pool()
        client = Client(connection_pool=pool)
        rec.listen_to_http_client(client)
        n_http = [0]

        def on_new_session(http_session):
            sid = n_http[0]
            n_http[0] += 1
            ev = HTTPSession.Event
            events.append(['http', sid, 'new'])
            d = http_session.event_dispatcher
            d.add_listener(ev.begin_request, lambda request: events.append(
                ['http', sid, 'begin_request', request.url_info.url, request.address[0]]))
            d.add_listener(ev.request_data, lambda data: events.append(['http', sid, 'request_data', bytes(data).hex()]))
            d.add_listener(ev.end_request, lambda request: events.append(
                ['http', sid, 'end_request', len(request.to_bytes())]))
            d.add_listener(ev.response_data, lambda data: events.append(['http', sid, 'response_data', bytes(data).hex()]))
            d.add_listener(ev.begin_response, lambda response: events.append(['http', sid, 'begin_response']))
            d.add_listener(ev.end_response, lambda response: events.append(
                ['http', sid, 'end_response', len(response.to_bytes()), None]))
            d.add_listener(HTTPSession.SessionEvent.end_session, lambda error: events.append(['http', sid, 'close']))
        client.event_dispatcher.add_listener(Client.ClientEvent.new_session, on_new_session)

        live = {}
        nsid = [1000]

        def note_write_failure(L, e):
            """the injected I/O error left write_record through this session's end_request / end_response listener: the model event
            is 'write_failed' in place of the end_* event (our own logging listener may or may not have run before the recorder's)"""
            if fault is None or fault['fired'] is None or fault.get('noted') or not isinstance(e, OSError):
                return
            fault['noted'] = True
            sid = L['sid']
            if table is not None and fault['fired']['type'] in ('response', 'revisit') and table.calls:
                table.calls.pop()           # the lookup made for the record that could not be written
            for j in range(len(events) - 1, -1, -1):
                if events[j][0] == 'http' and events[j][1] == sid:
                    if events[j][2] in ('end_request', 'end_response'):
                        del events[j]
                    break
            events.append(['http', sid, 'write_failed'])
        for sidx, step in run['schedule']:
            s = run['sessions'][sidx]
            if s['kind'] == 'http':
                if step == 'start':
                    sc = ScriptedConnection(loop, [[bytes.fromhex(x) for x in s['segments']]])
                    pool.next_conn = sc.connection
                    hs = client.session()
                    hs.__enter__()
                    live[sidx] = {'hs': hs, 'sc': sc, 'err': None, 'sid': n_http[0] - 1}
                    req = Request(s['url'], method=s.get('method', 'GET'))
                    for k, v in s.get('req_fields') or []:
                        req.fields.add(k, v)
                    if s.get('post') is not None:
                        from wpull.body import Body
                        data = bytes.fromhex(s['post'])
                        req.body = Body(io.BytesIO(data))
                        req.fields['Content-Length'] = str(len(data))
                    sc.begin_exchange()
                    try:
                        loop.run_until_complete(hs.start(req))
                    except Exception as e:        # noqa
                        live[sidx]['err'] = e
                        note_write_failure(live[sidx], e)
                elif step == 'download':
                    L = live[sidx]
                    if L['err'] is None:
                        try:
                            loop.run_until_complete(L['hs'].download(io.BytesIO()))
                        except Exception as e:    # noqa
                            L['err'] = e
                            note_write_failure(L, e)
                elif step == 'exit':
                    L = live.pop(sidx)
                    e = L['err']
                    import warnings
                    with warnings.catch_warnings():
                        warnings.simplefilter('ignore')
                        if e is not None:
                            L['hs'].__exit__(type(e), e, e.__traceback__)
                        else:
                            L['hs'].__exit__(None, None, None)
                    s_out = out.setdefault('http_errors', {})
                    s_out[str(sidx)] = type(e).__name__ if e is not None else None
            else:       # ftp: the recorder session is driven directly
                if step[0] == 'new':
                    fs = rec.new_ftp_recorder_session()
                    sid = nsid[0]
                    nsid[0] += 1
                    live[sidx] = {'fs': fs, 'sid': sid}
                    events.append(['ftp', sid, 'new'])
                    continue
                L = live[sidx]
                fs, sid = L['fs'], L['sid']
                request = types.SimpleNamespace(url_info=types.SimpleNamespace(url=s['url']),
                                                address=(s['ip'], s['port']))
                if step[0] == 'begin_control':
                    fs.begin_control(request, connection_reused=step[1])
                    events.append(['ftp', sid, 'begin_control', s['url'], s['ip'], s['port'], step[1]])
                elif step[0] == 'send':
                    fs.control_send_data(bytes.fromhex(step[1]))
                    events.append(['ftp', sid, 'send', step[1]])
                elif step[0] == 'recv':
                    fs.control_receive_data(bytes.fromhex(step[1]))
                    events.append(['ftp', sid, 'recv', step[1]])
                elif step[0] == 'begin_transfer':
                    fs.begin_transfer(types.SimpleNamespace(data_address=(step[1], step[2])))
                    events.append(['ftp', sid, 'begin_transfer', step[1], step[2]])
                elif step[0] == 'data':
                    fs.transfer_receive_data(bytes.fromhex(step[1]))
                    events.append(['ftp', sid, 'data', step[1]])
                elif step[0] == 'end_transfer':
                    fs.end_transfer(types.SimpleNamespace(data_address=(step[1], step[2])))
                    events.append(['ftp', sid, 'end_transfer', step[1], step[2]])
                elif step[0] == 'end_control':
                    fs.end_control(None, connection_closed=step[1])
                    events.append(['ftp', sid, 'end_control', step[1]])
                elif step[0] == 'close':
                    fs.close()
                    events.append(['ftp', sid, 'close'])
        if cfg.get('log_message'):
            logging.getLogger('wpull.verif').info(cfg['log_message'])
        rec.close()
    except Exception as e:      # noqa
        import traceback
        out['error'] = '%s: %s' % (type(e).__name__, e)
        out['traceback'] = traceback.format_exc()[-1500:]
        if rec is not None and rec._log_handler is not None:
            try:
                logging.getLogger().removeHandler(rec._log_handler)
            except Exception:       # noqa
                pass
    finally:
        loop.close()
    if table is not None:
        # listeners are kept in a set (no order): the k-th end_response made the k-th table lookup
        ends = [e for e in events if e[0] == 'http' and e[2] == 'end_response']
        for e, call in zip(ends, table.calls):
            e[4] = call[2]
    if out.get('fault') and out['fault']['fired'] is not None and not out['fault'].get('noted'):
        out['fault_outside_http'] = True       # the failing append belonged to an FTP session, the warcinfo or the log record
    out['events'] = events
    out['writes'] = writes
    out['before'] = before
    out['after'] = snapshot('.')
    if table is not None:
        out['table_calls'] = table.calls
    return out


def run_case(case, idx):
    base = tempfile.mkdtemp(prefix='verif-c05-')
    work = os.path.join(base, 'w')
    tmp = os.path.join(base, 't')
    os.makedirs(work)
    os.makedirs(tmp)
    for d in case.get('mkdirs') or []:
        os.makedirs(os.path.join(work, d), exist_ok=True)
    for name, hx in (case.get('preexisting') or {}).items():
        with open(os.path.join(work, name), 'wb') as f:
            f.write(bytes.fromhex(hx))
    cwd = os.getcwd()
    os.chdir(work)
    clock = Clock(idx + 1)
    real_uuid = wpull.warc.format.uuid
    real_dt = wpull.util.datetime_str
    wpull.warc.format.uuid = types.SimpleNamespace(uuid4=clock.uuid4)
    wpull.util.datetime_str = clock.datetime_str
    try:
        runs = []
        for run in case['runs']:
            n_ids = len(clock.ids)
            r = run_lifetime(run, clock, tmp)
            r['ids'] = clock.ids[n_ids:]
            r['dates'] = clock.dates[n_ids:]
            r['ts'] = {d: str(int(wpull.util.parse_iso8601_str(d))) for d in r['dates']}
            r['tmp_left'] = sorted(os.listdir(tmp))
            runs.append(r)
        return {'runs': runs}
    finally:
        wpull.warc.format.uuid = real_uuid
        wpull.util.datetime_str = real_dt
        os.chdir(cwd)
        shutil.rmtree(base, ignore_errors=True)


def main():
    payload = json.load(sys.stdin)
    logging.getLogger().setLevel(logging.CRITICAL)
    results = [run_case(c, c.get('idx', i)) for i, c in enumerate(payload['cases'])]
    print(json.dumps({'results': results, 'default_software': WARCRecorder.DEFAULT_SOFTWARE_STRING}))


if __name__ == '__main__':
    main()
