"""Implementation side of C09: run wpull's REAL fetch and link-extraction entry
points on server-controlled bytes and report the exception class (if any) that
leaves the entry point.

Only the transport is scripted: the real ``Connection`` (read / readline /
run_network_operation / close), the real ``asyncio.StreamReader`` (64 KiB limit),
http ``Stream`` / ``Client`` / ``Session`` / ``WebClient`` / ``WebSession`` /
``RedirectTracker`` / cookie jar, ftp ``Session`` / ``Commander`` / ``ControlStream``
/ ``DataStream`` / listing parsers, ``RobotsTxtChecker`` / ``RobotsTxtPool`` and the
four document scrapers behind ``DemuxDocumentScraper`` are the code under test.
Bytes arrive in exactly the scripted segments (one segment per StreamReader wait).

stdin : {"cases": [case, ...]}       stdout: {"results": [...], "remote_errors": [...]}
case kinds
  http   {url, exchanges: [[seghex, ...], ...], cookies: bool, login: bool}
         WebClient.session(request); with session: while not done(): start(); download(file)
  robots {url, exchanges, ua}
         RobotsTxtChecker.can_fetch(request)
  ftp    {url, ctrl: hex, ctrl_segs: [n, ...], data: hex, data_segs: [n, ...], listing: bool}
         Session.start + download  /  start_listing + download_listing
  scrape {url, ctype, body: hex, link_type: name|null, status}
         DemuxDocumentScraper([HTML, CSS, JavaScript, Sitemap]).scrape_info(request, response, link_type)
result: {exc: null | runtime class name, mro: [...], handled: bool, stage, where, msg, n}
"""
import asyncio
import http.cookiejar
import io
import json
import logging
import os
import sys
import tempfile
import time
import traceback
import weakref

import harness.compat  # noqa
from wpull.body import Body
from wpull.cookie import DeFactoCookiePolicy
from wpull.cookiewrapper import CookieJarWrapper
from wpull.network.connection import Connection, ConnectionState, DummyCloseTimer
from wpull.pipeline.item import LinkType
from wpull.processor.base import REMOTE_ERRORS
from wpull.protocol.ftp.client import Session as FTPSession
from wpull.protocol.ftp.request import Request as FTPRequest
from wpull.protocol.http.client import Client
from wpull.protocol.http.redirect import RedirectTracker
from wpull.protocol.http.request import Request, Response
from wpull.protocol.http.robots import RobotsTxtChecker
from wpull.protocol.http.web import WebClient
from wpull.document.htmlparse.html5lib_ import HTMLParser
from wpull.scraper.base import DemuxDocumentScraper
from wpull.scraper.css import CSSScraper
from wpull.scraper.html import HTMLScraper, ElementWalker
from wpull.scraper.javascript import JavaScriptScraper
from wpull.scraper.sitemap import SitemapScraper


def rname(c):
    return '%s.%s' % (c.__module__, c.__qualname__)


# --------------------------------------------------------------------------
# scripted transport
# --------------------------------------------------------------------------
class ScriptedReader(asyncio.StreamReader):
    """A real StreamReader; data arrives one scripted segment per wait
    (_wait_for_data is the only place where StreamReader suspends for the
    transport); after the last segment the next wait is EOF."""

    def __init__(self, segments=()):
        super().__init__()                  # default limit 2 ** 16, as in wpull
        self.script = list(segments)

    async def _wait_for_data(self, func_name):
        if self.script:
            seg = self.script.pop(0)
            if seg:
                self.feed_data(seg)
            else:
                await asyncio.sleep(0)
                if not self.script:
                    self.feed_eof()
        else:
            self.feed_eof()


class FakeWriter:
    def __init__(self, on_write):
        self._on_write = on_write

    def write(self, data):
        self._on_write(data)

    def drain(self):
        return None

    def close(self):
        pass

    def get_extra_info(self, *a, **k):
        return None


class FakeConnection(Connection):
    """wpull's Connection with connect() replaced: no socket.  `take` is called at the first
    write after the connection was handed out by the pool and returns the segments the server
    answers with (reactive peer); `preload` segments are there from the start (FTP greeting,
    data connections)."""

    def __init__(self, address, take=None, preload=None):
        super().__init__(address)
        self._take = take
        self._preload = preload
        self.armed = False

    def _on_write(self, data):
        if self.armed and self._take is not None:
            self.armed = False
            self.reader.script.extend(self._take())

    @asyncio.coroutine
    def connect(self):
        if self._state != ConnectionState.ready:
            raise Exception('Closed connection must be reset before reusing.')
        self.reader = ScriptedReader(self._preload or ())
        self._preload = None
        self.writer = FakeWriter(self._on_write)
        self._close_timer = DummyCloseTimer()
        self._state = ConnectionState.created
        yield from asyncio.sleep(0)


class HTTPPool:
    """stands for ConnectionPool: exchange k of the script is the server's answer to the k-th
    request head written; a released connection that is still open is reused (keep-alive)."""

    def __init__(self, exchanges):
        self.exchanges = list(exchanges)
        self.idle = {}
        self.requests = 0

    def _take(self):
        self.requests += 1
        return self.exchanges.pop(0) if self.exchanges else []

    @asyncio.coroutine
    def acquire(self, host, port, use_ssl=False, host_key=None):
        # the precondition of the real ConnectionPool.acquire (network/pool.py), kept so that a request
        # for a URL without host / port fails here exactly as it does there
        assert isinstance(port, int), 'Expect int. Got {}'.format(type(port))
        yield from asyncio.sleep(0)
        key = (host, port, use_ssl)
        conn = self.idle.pop(key, None)
        if conn is None:
            # the real pool resolves the host name first; Connection wants a numerical address
            conn = FakeConnection(('127.0.0.1', port), take=self._take)
        conn.armed = True
        conn.pool_key = key
        return conn

    def no_wait_release(self, connection):
        if connection.state() == ConnectionState.created and not connection.closed():
            self.idle[connection.pool_key] = connection

    def close(self):
        pass


def cut(data, lens):
    out, i = [], 0
    for n in lens:
        out.append(data[i:i + n])
        i += n
    if i < len(data):
        out.append(data[i:])
    return [s for s in out if s]


class FTPPool:
    def __init__(self, ctrl, data_segments):
        self.ctrl = ctrl
        self._data_segments = data_segments
        self._ctrl_given = False

    @asyncio.coroutine
    def acquire(self, host, port, use_ssl=False, host_key=None):
        yield from asyncio.sleep(0)
        if not self._ctrl_given:
            self._ctrl_given = True
            return self.ctrl
        return FakeConnection(('127.0.0.1', port), preload=list(self._data_segments))

    def no_wait_release(self, connection):
        pass

    def close(self):
        pass


# --------------------------------------------------------------------------
# outcome
# --------------------------------------------------------------------------
def outcome(exc, stage, extra=None):
    r = {'exc': None, 'stage': stage, 'handled': True}
    if exc is not None:
        r['exc'] = rname(type(exc))
        r['mro'] = [rname(c) for c in type(exc).__mro__ if issubclass(c, BaseException)]
        r['handled'] = isinstance(exc, REMOTE_ERRORS)
        r['msg'] = repr(exc)[:160]
        frames = traceback.extract_tb(exc.__traceback__)
        wp = [f for f in frames if '/wpull/' in f.filename and '/harness/' not in f.filename]
        if wp:
            f = wp[-1]
            r['where'] = '%s:%s' % (f.filename.split('/wpull/', 1)[1], f.name)
            r['line'] = f.lineno
        if frames:
            f = frames[-1]
            r['inner'] = '%s:%d:%s' % (os.path.basename(f.filename), f.lineno, f.name)
    if extra:
        r.update(extra)
    return r


def guarded(loop, coro_fn, state):
    try:
        loop.run_until_complete(coro_fn())
        return outcome(None, state['stage'], state.get('extra'))
    except (KeyboardInterrupt, SystemExit):
        raise
    except BaseException as e:      # noqa: the class is the observable
        return outcome(e, state['stage'], state.get('extra'))


# --------------------------------------------------------------------------
def run_http(case, loop):
    exchanges = [[bytes.fromhex(s) for s in ex] for ex in case['exchanges']]
    pool = HTTPPool(exchanges)
    client = Client(connection_pool=pool)
    jar = None
    if case.get('cookies', True):
        cj = http.cookiejar.CookieJar()
        cj.set_policy(DeFactoCookiePolicy(cookie_jar=cj))
        jar = CookieJarWrapper(cj)
    web = WebClient(client, cookie_jar=jar,
                    redirect_tracker_factory=lambda: RedirectTracker(max_redirects=case.get('max_redirects', 5)))
    state = {'stage': 'request', 'extra': {'n': 0}}

    @asyncio.coroutine
    def go():
        request = Request(case['url'])
        if case.get('login'):
            request.username, request.password = 'u', 'p'
        if case.get('post'):
            # as WebProcessorSession._add_post_data does for --post-data
            data = b'a=b&c=d'
            request.method = 'POST'
            request.fields['Content-Type'] = 'application/x-www-form-urlencoded'
            request.fields['Content-Length'] = str(len(data))
            request.body = Body(io.BytesIO(data))
        session = web.session(request)
        with session:
            while not session.done():
                if session.next_request().url_info.scheme not in ('http', 'https'):
                    # WebProcessorSession._process_loop consults the URL filters before every hop; the scheme
                    # filter (http / https / ftp) skips such a redirect target, and the web client is never
                    # asked to open a connection for a URL without host and port
                    state['extra']['skipped'] = session.next_request().url_info.scheme
                    break
                state['extra']['n'] += 1
                state['stage'] = 'start'
                response = yield from session.start()
                state['stage'] = 'download'
                yield from session.download(file=io.BytesIO())
                state['extra']['status'] = response.status_code
        state['stage'] = 'done'

    r = guarded(loop, go, state)
    r['requests'] = pool.requests
    return r


def run_robots(case, loop):
    exchanges = [[bytes.fromhex(s) for s in ex] for ex in case['exchanges']]
    pool = HTTPPool(exchanges)
    web = WebClient(Client(connection_pool=pool),
                    redirect_tracker_factory=lambda: RedirectTracker(max_redirects=case.get('max_redirects', 5)))
    checker = RobotsTxtChecker(web_client=web)
    state = {'stage': 'can_fetch', 'extra': {}}

    @asyncio.coroutine
    def go():
        request = Request(case['url'])
        request.fields['User-Agent'] = case.get('ua', 'Wpull/2 (gzip)')
        verdict = yield from checker.can_fetch(request)
        state['extra']['verdict'] = bool(verdict)
        # a second URL of the same host is answered from the pool, without a fetch
        verdict2 = yield from checker.can_fetch(Request(case['url'].rstrip('/') + '/private/x'))
        state['extra']['verdict2'] = bool(verdict2)
        state['stage'] = 'done'

    r = guarded(loop, go, state)
    r['requests'] = pool.requests
    return r


def run_ftp(case, loop):
    ctrl_bytes = bytes.fromhex(case['ctrl'])
    data_bytes = bytes.fromhex(case['data'])
    ctrl = FakeConnection(('127.0.0.1', 21), preload=cut(ctrl_bytes, case['ctrl_segs']))
    pool = FTPPool(ctrl, cut(data_bytes, case['data_segs']))
    state = {'stage': 'request', 'extra': {}}

    @asyncio.coroutine
    def go():
        request = FTPRequest(case['url'])
        session = FTPSession(weakref.WeakKeyDictionary(), connection_pool=pool)
        file = io.BytesIO()
        with session:
            if case['listing']:
                state['stage'] = 'start_listing'
                yield from session.start_listing(request)
                state['stage'] = 'download_listing'
                response = yield from session.download_listing(file)
                state['extra']['files'] = len(response.files)
            else:
                state['stage'] = 'start'
                yield from session.start(request)
                state['stage'] = 'download'
                yield from session.download(file)
        state['extra']['size'] = len(file.getvalue())
        state['stage'] = 'done'

    return guarded(loop, go, state)


_SCRAPERS = {}


def demux():
    if 'd' not in _SCRAPERS:
        html_parser = HTMLParser()
        walker = ElementWalker()
        scrapers = [HTMLScraper(html_parser, walker)]
        css = CSSScraper()
        scrapers.append(css)
        walker.css_scraper = css
        js = JavaScriptScraper()
        scrapers.append(js)
        walker.javascript_scraper = js
        scrapers.append(SitemapScraper(html_parser))
        _SCRAPERS['d'] = DemuxDocumentScraper(scrapers)
    return _SCRAPERS['d']


class _Count(logging.Handler):
    def __init__(self):
        super().__init__(logging.WARNING)
        self.n = 0

    def emit(self, record):
        self.n += 1


_COUNT = _Count()
logging.getLogger('wpull').addHandler(_COUNT)
logging.getLogger('wpull').propagate = False


def run_scrape(case, loop):
    state = {'stage': 'scrape', 'extra': {}}
    _COUNT.n = 0
    try:
        request = Request(case['url'])
        response = Response(status_code=case.get('status', 200), reason='OK', version='HTTP/1.1')
        response.request = request
        if case.get('ctype') is not None:
            response.fields['Content-Type'] = case['ctype']
        for k, v in case.get('fields', []):
            response.fields.add(k, v)
        response.body = Body(io.BytesIO(bytes.fromhex(case['body'])))
        lt = case.get('link_type')
        info = demux().scrape_info(request, response, LinkType[lt] if lt else None)
        n = 0
        for res in info.values():
            if res:
                n += len(res.link_contexts)
        state['extra']['links'] = n
        state['extra']['caught'] = _COUNT.n       # "Failed to read document" warnings: an inner handler fired
        state['stage'] = 'done'
        return outcome(None, 'done', state['extra'])
    except (KeyboardInterrupt, SystemExit):
        raise
    except BaseException as e:      # noqa
        return outcome(e, state['stage'], state['extra'])


RUNNERS = {'http': run_http, 'robots': run_robots, 'ftp': run_ftp, 'scrape': run_scrape}


def main():
    req = json.load(sys.stdin)
    old = os.getcwd()
    tmp = tempfile.mkdtemp(prefix='verif-c09-')
    os.chdir(tmp)                       # fetch_robots_txt creates its temp file in the cwd
    try:
        loop = harness.compat.new_loop()
        res = []
        for case in req['cases']:
            t0 = time.time()
            r = RUNNERS[case['kind']](case, loop)
            r['kind'] = case['kind']
            r['ms'] = int(1000 * (time.time() - t0))
            res.append(r)
        loop.close()
    finally:
        os.chdir(old)
        import shutil
        shutil.rmtree(tmp, ignore_errors=True)
    print(json.dumps({'results': res, 'remote_errors': [rname(c) for c in REMOTE_ERRORS]}))


if __name__ == '__main__':
    main()
