"""Implementation side of C14: run operation histories through wpull's real
SQLiteURLTable (in-memory or on disk, optionally behind URLTableHookWrapper)
and report every return value and get_all() after every step.

stdin : {"alphabet": [url, ...], "cases": [{"mode": "memory|disk|wrap-memory|wrap-disk", "ops": [op, ...]}, ...]}
stdout: {"bad": {url: bool}, "results": [[{"ret": ..., "all": [record, ...]}, ...], ...]}

A record is the list [url, parent_url, root_url, status, try_count, level,
inline_level, link_type, priority, post_data, status_code, filename] (enums by value)."""
import json
import os
import shutil
import sys
import tempfile

import harness.compat
import wpull.database.sqltable as sqltable
from wpull.database.base import AddURLInfo, NotFound
from wpull.database.wrap import URLTableHookWrapper
from wpull.pipeline.item import Status, LinkType, URLProperties, URLData, URLResult
from wpull.url import URLInfo

harness.compat.patch_sqlalchemy()

PROP_ATTRS = ('parent_url', 'root_url', 'status', 'try_count', 'level', 'inline_level', 'link_type', 'priority')


def plain(r):
    return [r.url, r.parent_url, r.root_url, r.status.value if r.status is not None else None,
            r.try_count, r.level, r.inline_level, r.link_type.value if r.link_type is not None else None,
            r.priority, r.post_data, r.status_code, r.filename]


def mk_props(d):
    if d is None:
        return None
    p = URLProperties()
    for k, v in d.items():
        assert k in PROP_ATTRS, k
        if v is not None:
            if k == 'status':
                v = Status(v)
            elif k == 'link_type':
                v = LinkType(v)
        setattr(p, k, v)
    return p


def mk_data(d):
    if d is None:
        return None
    x = URLData()
    x.post_data = d.get('post_data')
    return x


def mk_item(it):
    return AddURLInfo(it['url'], mk_props(it.get('props')), mk_data(it.get('data')))


def mk_result(d):
    if d is None:
        return None
    x = URLResult()
    x.status_code = d.get('status_code')
    x.filename = d.get('filename')
    return x


class Runner:
    def __init__(self, mode):
        self.wrap = mode.startswith('wrap-')
        self.disk = mode.endswith('disk')
        self.dir = tempfile.mkdtemp(prefix='verif-c14-') if self.disk else None
        self.path = os.path.join(self.dir, 'table.db') if self.disk else ':memory:'
        self.open()

    def open(self):
        self.raw = sqltable.SQLiteURLTable(self.path)
        self.table = URLTableHookWrapper(self.raw) if self.wrap else self.raw

    def reopen(self):
        if self.disk:           # an in-memory table does not survive close(); reopen is only meaningful on disk
            self.table.close()
            self.open()

    def finish(self):
        try:
            self.table.close()
        finally:
            if self.dir:
                shutil.rmtree(self.dir, ignore_errors=True)

    def call(self, op):
        t = self.table
        k = op['op']
        if k == 'add_many':
            # a generator or a list, as wpull's callers do (InputURLTask passes a generator)
            items = [mk_item(i) for i in op['batch']]
            res = t.add_many(iter(items) if op.get('as_iter') else items)
            return ['urls', list(res)]
        if k == 'add_one':
            it = mk_item(op['item'])
            return ['none' if t.add_one(it.url, it.properties, it.data) is None else 'other']
        if k == 'check_out':
            st = Status(op['status'])
            if op.get('level') is None and not op.get('explicit_none'):
                return ['rec', plain(t.check_out(st))]
            return ['rec', plain(t.check_out(st, op.get('level')))]
        if k == 'check_in':
            kw = {}
            if 'inc' in op:
                kw['increment_try_count'] = op['inc']
            if 'result' in op:
                kw['url_result'] = mk_result(op['result'])
            r = t.check_in(op['url'], Status(op['status']), **kw)
            return ['none' if r is None else 'other']
        if k == 'update_one':
            r = t.update_one(op['url'], **op['fields'])
            return ['none' if r is None else 'other']
        if k == 'release':
            return ['none' if t.release() is None else 'other']
        if k == 'remove_many':
            return ['none' if t.remove_many(list(op['urls'])) is None else 'other']
        if k == 'remove_one':
            return ['none' if t.remove_one(op['url']) is None else 'other']
        if k == 'count':
            return ['count', t.count()]
        if k == 'get_one':
            return ['rec', plain(t.get_one(op['url']))]
        if k == 'contains':
            return ['bool', bool(t.contains(op['url']))]
        if k == 'get_all':
            return ['all', [plain(r) for r in t.get_all()]]
        if k == 'add_visits':
            r = t.add_visits([tuple(v) for v in op['visits']])
            return ['none' if r is None else 'other']
        if k == 'get_revisit_id':
            return ['id', t.get_revisit_id(op['url'], op['digest'])]
        if k == 'reopen':
            self.reopen()
            return ['none']
        raise AssertionError('unknown op %r' % (k,))

    def step(self, op):
        try:
            ret = self.call(op)
        except NotFound:
            ret = ['NotFound']
        except ValueError as e:
            ret = ['ValueError']
        except Exception as e:           # anything else is reported by class name
            ret = ['exc', type(e).__name__, str(e)[:200]]
        try:
            allr = [plain(r) for r in self.table.get_all()]
        except Exception as e:
            allr = ['exc', type(e).__name__, str(e)[:200]]
        return {'ret': ret, 'all': allr}


def is_bad(url):
    try:
        URLInfo.parse(url)
    except ValueError:
        return True
    return False


def main():
    req = json.load(sys.stdin)
    out = {'bad': {u: is_bad(u) for u in req.get('alphabet', [])}, 'results': []}
    for case in req['cases']:
        r = Runner(case['mode'])
        try:
            out['results'].append([r.step(op) for op in case['ops']])
        finally:
            r.finish()
    print(json.dumps(out))


if __name__ == '__main__':
    main()
