"""Child process: run one complete wpull crawl in-process against a scripted
site server (threads, 127.0.0.1, every host name resolves to it).

stdin: JSON spec
  workdir   : directory (exists) for db.sqlite, requests.log, out/, result.json
  args      : wpull command-line arguments; "{PORT}" is substituted
  site      : { host : { path : page } }   host without port; path incl. query
  page      : { status, ctype, body (str, "{PORT}" substituted) | body_hex, location, headers{}, delay (s), close (bool) }
  kill_at_request : k   -> os._exit(9) when the k-th request (1-based) arrives, before answering
  kill_after_request : k -> os._exit(9) right after the k-th response has been written
  kill_at_commit  : k   -> os._exit(9) just BEFORE the k-th SQLAlchemy Session.commit
  kill_after_commit : k -> ... just AFTER it
  port      : fixed port to listen on (needed for resume runs: same URLs)
  unreachable : { host : {kind: 'refused' | 'nxdomain', path} }  connections to that host are refused / its name does not resolve;
              every attempt is written to requests.log as a request for <path> (and counts for kill_at_request)
  bind_ip   : loopback address to listen on and to resolve every host name to (default 127.0.0.1); with a fixed port and a
              per-run address, concurrent runs of one site see the same URL strings
stdout: one JSON line {exit_code, port, commits}
"""
import json
import os
import socket
import socketserver
import sys
import threading
import time
import http.server

import harness.compat as compat

spec = json.load(sys.stdin)
WORK = spec['workdir']
LOG = open(os.path.join(WORK, 'requests.log'), 'ab', buffering=0)
_lock = threading.Lock()
_count = [0]


class Handler(http.server.BaseHTTPRequestHandler):
    protocol_version = 'HTTP/1.1'

    def log_message(self, *a):
        pass

    def _serve(self):
        host = (self.headers.get('Host') or '').rsplit(':', 1)[0] if not (self.headers.get('Host') or '').startswith('[') else self.headers.get('Host')
        with _lock:
            _count[0] += 1
            n = _count[0]
            rec = {'n': n, 'method': self.command, 'host': host, 'hosthdr': self.headers.get('Host'), 'path': self.path,
                   'headers': {k.lower(): v for k, v in self.headers.items() if k.lower() in
                               ('cookie', 'authorization', 'referer', 'user-agent', 'host')}}
            LOG.write((json.dumps(rec) + '\n').encode())
            if spec.get('kill_at_request') == n:
                os._exit(9)
        page = spec['site'].get(host, {}).get(self.path)
        if page is None:
            page = {'status': 404, 'body': 'not found'}
        if page.get('delay'):
            time.sleep(page['delay'])
        if 'body_hex' in page:
            body = bytes.fromhex(page['body_hex'])
        else:
            body = (page.get('body') or '').replace('{PORT}', str(PORT)).encode('utf-8')
        self.send_response(page.get('status', 200))
        self.send_header('Content-Type', page.get('ctype', 'text/html'))
        if page.get('location') is not None:
            self.send_header('Location', page['location'].replace('{PORT}', str(PORT)))
        for k, v in (page.get('headers') or {}).items():
            self.send_header(k, v.replace('{PORT}', str(PORT)))
        self.send_header('Content-Length', str(len(body)))
        if page.get('close'):
            self.send_header('Connection', 'close')
        self.end_headers()
        if self.command != 'HEAD':
            self.wfile.write(body)
        self.wfile.flush()
        if spec.get('kill_after_request') == n:
            os._exit(9)
        if page.get('close'):
            self.close_connection = True

    do_GET = do_HEAD = do_POST = _serve


class Server(socketserver.ThreadingTCPServer):
    daemon_threads = True
    allow_reuse_address = True


BIND = spec.get('bind_ip') or '127.0.0.1'
srv = Server((BIND, spec.get('port') or 0), Handler)
PORT = srv.server_address[1]
threading.Thread(target=srv.serve_forever, daemon=True).start()

# ---- wpull side ----
import wpull.network.dns as wdns  # noqa: E402
compat.patch_sqlalchemy()


DEAD = '127.255.77.1'       # outside the range of the per-run listening addresses: nothing ever listens there


@compat.coroutine
def _resolve(self, host):
    un = (spec.get('unreachable') or {}).get(host)
    if un:
        # a host whose connections are refused / whose name does not resolve: every attempt is logged like a request (no server sees it)
        with _lock:
            _count[0] += 1
            n = _count[0]
            LOG.write((json.dumps({'n': n, 'method': 'GET', 'host': host, 'hosthdr': '%s:%d' % (host, PORT), 'path': un['path'],
                                   'headers': {}, 'unreachable': un['kind']}) + '\n').encode())
            if spec.get('kill_at_request') == n:
                os._exit(9)
        if un['kind'] == 'nxdomain':
            from wpull.errors import DNSNotFound
            raise DNSNotFound('scripted: no such name')
        return wdns.ResolveResult([wdns.AddressInfo(DEAD, socket.AF_INET, None, None)])
    return wdns.ResolveResult([wdns.AddressInfo(BIND, socket.AF_INET, None, None)])
    yield  # pragma: no cover


wdns.Resolver.resolve = _resolve
wdns.Resolver.dns_python_enabled = property(lambda s: False, lambda s, v: None)

_commits = [0]
if True:
    import sqlalchemy.orm.session as sos
    _orig_commit = sos.Session.commit

    def _commit(self, *a, **k):
        _commits[0] += 1
        if spec.get('kill_at_commit') == _commits[0]:
            os._exit(9)
        r = _orig_commit(self, *a, **k)
        if spec.get('kill_after_commit') == _commits[0]:
            os._exit(9)
        return r
    sos.Session.commit = _commit

for hook in spec.get('pre_hooks') or []:       # names of harness.fakes.* callables applied before building
    mod, fn = hook.rsplit('.', 1)
    getattr(__import__(mod, fromlist=[fn]), fn)(spec)

from wpull.application.builder import Builder  # noqa: E402
from wpull.application.options import AppArgumentParser  # noqa: E402

argv = [a.replace('{PORT}', str(PORT)).replace('{WORK}', WORK) for a in spec['args']]
os.chdir(os.path.join(WORK, 'out'))
compat.new_loop()
args = AppArgumentParser().parse_args(argv)
app = Builder(args).build()
code = app.run_sync()
sys.stdout.write('\n' + json.dumps({'exit_code': code, 'port': PORT, 'commits': _commits[0]}) + '\n')
sys.stdout.flush()
os._exit(0)
