"""Implementation side of C15: run wpull's real PathNamer.get_filename, the real
writer session's file-name decisions (_compute_filename,
_rename_with_content_disposition) and the library functions the Coq model
re-implements (UTF-8 codecs, urllib.parse.unquote, posixpath) on the cases given
on stdin.  Strings travel as lists of code points (lone surrogates survive)."""
import hashlib
import json
import os
import posixpath
import re
import sys
import types
import urllib.parse

import harness.compat  # noqa
import wpull.path as P
import wpull.writer as W
from wpull.url import URLInfo

S = lambda cps: ''.join(map(chr, cps))          # noqa: E731
L = lambda s: [ord(c) for c in s]               # noqa: E731

ERR = {'UnicodeEncodeError': 'EUnicodeEncode', 'UnicodeDecodeError': 'EUnicodeDecode',
       'IndexError': 'EIndex', 'AssertionError': 'ENoneType', 'TypeError': 'ENoneType',
       'AttributeError': 'ENoneType', 'ValueError': 'EValue'}


class Recorder:
    """records the oracle calls made by wpull.path during one case"""
    def __init__(self):
        self.sha = {}
        self.low = {}
        self.upp = {}
        self.netloc = {}      # _checknetloc argument -> did not raise
        self.bracket = {}     # _check_bracketed_host argument -> did not raise

    def dump(self):
        return {'sha': [[list(k), L(v)] for k, v in self.sha.items()],
                'low': [[L(k), L(v)] for k, v in self.low.items()],
                'upp': [[L(k), L(v)] for k, v in self.upp.items()],
                'netloc': [[L(k), v] for k, v in self.netloc.items()],
                'bracket': [[L(k), v] for k, v in self.bracket.items()]}


REC = Recorder()


class _HashProxy:
    def __getattr__(self, name):
        return getattr(hashlib, name)

    def sha1(self, data=b''):
        h = hashlib.sha1(data)
        REC.sha[bytes(data)] = h.hexdigest()
        return h


_orig_safe_filename = P.safe_filename


def _safe_filename(filename, *a, **kw):
    """same function; additionally records what str.lower/upper is applied to
    (the value just before case folding = the result with case=None)"""
    case = kw.get('case')
    if case in ('lower', 'upper'):
        kw2 = dict(kw)
        kw2['case'] = None
        try:
            pre = _orig_safe_filename(filename, *a, **kw2)
            if case == 'lower':
                REC.low[pre] = pre.lower()
            else:
                REC.upp[pre] = pre.upper()
        except Exception:
            pass
    return _orig_safe_filename(filename, *a, **kw)


P.hashlib = _HashProxy()
P.safe_filename = _safe_filename

# the two library checks of urlsplit that can only raise are oracles of the model:
# record what the real ones answer (they still decide)
_orig_checknetloc = urllib.parse._checknetloc
_orig_check_bracketed = urllib.parse._check_bracketed_host


def _rec_checknetloc(netloc):
    try:
        _orig_checknetloc(netloc)
    except ValueError:
        REC.netloc[netloc] = False
        raise
    REC.netloc[netloc] = True


def _rec_check_bracketed(host):
    try:
        _orig_check_bracketed(host)
    except ValueError:
        REC.bracket[host] = False
        raise
    REC.bracket[host] = True


urllib.parse._checknetloc = _rec_checknetloc
urllib.parse._check_bracketed_host = _rec_check_bracketed


def real_split(url):
    """the real urlsplit, every time (no lru cache), with the lower-casing of the
    host recorded for the model's str.lower oracle"""
    urllib.parse.urlsplit.cache_clear()
    sp = urllib.parse.urlsplit(url)
    h = sp._hostinfo[0]
    if h:
        a = h.partition('%')[0]
        REC.low[a] = a.lower()
    return sp


BUILDER_ERRORS = []


def restrict_modes(cfg):
    """the configuration as a user would spell it in --restrict-file-names (the os mode is implied for unix in about half of
    the configurations: 'ascii,lower' means unix)"""
    modes = []
    if cfg['ascii_only']:
        modes.append('ascii')
    if not cfg['no_control']:
        modes.append('nocontrol')
    if cfg['case']:
        modes.append(cfg['case'])
    if cfg['os_type'] == 'windows':
        modes.insert(len(modes) // 2, 'windows')
    elif (len(cfg['index']) + (cfg['cut'] or 0) + len(modes)) % 2 == 0 or not modes:
        modes.append('unix')
    return modes


def namer(cfg, root):
    """the PathNamer the application builds for these options: the real FileWriterSetupTask translates the option values
    (a direct construction is used only when that code cannot be driven; the failure is reported)"""
    NS = types.SimpleNamespace
    try:
        from wpull.application.tasks.writer import FileWriterSetupTask
        from wpull.application.factory import Factory
        factory = Factory({'PathNamer': P.PathNamer, 'FileWriter': None})
        args = NS(delete_after=False, output_document=None, urls=['u1', 'u2'], page_requisites=False, recursive=False,
                  use_directories='force' if cfg['use_dir'] else 'no', restrict_file_names=restrict_modes(cfg),
                  directory_prefix=root, default_page=S(cfg['index']), cut_dirs=cfg['cut'], protocol_directories=cfg['protocol'],
                  host_directories=cfg['hostname'], max_filename_length=cfg['max_len'], continue_download=False,
                  clobber_method='enable', timestamping=False, save_headers=False, use_server_timestamps=True,
                  adjust_extension=False, content_disposition=False, trust_server_names=False)
        FileWriterSetupTask._build_file_writer(NS(args=args, factory=factory))
        return factory['PathNamer']
    except Exception as e:          # the set-up task has changed shape: fall back, and say so
        if len(BUILDER_ERRORS) < 3:
            BUILDER_ERRORS.append('%s: %s' % (type(e).__name__, e))
        return P.PathNamer(root, index=S(cfg['index']), use_dir=cfg['use_dir'], cut=cfg['cut'],
                           protocol=cfg['protocol'], hostname=cfg['hostname'], os_type=cfg['os_type'],
                           no_control=cfg['no_control'], ascii_only=cfg['ascii_only'], case=cfg['case'],
                           max_filename_length=cfg['max_len'])


def split_parts(url, scheme):
    """what path.py reads from urlsplit(url); None if urllib raises"""
    try:
        sp = real_split(url)
        host = sp.hostname
        port = sp.port
    except ValueError:
        return None
    return {'scheme': L(sp.scheme), 'hostname': None if host is None else L(host), 'port': port,
            'path': L(sp.path), 'query': L(sp.query), 'ends_slash': url.endswith('/'),
            'is_ftp': scheme == 'ftp'}


def outcome(fn):
    try:
        return {'ok': L(fn())}
    except Exception as e:            # canonical error class
        name = type(e).__name__
        return {'err': ERR.get(name, 'Other:' + name)}


def run_url(case):
    global REC
    REC = Recorder()
    cfg = case['cfg']
    root = S(case['root'])
    url = S(case['url'])
    if case['mode'] == 'parse':
        try:
            ui = URLInfo.parse(url)
        except Exception as e:
            return {'skip': 'parse-error:' + type(e).__name__}
        if ui is None or ui.scheme not in ('http', 'https', 'ftp'):
            return {'skip': 'scheme-not-handled'}
    else:
        ui = types.SimpleNamespace(url=url, scheme=S(case['scheme']))
    parts = split_parts(ui.url, ui.scheme)          # None when urlsplit / .port raises
    pn = namer(cfg, root)
    res = outcome(lambda: pn.get_filename(ui))
    res['parts'] = parts
    res['norm_url'] = L(ui.url)
    res['is_ftp'] = ui.scheme == 'ftp'
    res['oracles'] = REC.dump()
    return res


def run_split(case):
    """urlsplit + the attributes path.py reads, on an arbitrary string"""
    global REC
    REC = Recorder()
    url = S(case['url'])
    try:
        sp = real_split(url)
        if case['need_port']:
            port = sp.port
        else:
            port = None
        res = {'parts': {'scheme': L(sp.scheme), 'hostname': None if sp.hostname is None else L(sp.hostname), 'port': port,
                         'path': L(sp.path), 'query': L(sp.query), 'ends_slash': url.endswith('/'), 'is_ftp': case['is_ftp']}}
    except ValueError:
        res = {'err': 'EValue'}
    res['oracles'] = REC.dump()
    return res


# ---------------------------------------------------------------------------
# writer sessions
# ---------------------------------------------------------------------------
class FsProbe:
    """records the answers of os.path.isfile / isdir / exists while the session decides
    the name (first answer per path; all three facts are read at that moment)"""
    def __init__(self):
        self.on = False
        self.seen = {}
        self.orig = (os.path.isfile, os.path.isdir, os.path.exists)

    def _note(self, p):
        if self.on and isinstance(p, str) and p not in self.seen:
            try:
                self.seen[p] = [self.orig[0](p), self.orig[1](p), self.orig[2](p)]
            except ValueError:          # embedded NUL
                self.seen[p] = [False, False, False]

    def install(self):
        def wrap(i):
            def f(p):
                self._note(p)
                try:
                    return self.orig[i](p)
                except ValueError:
                    return False
            return f
        os.path.isfile, os.path.isdir, os.path.exists = wrap(0), wrap(1), wrap(2)

    def remove(self):
        os.path.isfile, os.path.isdir, os.path.exists = self.orig


def _touch(path, as_dir=False):
    try:
        if as_dir:
            os.makedirs(path, exist_ok=True)
        else:
            d = os.path.dirname(path)
            if d:
                os.makedirs(d, exist_ok=True)
            if not os.path.lexists(path):
                with open(path, 'w') as f:
                    f.write('x')
        return True
    except (OSError, ValueError):
        return False


def _build_tree(variant, root, p0, p2):
    """a scratch tree related to the name PathNamer chooses (p0; p2 for the last hop)"""
    made = []
    if p0 is None or variant == 'empty':
        return made
    below = None
    nroot = os.path.normpath(root) if root else '.'
    np0 = os.path.normpath(p0) if '\x00' not in p0 else None
    if np0 is not None:
        rel = os.path.relpath(np0, nroot)
        comps = [] if rel.startswith('..') else rel.split('/')
        if len(comps) >= 2:
            below = [os.path.join(nroot, *comps[:k]) for k in range(1, len(comps))]
    if variant == 'file':
        made.append(_touch(p0))
    elif variant == 'file12':
        made += [_touch(p0), _touch(p0 + '.1'), _touch(p0 + '.2')]
    elif variant == 'dir':
        made.append(_touch(p0, True))
    elif variant == 'dirf':
        made += [_touch(p0, True), _touch(p0 + '.f')]
    elif variant == 'prefixfile' and below:
        made.append(_touch(below[0]))
    elif variant == 'prefixfile2' and below:
        made.append(_touch(below[-1]))
    elif variant == 'prefixfile_d' and below:
        made += [_touch(below[0]), _touch(below[0] + '.d', True)]
    elif variant == 'file2' and p2:
        made += [_touch(p2), _touch(p0)]
    elif variant == 'rootdir':
        made.append(_touch(root or '.', True))
    return made


def _url_info(url_cps, mode, scheme_cps):
    url = S(url_cps)
    if mode == 'parse':
        ui = URLInfo.parse(url)
        if ui is None or ui.scheme not in ('http', 'https', 'ftp'):
            raise LookupError('scheme-not-handled')
        return ui
    return types.SimpleNamespace(url=url, scheme=S(scheme_cps))


def run_sess(case):
    import shutil
    import tempfile
    import builtins
    import wpull.processor.ftp as PF
    from wpull.protocol.http.request import Response as HResponse
    from wpull.protocol.ftp.request import Response as FResponse
    global REC
    REC = Recorder()
    cfg = case['cfg']
    try:
        ui1 = _url_info(case['url'], case['mode'], case.get('scheme'))
        ui2 = _url_info(case['url2'], case['mode'], case.get('scheme2')) if case.get('url2') is not None else ui1
    except LookupError as e:
        return {'skip': str(e)}
    except Exception as e:
        return {'skip': 'parse-error:' + type(e).__name__}
    parts1 = split_parts(ui1.url, ui1.scheme)
    parts2 = split_parts(ui2.url, ui2.scheme)
    if parts1 is None or parts2 is None:
        return {'skip': 'urlsplit-raises'}
    tmp = tempfile.mkdtemp(prefix='verif-c15-')
    cwd = os.getcwd()
    probe = FsProbe()
    real_open = builtins.open
    real_makedirs = os.makedirs
    real_symlink = os.symlink
    opened = []
    mkd = []
    syml = []
    det = {}
    try:
        os.chdir(tmp)
        root = S(case['root']).replace('@ABS@', tmp)
        pn = namer(cfg, root)
        try:
            p0 = pn.get_filename(ui1)
        except Exception:
            p0 = None
        try:
            p2 = pn.get_filename(ui2)
        except Exception:
            p2 = None
        _build_tree(case['variant'], root, p0, p2)

        def rec_open(name, mode='r', *a, **kw):
            probe.on = False
            opened.append([L(name), mode])
            try:
                return real_open(name, mode, *a, **kw)
            except (OSError, ValueError):
                return tempfile.TemporaryFile()

        def rec_makedirs(name, *a, **kw):
            probe.on = False
            mkd.append(L(name))
            try:
                return real_makedirs(name, *a, **kw)
            except (OSError, ValueError):
                return None

        def rec_symlink(target, name, *a, **kw):
            syml.append(L(name))

        html_orig = W.HTMLReader.is_response
        css_orig = W.CSSReader.is_response
        W.HTMLReader.is_response = classmethod(lambda cls, r: det.setdefault('html', bool(html_orig(r))))
        W.CSSReader.is_response = classmethod(lambda cls, r: det.setdefault('css', bool(css_orig(r))))
        cls = {'overwrite': W.OverwriteFileWriter, 'ignore': W.IgnoreFileWriter, 'timestamping': W.TimestampingFileWriter,
               'anticlobber': W.AntiClobberFileWriter}[case['writer']]
        fl = case['flags']
        writer = cls(pn, file_continuing=fl['cont'], headers_included=False, local_timestamping=False,
                     adjust_extension=fl['adjust'], content_disposition=fl['cd'], trust_server_names=fl['trust'])
        session = writer.session()
        request = types.SimpleNamespace(url_info=ui1, fields={}, restart_value=None)
        request.set_continue = lambda n: setattr(request, 'restart_value', n)
        if ui2.scheme == 'ftp':
            response = FResponse()
            response.restart_value = case.get('restart')
        else:
            response = HResponse(case['code'], 'X')
            if case['header'] is not None:
                response.fields['Content-Disposition'] = S(case['header'])
            if case.get('ctype'):
                response.fields['Content-Type'] = case['ctype']
        response.request = types.SimpleNamespace(url_info=ui2, restart_value=None)
        W.open = rec_open
        os.makedirs = rec_makedirs
        os.symlink = rec_symlink
        probe.install()
        probe.on = True
        out = {}
        try:
            try:
                session.process_request(request)
                response.request.restart_value = request.restart_value
                out['cont'] = bool(session._file_continue_requested)
                out['name0'] = None if session._filename is None else L(session._filename)
                session.process_response(response)
                if opened:
                    out['ok'] = ['WAppend' if opened[-1][1] == 'ab+' else 'WOpen', opened[-1][0]]
                else:
                    out['ok'] = ['WNoFile']
            except Exception as e:
                # 'Server not able to continue' - a per-URL ProtocolError since the C09 repair (was IOError)
                if type(e).__name__ in ('ProtocolError', 'OSError') and 'continue' in str(e):
                    out['ok'] = ['WCannotContinue']
                else:
                    raise
        except Exception as e:
            name = type(e).__name__
            out = {'err': ERR.get(name, 'Other:' + name)}
        probe.on = False
        try:
            if getattr(response, 'body', None):
                response.body.close()
        except Exception:
            pass
        out['final'] = None if session._filename is None else L(session._filename)
        out['opened'] = opened
        out['makedirs'] = mkd
        out['restart'] = bool(response.request.restart_value and getattr(response, 'restart_value', None))
        out['html'] = det.get('html', False)
        out['css'] = det.get('css', False)
        out['probes'] = [[L(k), v] for k, v in probe.seen.items()]
        out['root'] = L(root)
        out['parts1'] = parts1
        out['scheme2'] = ui2.scheme
        out['parts2'] = parts2
        # derived paths
        ex = session.extra_resource_path(S(case['suffix']))
        out['extra'] = None if ex is None else L(ex)
        # the symlink wpull creates for a listing entry (--retr-symlinks=off): a LIST line goes through the real
        # ListingParser and the real FTPProcessorSession._add_listing_links -> _make_symlink
        from wpull.protocol.ftp.ls.listing import ListingParser
        NS = types.SimpleNamespace
        try:
            entries = list(ListingParser(text='lrwxrwxrwx 1 root root 4 Jan  1  2015 %s -> /etc/passwd\n' % S(case['link'])).parse_input())
        except Exception:
            entries = []
        syms = [e for e in entries if e.type == 'symlink'][:1]
        out['link_parsed'] = L(syms[0].name) if syms else None
        # built by the real constructor from fakes (no private attribute is named here: a maintenance rename must not matter)
        factory = {'PathNamer': pn, 'FetchRule': NS(check_ftp_request=lambda item_session: (False, None)), 'ResultRule': NS(),
                   'FileWriter': NS(session=lambda: session)}
        obj = PF.FTPProcessorSession(NS(fetch_params=NS(retr_symlinks=False)),
                                     NS(app_session=NS(factory=factory), url_record=NS(level=0), add_child_url=lambda *a, **k: None))
        try:
            obj._add_listing_links(NS(files=syms, request=NS(url_info=NS(url='ftp://h/d/'))))
            out['symlink'] = {'ok': syml[-1] if syml else None}
        except Exception as e:
            name = type(e).__name__
            out['symlink'] = {'err': ERR.get(name, 'Other:' + name)}
        out['oracles'] = REC.dump()
        return out
    finally:
        probe.remove()
        os.makedirs = real_makedirs
        os.symlink = real_symlink
        try:
            del W.open
        except AttributeError:
            pass
        try:
            W.HTMLReader.is_response = html_orig
            W.CSSReader.is_response = css_orig
        except NameError:
            pass
        os.chdir(cwd)
        shutil.rmtree(tmp, ignore_errors=True)


class _FakeFields(dict):
    pass


def run_cd(case):
    global REC
    REC = Recorder()
    cfg = case['cfg']
    pn = namer(cfg, S(case['root']))
    session = W.OverwriteFileWriter(pn, content_disposition=True).session()
    session._filename = S(case['old'])
    from wpull.protocol.http.request import Response
    resp = Response(200, 'OK')
    if case['header'] is not None:
        resp.fields['Content-Disposition'] = S(case['header'])
    resp.request = types.SimpleNamespace(url_info=types.SimpleNamespace(scheme=case['scheme']))

    def go():
        session._rename_with_content_disposition(resp)
        return session._filename
    res = outcome(go)
    if case['header'] is not None:
        try:
            p = P.parse_content_disposition(S(case['header'])) if case['header'] else None
            res['parsed'] = None if p is None else L(p)
        except Exception as e:
            res['parsed'] = 'EXC:' + type(e).__name__
    res['oracles'] = REC.dump()
    return res


def run_lib(case):
    """the library functions the model re-implements"""
    f = case['fn']
    x = case['x']
    if f == 'utf8_encode':
        try:
            return {'v': list(S(x).encode('utf8'))}
        except UnicodeEncodeError:
            return {'v': None}
    if f == 'utf8_decode':
        try:
            return {'v': L(bytes(x).decode('utf8'))}
        except UnicodeDecodeError:
            return {'v': None}
    if f == 'utf8_decode_replace':
        return {'v': L(bytes(x).decode('utf-8', 'replace'))}
    if f == 'unquote':
        return {'v': L(urllib.parse.unquote(S(x)))}
    if f == 'N_to_dec':
        return {'v': L('{}'.format(x))}
    if f == 'posix_join':
        return {'v': L(os.path.join(S(x[0]), *[S(p) for p in x[1:]]))}
    if f == 'posix_dirname':
        return {'v': L(os.path.dirname(S(x)))}
    if f == 'posix_normpath':
        return {'v': L(os.path.normpath(S(x)))}
    if f == 'strip':
        return {'v': L(S(x).strip())}
    if f == 'split_last':
        return {'v': L(S(x).split('/')[-1])}
    raise ValueError(f)


def run_fs(case):
    """_compute_filename of the three writer session classes against a scratch
    directory tree described by the case"""
    import shutil
    import tempfile
    global REC
    REC = Recorder()
    tmp = tempfile.mkdtemp(prefix='verif-c15-')
    cwd = os.getcwd()
    try:
        os.chdir(tmp)
        for d in case['dirs']:
            os.makedirs(S(d), exist_ok=True)
        for f in case['files']:
            p = S(f)
            if os.path.dirname(p):
                os.makedirs(os.path.dirname(p), exist_ok=True)
            if not os.path.isdir(p):
                open(p, 'w').close()
        fake = types.SimpleNamespace(get_filename=lambda ui: S(case['path']))
        cls = {'plain': W.OverwriteFileWriter, 'anticlobber': W.AntiClobberFileWriter}[case['writer']]
        session = cls(fake).session()
        req = types.SimpleNamespace(url_info=None)
        res = outcome(lambda: session._compute_filename(req))
        # the file-system facts the decision read, for the model's oracle tables
        probes = {}
        for p in case.get('probe', []):
            sp = S(p)
            probes[sp] = [os.path.isfile(sp), os.path.isdir(sp), os.path.exists(sp)]
        res['probes'] = [[L(k), v] for k, v in probes.items()]
        return res
    finally:
        os.chdir(cwd)
        shutil.rmtree(tmp, ignore_errors=True)


def tables():
    """finite-domain facts about the running interpreter, checked exhaustively"""
    crit = set(range(32)) | {0x2e, 0x2f, 0x5c}
    bad_lower = []
    bad_upper = []
    for c in range(0x110000):
        ch = chr(c)
        for fn, bad in ((str.lower, bad_lower), (str.upper, bad_upper)):
            try:
                m = fn(ch)
            except Exception:
                bad.append(c)
                continue
            if not m or (any(ord(x) in crit for x in m) and m != ch):
                bad.append(c)
    space = [c for c in range(0x110000) if chr(c).isspace()]
    space_re = [c for c in range(0x110000) if re.fullmatch(r'\s', chr(c))]
    space_strip = [c for c in range(0x110000) if chr(c).strip() == '']
    ci = {}
    for letter in sorted(set('filename')):
        ci[letter] = [c for c in range(0x110000) if re.fullmatch(letter, chr(c), re.IGNORECASE)]
    nodot = [c for c in range(0x110000) if not re.fullmatch('.', chr(c))]
    # final sigma: the only context rule of str.lower
    sigma = sorted({ord(x) for ctx in ('Σ', 'aΣ', 'aΣa', 'Σa', 'AΣ ', '.Σ.')
                    for x in ctx.lower() if x not in 'a .'})
    return {'bad_lower': bad_lower[:20], 'bad_upper': bad_upper[:20], 'space': space,
            'space_re_same': space == space_re == space_strip, 'ci': ci, 'nodot': nodot, 'sigma': sigma,
            'version': sys.version.split()[0]}


def piecewise_case(strings):
    """sample: str.lower / str.upper act character by character (lower: except
    the final-sigma rule, which picks between two harmless letters)"""
    bad = []
    for cps in strings:
        s = S(cps)
        up = ''.join(ch.upper() for ch in s)
        if s.upper() != up:
            bad.append(['upper', cps])
        lo = s.lower()
        exp = ''.join(ch.lower() for ch in s)
        if lo != exp and lo.replace('ς', 'σ') != exp.replace('ς', 'σ'):
            bad.append(['lower', cps])
    return {'bad': bad[:10], 'n': len(strings)}


def main():
    req = json.load(sys.stdin)
    out = {}
    if req.get('tables'):
        out['tables'] = tables()
    if 'piecewise' in req:
        out['piecewise'] = piecewise_case(req['piecewise'])
    res = []
    for case in req.get('cases', []):
        k = case['kind']
        if k == 'url':
            res.append(run_url(case))
        elif k == 'cd':
            res.append(run_cd(case))
        elif k == 'lib':
            res.append(run_lib(case))
        elif k == 'fs':
            res.append(run_fs(case))
        elif k == 'split':
            res.append(run_split(case))
        elif k == 'sess':
            res.append(run_sess(case))
        else:
            raise ValueError(k)
    out['results'] = res
    out['builder_errors'] = BUILDER_ERRORS
    print(json.dumps(out))


if __name__ == '__main__':
    main()
