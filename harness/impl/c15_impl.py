"""Implementation side of C15: run wpull's real PathNamer.get_filename, the real
writer session's file-name decisions (_compute_filename,
_rename_with_content_disposition) and the library functions the Coq model
re-implements (UTF-8 codecs, urllib.parse.unquote, posixpath) on the cases given
on stdin.  Strings travel as lists of code points (lone surrogates survive)."""
import hashlib
import json
import os
import posixpath
import re
import sys
import types
import urllib.parse

import harness.compat  # noqa
import wpull.path as P
import wpull.writer as W
from wpull.url import URLInfo

S = lambda cps: ''.join(map(chr, cps))          # noqa: E731
L = lambda s: [ord(c) for c in s]               # noqa: E731

ERR = {'UnicodeEncodeError': 'EUnicodeEncode', 'UnicodeDecodeError': 'EUnicodeDecode',
       'IndexError': 'EIndex', 'AssertionError': 'ENoneType', 'TypeError': 'ENoneType',
       'AttributeError': 'ENoneType'}


class Recorder:
    """records the oracle calls made by wpull.path during one case"""
    def __init__(self):
        self.sha = {}
        self.low = {}
        self.upp = {}

    def dump(self):
        return {'sha': [[list(k), L(v)] for k, v in self.sha.items()],
                'low': [[L(k), L(v)] for k, v in self.low.items()],
                'upp': [[L(k), L(v)] for k, v in self.upp.items()]}


REC = Recorder()


class _HashProxy:
    def __getattr__(self, name):
        return getattr(hashlib, name)

    def sha1(self, data=b''):
        h = hashlib.sha1(data)
        REC.sha[bytes(data)] = h.hexdigest()
        return h


_orig_safe_filename = P.safe_filename


def _safe_filename(filename, *a, **kw):
    """same function; additionally records what str.lower/upper is applied to
    (the value just before case folding = the result with case=None)"""
    case = kw.get('case')
    if case in ('lower', 'upper'):
        kw2 = dict(kw)
        kw2['case'] = None
        try:
            pre = _orig_safe_filename(filename, *a, **kw2)
            if case == 'lower':
                REC.low[pre] = pre.lower()
            else:
                REC.upp[pre] = pre.upper()
        except Exception:
            pass
    return _orig_safe_filename(filename, *a, **kw)


P.hashlib = _HashProxy()
P.safe_filename = _safe_filename


def namer(cfg, root):
    return P.PathNamer(root, index=S(cfg['index']), use_dir=cfg['use_dir'], cut=cfg['cut'],
                       protocol=cfg['protocol'], hostname=cfg['hostname'], os_type=cfg['os_type'],
                       no_control=cfg['no_control'], ascii_only=cfg['ascii_only'], case=cfg['case'],
                       max_filename_length=cfg['max_len'])


def split_parts(url, scheme):
    """what path.py reads from urlsplit(url); None if urllib raises"""
    try:
        sp = urllib.parse.urlsplit(url)
        host = sp.hostname
        port = sp.port
    except ValueError:
        return None
    return {'scheme': L(sp.scheme), 'hostname': None if host is None else L(host), 'port': port,
            'path': L(sp.path), 'query': L(sp.query), 'ends_slash': url.endswith('/'),
            'is_ftp': scheme == 'ftp'}


def outcome(fn):
    try:
        return {'ok': L(fn())}
    except Exception as e:            # canonical error class
        name = type(e).__name__
        return {'err': ERR.get(name, 'Other:' + name)}


def run_url(case):
    global REC
    REC = Recorder()
    cfg = case['cfg']
    root = S(case['root'])
    url = S(case['url'])
    if case['mode'] == 'parse':
        try:
            ui = URLInfo.parse(url)
        except Exception as e:
            return {'skip': 'parse-error:' + type(e).__name__}
        if ui is None or ui.scheme not in ('http', 'https', 'ftp'):
            return {'skip': 'scheme-not-handled'}
    else:
        ui = types.SimpleNamespace(url=url, scheme=S(case['scheme']))
    parts = split_parts(ui.url, ui.scheme)
    if parts is None:
        return {'skip': 'urlsplit-raises'}
    pn = namer(cfg, root)
    res = outcome(lambda: pn.get_filename(ui))
    res['parts'] = parts
    res['norm_url'] = L(ui.url)
    res['oracles'] = REC.dump()
    return res


class _FakeFields(dict):
    pass


def run_cd(case):
    global REC
    REC = Recorder()
    cfg = case['cfg']
    pn = namer(cfg, S(case['root']))
    session = W.OverwriteFileWriter(pn, content_disposition=True).session()
    session._filename = S(case['old'])
    from wpull.protocol.http.request import Response
    resp = Response(200, 'OK')
    if case['header'] is not None:
        resp.fields['Content-Disposition'] = S(case['header'])
    resp.request = types.SimpleNamespace(url_info=types.SimpleNamespace(scheme=case['scheme']))

    def go():
        session._rename_with_content_disposition(resp)
        return session._filename
    res = outcome(go)
    if case['header'] is not None:
        try:
            p = P.parse_content_disposition(S(case['header'])) if case['header'] else None
            res['parsed'] = None if p is None else L(p)
        except Exception as e:
            res['parsed'] = 'EXC:' + type(e).__name__
    res['oracles'] = REC.dump()
    return res


def run_lib(case):
    """the library functions the model re-implements"""
    f = case['fn']
    x = case['x']
    if f == 'utf8_encode':
        try:
            return {'v': list(S(x).encode('utf8'))}
        except UnicodeEncodeError:
            return {'v': None}
    if f == 'utf8_decode':
        try:
            return {'v': L(bytes(x).decode('utf8'))}
        except UnicodeDecodeError:
            return {'v': None}
    if f == 'utf8_decode_replace':
        return {'v': L(bytes(x).decode('utf-8', 'replace'))}
    if f == 'unquote':
        return {'v': L(urllib.parse.unquote(S(x)))}
    if f == 'N_to_dec':
        return {'v': L('{}'.format(x))}
    if f == 'posix_join':
        return {'v': L(os.path.join(S(x[0]), *[S(p) for p in x[1:]]))}
    if f == 'posix_dirname':
        return {'v': L(os.path.dirname(S(x)))}
    if f == 'posix_normpath':
        return {'v': L(os.path.normpath(S(x)))}
    if f == 'strip':
        return {'v': L(S(x).strip())}
    if f == 'split_last':
        return {'v': L(S(x).split('/')[-1])}
    raise ValueError(f)


def run_fs(case):
    """_compute_filename of the three writer session classes against a scratch
    directory tree described by the case"""
    import shutil
    import tempfile
    global REC
    REC = Recorder()
    tmp = tempfile.mkdtemp(prefix='verif-c15-')
    cwd = os.getcwd()
    try:
        os.chdir(tmp)
        for d in case['dirs']:
            os.makedirs(S(d), exist_ok=True)
        for f in case['files']:
            p = S(f)
            if os.path.dirname(p):
                os.makedirs(os.path.dirname(p), exist_ok=True)
            if not os.path.isdir(p):
                open(p, 'w').close()
        fake = types.SimpleNamespace(get_filename=lambda ui: S(case['path']))
        cls = {'plain': W.OverwriteFileWriter, 'anticlobber': W.AntiClobberFileWriter}[case['writer']]
        session = cls(fake).session()
        req = types.SimpleNamespace(url_info=None)
        res = outcome(lambda: session._compute_filename(req))
        # the file-system facts the decision read, for the model's oracle tables
        probes = {}
        for p in case.get('probe', []):
            sp = S(p)
            probes[sp] = [os.path.isfile(sp), os.path.isdir(sp), os.path.exists(sp)]
        res['probes'] = [[L(k), v] for k, v in probes.items()]
        return res
    finally:
        os.chdir(cwd)
        shutil.rmtree(tmp, ignore_errors=True)


def tables():
    """finite-domain facts about the running interpreter, checked exhaustively"""
    crit = set(range(32)) | {0x2e, 0x2f, 0x5c}
    bad_lower = []
    bad_upper = []
    for c in range(0x110000):
        ch = chr(c)
        for fn, bad in ((str.lower, bad_lower), (str.upper, bad_upper)):
            try:
                m = fn(ch)
            except Exception:
                bad.append(c)
                continue
            if not m or (any(ord(x) in crit for x in m) and m != ch):
                bad.append(c)
    space = [c for c in range(0x110000) if chr(c).isspace()]
    space_re = [c for c in range(0x110000) if re.fullmatch(r'\s', chr(c))]
    space_strip = [c for c in range(0x110000) if chr(c).strip() == '']
    ci = {}
    for letter in sorted(set('filename')):
        ci[letter] = [c for c in range(0x110000) if re.fullmatch(letter, chr(c), re.IGNORECASE)]
    nodot = [c for c in range(0x110000) if not re.fullmatch('.', chr(c))]
    # final sigma: the only context rule of str.lower
    sigma = sorted({ord(x) for ctx in ('Σ', 'aΣ', 'aΣa', 'Σa', 'AΣ ', '.Σ.')
                    for x in ctx.lower() if x not in 'a .'})
    return {'bad_lower': bad_lower[:20], 'bad_upper': bad_upper[:20], 'space': space,
            'space_re_same': space == space_re == space_strip, 'ci': ci, 'nodot': nodot, 'sigma': sigma,
            'version': sys.version.split()[0]}


def piecewise_case(strings):
    """sample: str.lower / str.upper act character by character (lower: except
    the final-sigma rule, which picks between two harmless letters)"""
    bad = []
    for cps in strings:
        s = S(cps)
        up = ''.join(ch.upper() for ch in s)
        if s.upper() != up:
            bad.append(['upper', cps])
        lo = s.lower()
        exp = ''.join(ch.lower() for ch in s)
        if lo != exp and lo.replace('ς', 'σ') != exp.replace('ς', 'σ'):
            bad.append(['lower', cps])
    return {'bad': bad[:10], 'n': len(strings)}


def main():
    req = json.load(sys.stdin)
    out = {}
    if req.get('tables'):
        out['tables'] = tables()
    if 'piecewise' in req:
        out['piecewise'] = piecewise_case(req['piecewise'])
    res = []
    for case in req.get('cases', []):
        k = case['kind']
        if k == 'url':
            res.append(run_url(case))
        elif k == 'cd':
            res.append(run_cd(case))
        elif k == 'lib':
            res.append(run_lib(case))
        elif k == 'fs':
            res.append(run_fs(case))
        else:
            raise ValueError(k)
    out['results'] = res
    print(json.dumps(out))


if __name__ == '__main__':
    main()
