"""Implementation side of C17: run wpull's REAL FTP code (Command.to_bytes,
Reply.parse, ControlStream.read_reply, Commander, Session.start / start_listing /
download, util.parse_address, the real network Connection and the real
asyncio.StreamReader) against scripted control / data connections whose bytes
arrive in exactly the scripted segments.

stdin: {"cases": [case, ...]}; stdout: {"results": [...]}.  Case kinds:
  reply : {stream, seglists: [[len, ...], ...], limit, nreads}
  parse : {datas: [hex, ...]}
  cmd   : {name, arg: [code points]}
  addr  : {text}
  visit : {url, req_user, req_pass, restart, listing, fresh, cached, ctrl, ctrl_segs,
           data, data_segs, net: [[a, b], ...], limit}
"""
import asyncio
import io
import json
import sys
import weakref

import harness.compat  # noqa
from wpull.errors import ProtocolError, NetworkError, AuthenticationError
from wpull.network.connection import Connection, ConnectionState, DummyCloseTimer
from wpull.protocol.ftp.client import Session
from wpull.protocol.ftp.request import Request, Reply, Command, Response
from wpull.protocol.ftp.stream import ControlStream
from wpull.protocol.ftp.util import FTPServerError
import wpull.protocol.ftp.util as ftp_util


# --------------------------------------------------------------------------
# fakes: only the transport is scripted; StreamReader and Connection are real
# --------------------------------------------------------------------------
class Wire:
    """The bytes the peer sends on one connection and how they reach the
    StreamReader (Model/FtpConn.v): `sizes` is the segmentation oracle - the
    i-th wait of the reader delivers sizes[i] bytes (1 byte once the list is
    exhausted; fewer when less is left), EOF when nothing is left - and push(k)
    is a spontaneous arrival of k bytes while the client is not waiting for this
    connection (bytes that arrive before the reader exists are fed when it is
    created)."""

    def __init__(self, data, sizes, stall=None):
        self.remaining = bytes(data)
        self.sizes = list(sizes)
        self.reader = None
        self.pre = 0
        # a stalled data path: once `after` bytes were delivered, the next wait of the reader takes `seconds` of
        # (virtual) time before anything more arrives - time passes for the client's timers, nothing else changes
        self.stall = stall
        self.stalled = False
        self.delivered = 0

    def attach(self, reader):
        self.reader = reader
        if self.pre:
            self._feed(self.pre)
            self.pre = 0

    def _feed(self, n):
        if self.stall and self.stall.get('hold') and not self.stalled:
            # nothing beyond the stall point arrives before the stall is over (neither by a wait nor by the arrival schedule)
            n = min(n, max(0, self.stall['after'] - self.delivered))
        seg, self.remaining = self.remaining[:n], self.remaining[n:]
        if seg:
            self.delivered += len(seg)
            self.reader.feed_data(seg)

    def push(self, k):
        if self.reader is None:
            self.pre += k
        else:
            self._feed(k)

    def wait(self):
        n = self.sizes.pop(0) if self.sizes else 1
        if self.stall and self.stall.get('hold') and not self.stalled and self.remaining and \
                self.delivered < self.stall['after'] < self.delivered + n:
            self.sizes.insert(0, self.delivered + n - self.stall['after'])   # the part of this segment beyond the stall point comes later
        if self.remaining:
            self._feed(n)
        else:
            self.reader.feed_eof()


class Net:
    """the arrival schedule (Model/Ftp.v s_net): one element (a, b) per primitive
    step of the session"""

    def __init__(self, schedule, ctrl, data):
        self.schedule = [tuple(x) for x in schedule]
        self.ctrl = ctrl
        self.data = data

    def arrive(self):
        if self.schedule:
            a, b = self.schedule.pop(0)
            self.ctrl.push(a)
            self.data.push(b)


class ScriptedReader(asyncio.StreamReader):
    """A real StreamReader whose data arrives from a Wire (_wait_for_data is the
    single place where StreamReader suspends for the transport)."""

    def __init__(self, wire, log, tag, limit, net=None):
        super().__init__(limit=limit)
        self._wire = wire
        self._log = log
        self._tag = tag
        self._net = net
        self.overrun = False
        wire.attach(self)

    async def _wait_for_data(self, func_name):
        w = self._wire
        if w.stall and not w.stalled and w.delivered >= w.stall['after']:
            w.stalled = True
            await asyncio.sleep(w.stall['seconds'])
        w.wait()

    async def readline(self):
        try:
            return await super().readline()
        except ValueError:
            self.overrun = True          # line longer than the limit
            raise

    async def read(self, n=-1):
        if self._tag == 'd' and self._net is not None:
            self._net.arrive()           # every read of the data connection is a suspension point
        data = await super().read(n)
        if self._tag == 'd':
            self._log.append('D:' + data.hex() if data else 'E')
        return data

    def unread(self):
        return bytes(self._buffer) + self._wire.remaining


class FakeWriter:
    def __init__(self, log, tag, net=None):
        self._log = log
        self._tag = tag
        self._net = net

    def write(self, data):
        if self._tag == 'c':
            self._log.append('W:' + bytes(data).hex())
            if self._net is not None:
                self._net.arrive()       # Connection.write drains: a suspension point

    def drain(self):
        return None

    def close(self):
        if self._tag == 'd':
            self._log.append('C')

    def get_extra_info(self, *a, **k):
        return None


class LoopGuard(Exception):
    """the client keeps reading a connection that is at EOF (it would spin forever)"""


class FakeConnection(Connection):
    """wpull's Connection with connect() replaced: no socket, scripted reader."""

    def __init__(self, address, wire, log, tag, limit, net=None):
        super().__init__(address)
        self._script = (wire, log, tag, limit, net)
        self.script_reader = None       # survives Connection.close()
        self._eof_reads = 0

    def _guard(self):
        r = self.script_reader
        if r is not None and r.at_eof():
            self._eof_reads += 1
            if self._eof_reads > 20:
                raise LoopGuard('read number %d at EOF' % self._eof_reads)

    @asyncio.coroutine
    def readline(self):
        self._guard()
        return (yield from super().readline())

    @asyncio.coroutine
    def read(self, amount=-1):
        self._guard()
        return (yield from super().read(amount))

    @asyncio.coroutine
    def connect(self):
        if self._state != ConnectionState.ready:
            raise Exception('Closed connection must be reset before reusing.')
        wire, log, tag, limit, net = self._script
        self.reader = self.script_reader = ScriptedReader(wire, log, tag, limit, net)
        self.writer = FakeWriter(log, tag, net)
        self._close_timer = DummyCloseTimer()
        self._state = ConnectionState.created
        yield from asyncio.sleep(0)


class FakePool:
    def __init__(self, ctrl, data_wire, log, limit, net):
        self.ctrl = ctrl
        self._data_wire = data_wire
        self._log = log
        self._limit = limit
        self._net = net
        self._ctrl_given = False
        self.data = None

    @asyncio.coroutine
    def acquire(self, host, port, use_ssl=False, host_key=None):
        yield from asyncio.sleep(0)
        if not self._ctrl_given:
            self._ctrl_given = True
            return self.ctrl
        self._log.append('O:%s:%d' % (host, port))
        self._net.arrive()               # acquiring / connecting the data connection suspends
        self.data = FakeConnection((host, port), self._data_wire, self._log, 'd', self._limit, self._net)
        return self.data

    def no_wait_release(self, connection):
        pass


def text_hex(text):
    return text.encode('utf-8', errors='surrogateescape').hex()


def err_kind(exc, readers=()):
    overrun = any(getattr(r, 'overrun', False) for r in readers if r is not None)
    if isinstance(exc, FTPServerError):
        return 'server:%s' % (exc.reply_code,)
    if isinstance(exc, AuthenticationError):
        return 'auth'
    if isinstance(exc, UnicodeEncodeError):
        return 'encode'
    if overrun and isinstance(exc, (ValueError, OSError)):
        return 'overlong'
    if isinstance(exc, ProtocolError):
        return 'protocol'
    if isinstance(exc, NetworkError):
        return 'network'
    return 'crash:%s' % type(exc).__name__


# --------------------------------------------------------------------------
def run_reply(case, loop):
    stream = bytes.fromhex(case['stream'])
    out = []
    for lens in case['seglists']:
        log = []
        conn = FakeConnection(('127.0.0.1', 21), Wire(stream, lens), log, 'c', case['limit'])
        cs = ControlStream(conn)
        reads = []

        @asyncio.coroutine
        def go():
            yield from conn.connect()
            for _ in range(case['nreads']):
                reply = yield from cs.read_reply()
                reads.append({'ok': [reply.code, text_hex(reply.text)]})

        try:
            loop.run_until_complete(go())
            rest = conn.script_reader.unread().hex()
        except BaseException as e:      # noqa
            reads.append({'err': err_kind(e, [conn.script_reader])})
            rest = ''
        out.append({'reads': reads, 'rest': rest})
    return {'runs': out}


def run_parse(case):
    reply = Reply()
    try:
        for d in case['datas']:
            reply.parse(bytes.fromhex(d))
    except BaseException as e:      # noqa
        return {'err': err_kind(e)}
    return {'ok': [reply.code, None if reply.text is None else text_hex(reply.text)]}


def run_cmd(case):
    arg = ''.join(chr(c) for c in case['arg'])
    try:
        return {'ok': Command(case['name'], arg).to_bytes().hex()}
    except BaseException as e:      # noqa
        return {'err': err_kind(e)}


def run_addr(case):
    try:
        host, port = ftp_util.parse_address(case['text'])
    except ValueError:
        return {'err': 'value'}
    except BaseException as e:      # noqa
        return {'err': err_kind(e)}
    return {'ok': [[int(x) for x in host.split('.')], port]}


def run_visit(case, loop):
    log = []
    limit = case.get('limit', 2 ** 16)
    ctrl_bytes = bytes.fromhex(case['ctrl'])
    data_bytes = bytes.fromhex(case['data'])
    try:
        request = Request(case['url'])
        if request.url_info.scheme != 'ftp':
            return {'skipped': 'not-ftp'}
    except ValueError as e:
        return {'skipped': 'url-rejected', 'why': str(e)[:80]}
    request.username = case.get('req_user')
    request.password = case.get('req_pass')
    if case.get('restart') is not None:
        request.set_continue(case['restart'])
    ctrl_wire = Wire(ctrl_bytes, case['ctrl_segs'], stall=case.get('ctrl_stall'))
    data_wire = Wire(data_bytes, case['data_segs'], stall=case.get('stall'))
    net = Net(case.get('net') or [], ctrl_wire, data_wire)
    ctrl = FakeConnection(('127.0.0.1', 21), ctrl_wire, log, 'c', limit, net)
    pool = FakePool(ctrl, data_wire, log, limit, net)
    login_table = weakref.WeakKeyDictionary()
    session = Session(login_table, connection_pool=pool)
    result = {}

    orig_read_reply = ControlStream.read_reply

    @asyncio.coroutine
    def logging_read_reply(self):
        net.arrive()
        reply = yield from orig_read_reply(self)
        log.append('R:%d' % reply.code)
        return reply

    def set_restart(self, value):
        self.__dict__['restart_value'] = value
        if value is not None:
            log.append('RS:%d' % value)

    Response.restart_value = property(lambda self: self.__dict__.get('restart_value'), set_restart)

    orig_download = Session.download

    @asyncio.coroutine
    def logging_download(self, *a, **k):
        response = yield from orig_download(self, *a, **k)
        result['download'] = [response.reply.code, text_hex(response.reply.text)]
        # taken here: when the listing text does not parse, download_listing's TextIOWrapper is
        # collected without detach() and closes the BytesIO
        if a and hasattr(a[0], 'getvalue'):
            result['file'] = a[0].getvalue().hex()
        elif hasattr(k.get('file'), 'getvalue'):
            result['file'] = k['file'].getvalue().hex()
        return response

    @asyncio.coroutine
    def go():
        if not case['fresh']:
            yield from ctrl.connect()
            if case.get('cached') is not None:
                login_table[ctrl] = tuple(case['cached'])
        file = io.BytesIO()
        if case['listing']:
            yield from session.start_listing(request)
            try:
                yield from session.download_listing(file)
            except BaseException:       # noqa
                if 'download' not in result:
                    raise
                result['post_error'] = True     # listing text did not parse; the transfer itself completed
        else:
            yield from session.start(request)
            yield from session.download(file)

    ControlStream.read_reply = logging_read_reply
    Session.download = logging_download
    try:
        loop.run_until_complete(go())
        outcome = {'ok': result['download']}
    except BaseException as e:      # noqa
        outcome = {'err': err_kind(e, [ctrl.script_reader]), 'msg': repr(e)[:120]}
    finally:
        ControlStream.read_reply = orig_read_reply
        Session.download = orig_download
        del Response.restart_value
    ui = request.url_info
    return {
        'events': log,
        'outcome': outcome,
        'file': result.get('file'),
        'decoded': {
            'user': [ord(c) for c in (ui.username or '')],
            'pass': [ord(c) for c in (ui.password or '')],
            'path': [ord(c) for c in request.file_path],
        },
    }


class VirtualTimeLoop(asyncio.SelectorEventLoop):
    """time is virtual: when nothing is ready the clock jumps to the next timer, so a scripted stall of the data path costs no
    real time while the client's own timers (wait_for, call_later) still fire in the right order"""

    def __init__(self):
        super().__init__()
        self._vt = 0.0

    def time(self):
        return self._vt

    def _run_once(self):
        if not self._ready and self._scheduled:
            whens = [h._when for h in self._scheduled if not h._cancelled]
            if whens and min(whens) > self._vt:
                self._vt = min(whens)
        super()._run_once()


def main():
    req = json.load(sys.stdin)
    loop = VirtualTimeLoop()
    asyncio.set_event_loop(loop)
    res = []
    for case in req['cases']:
        kind = case['kind']
        if kind == 'reply':
            res.append(run_reply(case, loop))
        elif kind == 'parse':
            res.append(run_parse(case))
        elif kind == 'cmd':
            res.append(run_cmd(case))
        elif kind == 'addr':
            res.append(run_addr(case))
        elif kind == 'visit':
            res.append(run_visit(case, loop))
        else:
            raise SystemExit('unknown kind %r' % kind)
    loop.close()
    print(json.dumps({'results': res}))


if __name__ == '__main__':
    main()
