"""Implementation side of C17: run wpull's REAL FTP code (Command.to_bytes,
Reply.parse, ControlStream.read_reply, Commander, Session.start / start_listing /
download, util.parse_address, the real network Connection and the real
asyncio.StreamReader) against scripted control / data connections whose bytes
arrive in exactly the scripted segments.

stdin: {"cases": [case, ...]}; stdout: {"results": [...]}.  Case kinds:
  reply : {stream, seglists: [[len, ...], ...], limit, nreads}
  parse : {datas: [hex, ...]}
  cmd   : {name, arg: [code points]}
  addr  : {text}
  visit : {url, req_user, req_pass, restart, listing, fresh, cached, ctrl, ctrl_segs,
           data, data_segs, limit}
"""
import asyncio
import io
import json
import sys
import weakref

import harness.compat  # noqa
from wpull.errors import ProtocolError, NetworkError, AuthenticationError
from wpull.network.connection import Connection, ConnectionState, DummyCloseTimer
from wpull.protocol.ftp.client import Session
from wpull.protocol.ftp.request import Request, Reply, Command
from wpull.protocol.ftp.stream import ControlStream
from wpull.protocol.ftp.util import FTPServerError
import wpull.protocol.ftp.util as ftp_util


# --------------------------------------------------------------------------
# fakes: only the transport is scripted; StreamReader and Connection are real
# --------------------------------------------------------------------------
class ScriptedReader(asyncio.StreamReader):
    """A real StreamReader whose data arrives one scripted segment per wait
    (_wait_for_data is the single place where StreamReader suspends for the
    transport).  After the last segment the next wait is EOF."""

    def __init__(self, segments, log, tag, limit):
        super().__init__(limit=limit)
        self._segs = list(segments)
        self._log = log
        self._tag = tag
        self.overrun = False

    async def _wait_for_data(self, func_name):
        if self._segs:
            self.feed_data(self._segs.pop(0))
        else:
            self.feed_eof()

    async def readline(self):
        try:
            return await super().readline()
        except ValueError:
            self.overrun = True          # line longer than the limit
            raise

    async def read(self, n=-1):
        data = await super().read(n)
        if self._tag == 'd':
            self._log.append('D:' + data.hex() if data else 'E')
        return data

    def unread(self):
        return bytes(self._buffer) + b''.join(self._segs)


class FakeWriter:
    def __init__(self, log, tag):
        self._log = log
        self._tag = tag

    def write(self, data):
        if self._tag == 'c':
            self._log.append('W:' + bytes(data).hex())

    def drain(self):
        return None

    def close(self):
        if self._tag == 'd':
            self._log.append('C')

    def get_extra_info(self, *a, **k):
        return None


class FakeConnection(Connection):
    """wpull's Connection with connect() replaced: no socket, scripted reader."""

    def __init__(self, address, segments, log, tag, limit):
        super().__init__(address)
        self._script = (segments, log, tag, limit)
        self.script_reader = None       # survives Connection.close()

    @asyncio.coroutine
    def connect(self):
        if self._state != ConnectionState.ready:
            raise Exception('Closed connection must be reset before reusing.')
        segments, log, tag, limit = self._script
        self.reader = self.script_reader = ScriptedReader(segments, log, tag, limit)
        self.writer = FakeWriter(log, tag)
        self._close_timer = DummyCloseTimer()
        self._state = ConnectionState.created
        yield from asyncio.sleep(0)


class FakePool:
    def __init__(self, ctrl, data_segments, log, limit):
        self.ctrl = ctrl
        self._data_segments = data_segments
        self._log = log
        self._limit = limit
        self._ctrl_given = False
        self.data = None

    @asyncio.coroutine
    def acquire(self, host, port, use_ssl=False, host_key=None):
        yield from asyncio.sleep(0)
        if not self._ctrl_given:
            self._ctrl_given = True
            return self.ctrl
        self._log.append('O:%s:%d' % (host, port))
        self.data = FakeConnection((host, port), self._data_segments, self._log, 'd', self._limit)
        return self.data

    def no_wait_release(self, connection):
        pass


def cut(data, lens):
    out = []
    i = 0
    for n in lens:
        out.append(data[i:i + n])
        i += n
    if i < len(data):
        out.append(data[i:])
    return [s for s in out if s]


def text_hex(text):
    return text.encode('utf-8', errors='surrogateescape').hex()


def err_kind(exc, readers=()):
    overrun = any(getattr(r, 'overrun', False) for r in readers if r is not None)
    if isinstance(exc, FTPServerError):
        return 'server:%s' % (exc.reply_code,)
    if isinstance(exc, AuthenticationError):
        return 'auth'
    if isinstance(exc, UnicodeEncodeError):
        return 'encode'
    if overrun and isinstance(exc, (ValueError, OSError)):
        return 'overlong'
    if isinstance(exc, ProtocolError):
        return 'protocol'
    if isinstance(exc, NetworkError):
        return 'network'
    return 'crash:%s' % type(exc).__name__


# --------------------------------------------------------------------------
def run_reply(case, loop):
    stream = bytes.fromhex(case['stream'])
    out = []
    for lens in case['seglists']:
        log = []
        conn = FakeConnection(('127.0.0.1', 21), cut(stream, lens), log, 'c', case['limit'])
        cs = ControlStream(conn)
        reads = []

        @asyncio.coroutine
        def go():
            yield from conn.connect()
            for _ in range(case['nreads']):
                reply = yield from cs.read_reply()
                reads.append({'ok': [reply.code, text_hex(reply.text)]})

        try:
            loop.run_until_complete(go())
            rest = conn.script_reader.unread().hex()
        except BaseException as e:      # noqa
            reads.append({'err': err_kind(e, [conn.script_reader])})
            rest = ''
        out.append({'reads': reads, 'rest': rest})
    return {'runs': out}


def run_parse(case):
    reply = Reply()
    try:
        for d in case['datas']:
            reply.parse(bytes.fromhex(d))
    except BaseException as e:      # noqa
        return {'err': err_kind(e)}
    return {'ok': [reply.code, None if reply.text is None else text_hex(reply.text)]}


def run_cmd(case):
    arg = ''.join(chr(c) for c in case['arg'])
    try:
        return {'ok': Command(case['name'], arg).to_bytes().hex()}
    except BaseException as e:      # noqa
        return {'err': err_kind(e)}


def run_addr(case):
    try:
        host, port = ftp_util.parse_address(case['text'])
    except ValueError:
        return {'err': 'value'}
    except BaseException as e:      # noqa
        return {'err': err_kind(e)}
    return {'ok': [[int(x) for x in host.split('.')], port]}


def run_visit(case, loop):
    log = []
    limit = case.get('limit', 2 ** 16)
    ctrl_bytes = bytes.fromhex(case['ctrl'])
    data_bytes = bytes.fromhex(case['data'])
    try:
        request = Request(case['url'])
        if request.url_info.scheme != 'ftp':
            return {'skipped': 'not-ftp'}
    except ValueError as e:
        return {'skipped': 'url-rejected', 'why': str(e)[:80]}
    request.username = case.get('req_user')
    request.password = case.get('req_pass')
    if case.get('restart') is not None:
        request.set_continue(case['restart'])
    ctrl = FakeConnection(('127.0.0.1', 21), cut(ctrl_bytes, case['ctrl_segs']), log, 'c', limit)
    pool = FakePool(ctrl, cut(data_bytes, case['data_segs']), log, limit)
    login_table = weakref.WeakKeyDictionary()
    session = Session(login_table, connection_pool=pool)
    result = {}

    orig_read_reply = ControlStream.read_reply

    @asyncio.coroutine
    def logging_read_reply(self):
        reply = yield from orig_read_reply(self)
        log.append('R:%d' % reply.code)
        return reply

    orig_download = Session.download

    @asyncio.coroutine
    def logging_download(self, *a, **k):
        response = yield from orig_download(self, *a, **k)
        result['download'] = [response.reply.code, text_hex(response.reply.text)]
        # taken here: when the listing text does not parse, download_listing's TextIOWrapper is
        # collected without detach() and closes the BytesIO
        if a and hasattr(a[0], 'getvalue'):
            result['file'] = a[0].getvalue().hex()
        elif hasattr(k.get('file'), 'getvalue'):
            result['file'] = k['file'].getvalue().hex()
        return response

    @asyncio.coroutine
    def go():
        if not case['fresh']:
            yield from ctrl.connect()
            if case.get('cached') is not None:
                login_table[ctrl] = tuple(case['cached'])
        file = io.BytesIO()
        if case['listing']:
            yield from session.start_listing(request)
            try:
                yield from session.download_listing(file)
            except BaseException:       # noqa
                if 'download' not in result:
                    raise
                result['post_error'] = True     # listing text did not parse; the transfer itself completed
        else:
            yield from session.start(request)
            yield from session.download(file)

    ControlStream.read_reply = logging_read_reply
    Session.download = logging_download
    try:
        loop.run_until_complete(go())
        outcome = {'ok': result['download']}
    except BaseException as e:      # noqa
        outcome = {'err': err_kind(e, [ctrl.script_reader]), 'msg': repr(e)[:120]}
    finally:
        ControlStream.read_reply = orig_read_reply
        Session.download = orig_download
    ui = request.url_info
    return {
        'events': log,
        'outcome': outcome,
        'file': result.get('file'),
        'decoded': {
            'user': [ord(c) for c in (ui.username or '')],
            'pass': [ord(c) for c in (ui.password or '')],
            'path': [ord(c) for c in request.file_path],
        },
    }


def main():
    req = json.load(sys.stdin)
    loop = harness.compat.new_loop()
    res = []
    for case in req['cases']:
        kind = case['kind']
        if kind == 'reply':
            res.append(run_reply(case, loop))
        elif kind == 'parse':
            res.append(run_parse(case))
        elif kind == 'cmd':
            res.append(run_cmd(case))
        elif kind == 'addr':
            res.append(run_addr(case))
        elif kind == 'visit':
            res.append(run_visit(case, loop))
        else:
            raise SystemExit('unknown kind %r' % kind)
    loop.close()
    print(json.dumps({'results': res}))


if __name__ == '__main__':
    main()
