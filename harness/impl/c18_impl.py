"""Implementation side of C18 (library tables for the model run): wpull.url.urljoin and URLInfo.parse /
Request construction on the URLs and Location values of the generated scripts."""
import json
import sys

import harness.compat  # noqa
import wpull.url
from wpull.protocol.http.request import Request
from wpull.url import URLInfo


def info_dict(ui):
    return {'scheme': ui.scheme, 'hostname': ui.hostname, 'port': ui.port, 'path': ui.path, 'url': ui.url}


def main():
    payload = json.load(sys.stdin)
    joins = []
    for base, loc in payload.get('joins', []):
        try:
            joined = wpull.url.urljoin(base, loc)
        except ValueError:
            joins.append({'base': base, 'loc': loc, 'joined': None, 'ok': False})
            continue
        try:
            rq = Request(joined)
            rq.prepare_for_send()
            joins.append({'base': base, 'loc': loc, 'joined': joined, 'ok': True, 'url': rq.url_info.url})
        except ValueError:
            joins.append({'base': base, 'loc': loc, 'joined': joined, 'ok': False})
    parses = {}
    for u in payload.get('urls', []):
        try:
            parses[u] = info_dict(URLInfo.parse(u))
        except ValueError:
            parses[u] = None
    print(json.dumps({'joins': joins, 'parses': parses}))


if __name__ == '__main__':
    main()
