"""C09: dump the exception class hierarchy from the running interpreter.

stdin : {"names": ["builtins.ValueError", "wpull.errors.ProtocolError", "zlib.error", ...],
         "checks": {expr text: [module, python expression, [claimed names]]}}
stdout: {"alias": {source name: runtime name}, "mro": {runtime name: [proper superclasses ...]}, "errors": [...]}
Runtime name = "<__module__>.<__qualname__>".  All builtin exception classes and every
exception class defined in wpull.errors are always included."""
import builtins
import importlib
import json
import sys

import harness.compat  # noqa


def rname(c):
    return '%s.%s' % (c.__module__, c.__qualname__)


def resolve(name):
    parts = name.split('.')
    for i in range(len(parts) - 1, 0, -1):
        try:
            obj = importlib.import_module('.'.join(parts[:i]))
        except ImportError:
            continue
        try:
            for p in parts[i:]:
                obj = getattr(obj, p)
        except AttributeError:
            continue
        return obj
    raise LookupError(name)


def main():
    req = json.load(sys.stdin)
    alias, mro, errors = {}, {}, []

    def add(c):
        n = rname(c)
        if n not in mro:
            mro[n] = [rname(b) for b in c.__mro__[1:] if issubclass(b, BaseException)]
            for b in c.__mro__[1:]:
                if issubclass(b, BaseException):
                    add(b)
        return n

    for k in dir(builtins):
        v = getattr(builtins, k)
        if isinstance(v, type) and issubclass(v, BaseException):
            add(v)
    import wpull.errors
    for k, v in vars(wpull.errors).items():
        if isinstance(v, type) and issubclass(v, BaseException):
            add(v)
    for name in req['names']:
        try:
            c = resolve(name)
            if not (isinstance(c, type) and issubclass(c, BaseException)):
                errors.append('class table: %s is not an exception class' % name)
                continue
            alias[name] = add(c)
        except Exception as e:
            errors.append('class table: cannot resolve %s: %r' % (name, e))
    for text, (mod, expr, claimed) in req.get('checks', {}).items():
        try:
            m = importlib.import_module(mod)
            v = eval(expr, vars(m))
            got = sorted(rname(x) for x in (v if isinstance(v, tuple) else (v,)))
            want = sorted(alias.get(x, x) for x in claimed)
            if got != want:
                errors.append('class expression %s is %s in the running code, table says %s' % (text, got, want))
        except Exception as e:
            errors.append('class expression %s: %r' % (text, e))
    print(json.dumps({'alias': alias, 'mro': mro, 'errors': errors}))


if __name__ == '__main__':
    main()
