"""Implementation side of C02 (differential part): for every case, parse the command line with
the REAL argument parser, let the REAL setup tasks (URLFiltersSetupTask.process,
URLFiltersPostURLImportSetupTask.process) build the DemuxURLFilter, consult it through the REAL
FetchRule.consult_filters, and record the library calls (re.search, fnmatch.translate,
fnmatch.fnmatchcase, URLInfo.parse of parent/root URLs) so that the Coq interpreter can be run with
the real library's answers."""
import json
import sys
import types

import harness.compat as compat  # noqa
import asyncio

import wpull.url
import wpull.urlfilter
from wpull.application.factory import Factory
from wpull.application.options import AppArgumentParser
from wpull.application.tasks.rule import URLFiltersSetupTask, URLFiltersPostURLImportSetupTask
from wpull.pipeline.item import URLRecord, Status
from wpull.processor.rule import FetchRule
from wpull.url import URLInfo
from wpull.urlfilter import DemuxURLFilter
from wpull.urlrewrite import URLRewriter

import fnmatch as _fnmatch
import re as _re

TABLES = None


class _ReProxy(types.ModuleType):
    def __getattr__(self, name):
        return getattr(_re, name)

    def search(self, pattern, text, *a, **k):
        res = _re.search(pattern, text, *a, **k)
        if TABLES is not None:
            TABLES['re_search'].append([pattern, text, bool(res)])
        return res


class _FnProxy(types.ModuleType):
    def __getattr__(self, name):
        return getattr(_fnmatch, name)

    def translate(self, pat):
        res = _fnmatch.translate(pat)
        if TABLES is not None:
            TABLES['translate'].append([pat, res])
        return res

    def fnmatchcase(self, name, pat):
        res = _fnmatch.fnmatchcase(name, pat)
        if TABLES is not None:
            TABLES['fnmatchcase'].append([name, pat, bool(res)])
        return res


wpull.urlfilter.re = _ReProxy('re')
wpull.urlfilter.fnmatch = _FnProxy('fnmatch')
wpull.url.fnmatch = _FnProxy('fnmatch')


def info_dict(ui):
    return {'scheme': ui.scheme, 'hostname': ui.hostname, 'port': ui.port, 'path': ui.path, 'url': ui.url}


class _Table:
    def __init__(self, hostnames):
        self._h = list(hostnames)

    def get_hostnames(self):
        return list(self._h)


class _Session:
    pass


def build(argv, hostnames):
    args = AppArgumentParser().parse_args(argv)
    factory = Factory({'DemuxURLFilter': DemuxURLFilter, 'URLRewriter': URLRewriter})
    factory._instance_map['URLTable'] = _Table(hostnames)
    session = _Session()
    session.args = args
    session.factory = factory
    loop = asyncio.get_event_loop()
    loop.run_until_complete(URLFiltersSetupTask().process(session))
    loop.run_until_complete(URLFiltersPostURLImportSetupTask().process(session))
    return args, factory['DemuxURLFilter']


ARG_FIELDS = ['https_only', 'recursive', 'page_requisites', 'follow_ftp', 'no_parent', 'domains', 'exclude_domains',
              'hostnames', 'exclude_hostnames', 'tries', 'level', 'page_requisites_level', 'accept_regex', 'reject_regex',
              'include_directories', 'exclude_directories', 'accept', 'reject', 'span_hosts', 'span_hosts_allow',
              'strong_redirects', 'max_redirect']


def _plain(v):
    if isinstance(v, (set, frozenset)):
        return sorted(v)
    if isinstance(v, (list, tuple)):
        return list(v)
    return v


def run_case(case):
    global TABLES
    out = {}
    try:
        args, demux = build(case['argv'], case['hostnames'])
    except SystemExit as e:
        return {'skip': 'argparse exit %r' % (e.code,)}
    out['args'] = {}
    for f in ARG_FIELDS:
        out['args'][f] = _plain(getattr(args, f))
    out['filter_classes'] = [f.__class__.__name__ for f in demux.url_filters]
    try:
        ui = URLInfo.parse(case['url'])
    except ValueError as e:
        return {'skip': 'url does not parse: %s' % e}
    rec = URLRecord()
    r = case['record']
    rec.url = ui.url
    rec.status = Status.todo
    rec.level = r['level']
    rec.inline_level = r['inline_level']
    rec.try_count = r['try_count']
    rec.parent_url = r['parent_url']
    rec.root_url = r['root_url']
    out['uinfo'] = info_dict(ui)
    parse_tab = {}
    for key in ('parent_url', 'root_url'):
        if r[key]:
            try:
                parse_tab[r[key]] = info_dict(URLInfo.parse(r[key]))
            except ValueError as e:
                return {'skip': '%s does not parse: %s' % (key, e)}
    TABLES = {'re_search': [], 'translate': [], 'fnmatchcase': []}
    rule = FetchRule(url_filter=demux)
    res = {}
    try:
        for name, flag in (('none', None), ('false', False), ('true', True)):
            verdict, reason, info = rule.consult_filters(ui, rec, is_redirect=flag)
            res[name] = {'verdict': bool(verdict), 'verdict_is_bool': isinstance(verdict, bool), 'reason': reason,
                         'map': [[k, bool(v)] for k, v in info['map'].items()],
                         'failed': sorted(f.__class__.__name__ for f in info['failed']),
                         'n_failed': len(info['failed']), 'n_passed': len(info['passed']),
                         'info_verdict': bool(info['verdict'])}
        # DemuxURLFilter.test must agree with test_info()['verdict']
        res['demux_test'] = bool(demux.test(ui, rec))
    except Exception as e:            # a filter raised: not a verdict
        out['raised'] = '%s: %s' % (type(e).__name__, e)
    tabs = TABLES
    TABLES = None
    tabs['parse'] = parse_tab
    out['tables'] = tabs
    out['results'] = res
    return out


def main():
    payload = json.load(sys.stdin)
    compat.new_loop()
    if 'parse' in payload:           # typed arguments of command lines only (used by the crawl checker)
        out = []
        for argv in payload['parse']:
            try:
                args = AppArgumentParser().parse_args(argv)
                out.append({f: _plain(getattr(args, f)) for f in ARG_FIELDS})
            except SystemExit as e:
                out.append({'error': 'argparse exit %r' % (e.code,)})
        print(json.dumps({'parsed': out}))
        return
    results = []
    for case in payload['cases']:
        try:
            results.append(run_case(case))
        except Exception as e:       # harness-level problem: report, do not hide
            results.append({'crash': '%s: %s' % (type(e).__name__, e)})
    print(json.dumps({'results': results}))


if __name__ == '__main__':
    main()
