"""Implementation side of C20: run the REAL wpull robots.txt code.

stdin: {"mode": ..., "cases": [...]}; stdout: {"results": [...]}

modes
  parser  : case {body_hex, queries:[{ua (latin-1 hex), url}]} -> RobotsTxtPool.load_robots_txt(bytes) /
            can_fetch exactly as RobotsTxtChecker calls them; returns the parsed rulesets and verdicts
  pool    : case {ops:[['load',url,body_hex]|['has',url]|['can',url,ua_hex]]} on one RobotsTxtPool
  checker : case {item_url, ua_hex, responses:[{status, location, body_hex}|{'error': 'protocol'|'network'}], max_redirects}
            -> RobotsTxtChecker.can_fetch with the real WebClient/WebSession/RedirectTracker over a scripted HTTP client
  scraper : case {html, robots} -> HTMLScraper.scrape link contexts with/without the robots flag + the meta elements
  conc    : case {ua_hex, max_redirects, script:{url:[response...]}, tasks:[{delay, visits:[[url, hop...]]}]} -> several asyncio
            tasks share ONE RobotsTxtChecker (real WebClient/WebSession/RedirectTracker, scripted HTTP client whose answers
            take a scripted number of event-loop turns); returns the event log in the order things happened
"""
import io
import json
import sys

import harness.compat as compat  # noqa
import wpull.body
from wpull.errors import NetworkError, ProtocolError, ServerError
from wpull.protocol.http.request import Request, Response
from wpull.protocol.http.robots import RobotsTxtChecker
from wpull.protocol.http.web import WebClient
from wpull.protocol.http.redirect import RedirectTracker
from wpull.robotstxt import RobotsTxtPool
from wpull.url import URLInfo


def cps(s):
    """str -> six-hex-digits-per-code-point"""
    return ''.join('%06x' % ord(c) for c in s)


def unl1(h):
    return bytes.fromhex(h).decode('latin-1')


def dump_rulesets(parser):
    out = []
    for rs in parser._RobotExclusionRulesParser__rulesets:
        out.append({'names': [cps(n) for n in rs.robot_names],
                    'rules': [[1 if t == rs.ALLOW else 0, cps(p)] for t, p in rs.rules]})
    return out


def run_parser(case):
    pool = RobotsTxtPool()
    base = URLInfo.parse('http://h/')
    body = bytes.fromhex(case['body_hex'])
    try:
        pool.load_robots_txt(base, body)
    except Exception as e:          # the checker turns ValueError into "blank"; anything else escapes
        return {'error': type(e).__name__}
    parser = pool._parsers[pool.url_info_key(base)]
    res = {'rulesets': dump_rulesets(parser), 'verdicts': []}
    for q in case['queries']:
        try:
            ui = URLInfo.parse(q['url'])
        except ValueError:
            res['verdicts'].append({'url': None})
            continue
        pool._parsers[pool.url_info_key(ui)] = parser
        try:
            v = bool(pool.can_fetch(ui, unl1(q['ua'])))
        except Exception as e:
            res['verdicts'].append({'url': cps(ui.url), 'error': type(e).__name__})
            continue
        res['verdicts'].append({'url': cps(ui.url), 'allowed': v})
    return res


def run_pool(case):
    pool = RobotsTxtPool()
    out = []
    for op in case['ops']:
        ui = URLInfo.parse(op[1])
        key = [ui.scheme, ui.hostname, ui.port]
        if op[0] == 'load':
            pool.load_robots_txt(ui, bytes.fromhex(op[2]))
            out.append({'key': key})
        elif op[0] == 'has':
            out.append({'key': key, 'has': bool(pool.has_parser(ui))})
        else:
            if pool.has_parser(ui):
                out.append({'key': key, 'url': cps(ui.url), 'can': bool(pool.can_fetch(ui, unl1(op[2])))})
            else:
                out.append({'key': key, 'url': cps(ui.url), 'can': None})
    return {'ops': out}


class _NullDispatcher(object):
    def notify(self, *args, **kwargs):
        pass


class ScriptedHTTPSession(object):
    # WebSession.__exit__ (used by fetch_robots_txt since the pool-leak repair) ends the protocol session through these
    from wpull.protocol.abstract.client import BaseSession as _Base
    SessionEvent = _Base.SessionEvent

    def __init__(self, client):
        self.client = client
        self.response = None
        self.event_dispatcher = _NullDispatcher()

    @compat.coroutine
    def start(self, request):
        request.prepare_for_send()
        self.client.requests.append(request.url_info.url)
        if not self.client.script:
            raise RuntimeError('script exhausted')
        item = self.client.script.pop(0)
        if item.get('error') == 'protocol':
            raise ProtocolError('scripted')
        if item.get('error') == 'network':
            raise NetworkError('scripted')
        resp = Response(item['status'], 'X')
        resp.request = request
        if item.get('location') is not None:
            resp.fields['Location'] = item['location']
        self.response = resp
        self.body = bytes.fromhex(item.get('body_hex', ''))
        return resp
        yield  # pragma: no cover

    @compat.coroutine
    def download(self, file=None, duration_timeout=None):
        # what wpull.protocol.http.client.Session.download does with the file argument
        if file is not None:
            if not isinstance(file, wpull.body.Body):
                self.response.body = wpull.body.Body(file)
            else:
                self.response.body = file
            off = file.tell()
            self.response.body.write(self.body)
            self.response.body.flush()
            file.seek(off)
        return
        yield  # pragma: no cover

    def abort(self):
        pass

    def recycle(self):
        pass


class ScriptedHTTPClient(object):
    def __init__(self, script):
        self.script = list(script)
        self.requests = []

    def session(self):
        return ScriptedHTTPSession(self)

    def close(self):
        pass


def run_checker(case):
    import tempfile
    import os
    client = ScriptedHTTPClient(case['responses'])
    mr = case.get('max_redirects', 20)
    web = WebClient(http_client=client, redirect_tracker_factory=lambda: RedirectTracker(max_redirects=mr))
    checker = RobotsTxtChecker(web_client=web)
    request = Request(case['item_url'])
    request.fields['User-agent'] = unl1(case['ua'])
    request.prepare_for_send()
    loop = compat.new_loop()
    cwd = os.getcwd()
    tmp = tempfile.mkdtemp(prefix='verif-c20-')
    os.chdir(tmp)
    res = {}
    try:
        try:
            v = loop.run_until_complete(checker.can_fetch(request))
            res['outcome'] = 'verdict'
            res['allowed'] = bool(v)
        except ServerError:
            res['outcome'] = 'error'
            res['error'] = 'ServerError'
        except NetworkError:
            res['outcome'] = 'error'
            res['error'] = 'NetworkError'
        except RuntimeError as e:
            res['outcome'] = 'stuck'
            res['error'] = str(e)
    finally:
        os.chdir(cwd)
        import shutil
        shutil.rmtree(tmp, ignore_errors=True)
    pool = checker.robots_txt_pool
    res['requests'] = client.requests
    res['stored'] = bool(pool.has_parser(request.url_info))
    if res['stored']:
        res['rulesets'] = dump_rulesets(pool._parsers[pool.url_info_key(request.url_info)])
    res['item'] = cps(request.url_info.url)
    # a second can_fetch for the same origin must not touch the network once stored
    if res['stored']:
        before = len(client.requests)
        try:
            loop.run_until_complete(checker.can_fetch(request))
        except Exception:
            pass
        res['refetched'] = len(client.requests) - before
    return res


def run_scraper(case):
    from wpull.document.htmlparse.html5lib_ import HTMLParser
    from wpull.scraper.html import HTMLScraper, ElementWalker
    from wpull.document.htmlparse.element import Element
    html = case['html'].encode('utf-8')

    def scrape(robots):
        scraper = HTMLScraper(HTMLParser(), ElementWalker(), robots=robots)
        request = Request('http://h/page.html')
        request.prepare_for_send()
        response = Response(200, 'OK')
        response.fields['Content-Type'] = 'text/html; charset=utf-8'
        response.body = wpull.body.Body(io.BytesIO(html))
        response.request = request
        result = scraper.scrape(request, response)
        if result is None:
            return None
        return sorted([cps(c.link), bool(c.inline), bool(c.linked)] for c in result.link_contexts)

    scraper = HTMLScraper(HTMLParser(), ElementWalker(), robots=False)
    elems = []
    for e in scraper.iter_elements(io.BytesIO(html), encoding='utf-8'):
        if isinstance(e, Element):
            elems.append([cps(e.tag), cps(e.attrib.get('name', '')), cps(e.attrib.get('content', ''))])
    return {'on': scrape(True), 'off': scrape(False), 'elems': elems}


# --------------------------------------------------------------------------
# several tasks, one checker
# --------------------------------------------------------------------------
def run_conc(case):
    import asyncio
    import os
    import shutil
    import tempfile
    log = []
    script = {k: list(v) for k, v in case['script'].items()}
    tasks_by_obj = {}

    def cur():
        return tasks_by_obj.get(asyncio.current_task(), -1)

    def key_of(url_info):
        return [url_info.scheme, url_info.hostname, url_info.port]

    class Session(object):
        SessionEvent = ScriptedHTTPSession.SessionEvent

        def __init__(self):
            self.response = None
            self.event_dispatcher = _NullDispatcher()

        @compat.coroutine
        def start(self, request):
            request.prepare_for_send()
            url = request.url_info.url
            lst = script.get(url)
            if not lst:
                item = {'status': 404}
            elif len(lst) > 1:
                item = lst.pop(0)
            else:
                item = lst[0]
            for _ in range(item.get('pre', 0)):         # connecting
                yield from asyncio.sleep(0)
            log.append(['req', cur(), url, key_of(request.url_info)])
            for _ in range(item.get('yields', 0)):      # waiting for the answer
                yield from asyncio.sleep(0)
            log.append(['resp', cur(), item])
            if item.get('error') == 'protocol':
                raise ProtocolError('scripted')
            if item.get('error') == 'network':
                raise NetworkError('scripted')
            resp = Response(item['status'], 'X')
            resp.request = request
            if item.get('location') is not None:
                resp.fields['Location'] = item['location']
            self.response = resp
            self.body = bytes.fromhex(item.get('body_hex', ''))
            return resp

        @compat.coroutine
        def download(self, file=None, duration_timeout=None):
            if file is not None:
                if not isinstance(file, wpull.body.Body):
                    self.response.body = wpull.body.Body(file)
                else:
                    self.response.body = file
                off = file.tell()
                self.response.body.write(self.body)
                self.response.body.flush()
                file.seek(off)
            return
            yield  # pragma: no cover

        def abort(self):
            pass

        def recycle(self):
            pass

    class Client(object):
        def session(self):
            return Session()

        def close(self):
            pass

    class Pool(RobotsTxtPool):
        def load_robots_txt(self, url_info, text):
            super().load_robots_txt(url_info, text)
            log.append(['stored', cur(), key_of(url_info), dump_rulesets(self._parsers[self.url_info_key(url_info)])])

    class Checker(RobotsTxtChecker):
        @compat.coroutine
        def fetch_robots_txt(self, request, file=None):
            log.append(['fetchstart', cur(), key_of(request.url_info)])
            res = yield from RobotsTxtChecker.fetch_robots_txt(self, request, file=file)
            return res

    mr = case.get('max_redirects', 20)
    web = WebClient(http_client=Client(), redirect_tracker_factory=lambda: RedirectTracker(max_redirects=mr))
    checker = Checker(web_client=web, robots_txt_pool=Pool())
    ua = unl1(case['ua'])

    async def worker(ti, spec):
        tasks_by_obj[asyncio.current_task()] = ti
        for _ in range(spec.get('delay', 0)):
            await asyncio.sleep(0)
        for visit in spec['visits']:
            for hi, url in enumerate(visit):
                request = Request(url)
                request.fields['User-agent'] = ua
                request.prepare_for_send()
                log.append(['call', ti, cps(request.url_info.url), key_of(request.url_info), hi > 0])
                try:
                    v = await checker.can_fetch(request)
                except (ServerError, NetworkError) as e:
                    log.append(['error', ti, type(e).__name__])
                    break
                log.append(['verdict', ti, bool(v)])
                if not v:
                    break
                for _ in range(spec.get('gap', 0)):     # the item's own request / response
                    await asyncio.sleep(0)

    async def main():
        await asyncio.gather(*[worker(i, t) for i, t in enumerate(case['tasks'])])

    loop = compat.new_loop()
    cwd = os.getcwd()
    tmp = tempfile.mkdtemp(prefix='verif-c20-')
    os.chdir(tmp)
    try:
        try:
            loop.run_until_complete(asyncio.wait_for(main(), 20))
            res = {'log': log}
        except Exception as e:     # a crash or a deadlock is a finding, not a harness error
            res = {'log': log, 'crash': '%s: %s' % (type(e).__name__, e)}
    finally:
        os.chdir(cwd)
        shutil.rmtree(tmp, ignore_errors=True)
        loop.close()
    return res


MODES = {'parser': run_parser, 'pool': run_pool, 'checker': run_checker, 'scraper': run_scraper, 'conc': run_conc}


def main():
    req = json.load(sys.stdin)
    fn = MODES[req['mode']]
    print(json.dumps({'results': [fn(c) for c in req['cases']]}))


if __name__ == '__main__':
    main()
