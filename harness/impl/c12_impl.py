"""Implementation side of C12: drive the REAL ConnectionPool / HostPool / BaseSession
on the scripted event loop (harness/fakes/schedloop_pool.py).

stdin: {"mode": "run", "jobs": [{"cfg": {...}, "schedule": [action, ...]}, ...]}
         -> per job the trace (action, observation after it), property verdicts, and the
            quiescence epilogue (everybody finishes, pool.clean(), what remains)
       {"mode": "explore", "cfg": {...}, "limits": {...}}
         -> breadth-first exploration of every schedule of the configuration (states
            identified by a fingerprint of the real objects), returns one trace per
            explored transition path leaf + violations of the property predicate
"""
import json
import sys

import harness.compat  # noqa: F401  (must precede wpull imports)
from harness.fakes.schedloop_pool import World


# --------------------------------------------------------------------------
# the property itself, as a predicate on the real objects (used for impl_violations / search)
# --------------------------------------------------------------------------
def check_state(w, obs, act=None):
    """returns list of violation strings for the current state of the real pool."""
    bad = []
    m = w.m
    holders = {}
    per_key_held = {}
    for i, c in enumerate(w.holding):
        if c is None:
            continue
        holders.setdefault(c.cid, []).append(i)
        per_key_held[c.key] = per_key_held.get(c.key, 0) + 1
    for cid, hs in holders.items():
        if len(hs) > 1:
            bad.append('shared: connection %d held by clients %s' % (cid, hs))
    for key, cnt in per_key_held.items():
        if cnt > m:
            bad.append('over-allocated: %d connections of one host checked out, limit %d' % (cnt, m))
    pending_rel = set(w.rel_conn[j] for j in obs['live_tasks'] if w.rel_conn.get(j) is not None)
    for k, p in enumerate(obs['pools']):
        if p is None:
            continue
        if len(p['busy']) > m or len(p['ready']) + len(p['busy']) > m:
            bad.append('bound: key %d ready=%s busy=%s limit %d' % (k, p['ready'], p['busy'], m))
        if set(p['ready']) & set(p['busy']):
            bad.append('ready and busy overlap on key %d' % k)
        held = set(c.cid for c in w.holding if c is not None and c.key == w.keys[k])
        owed = set(cid for cid in pending_rel if w.conns[cid].key == w.keys[k])
        if set(p['busy']) != held | owed:
            # a connection handed out by HostPool.acquire but not yet returned to the client code
            # (second host_pools_lock section) is also legitimately busy: only reachable under contention
            extra = set(p['busy']) - held - owed
            missing = (held | owed) - set(p['busy'])
            if missing or (extra and not any(wh == 'pool' for wh in w.where)):
                bad.append('leak: key %d busy=%s but held=%s pending-release=%s' % (
                    k, p['busy'], sorted(held), sorted(owed)))
        # no lost wake-up: a pending waiter, a free slot, nobody notified
        if 'p' in p['cond'] and len(p['busy']) < m and p['cond'].count('n') < m - len(p['busy']):
            bad.append('lost-wakeup: key %d cond=%s ready=%s busy=%s' % (k, p['cond'], p['ready'], p['busy']))
    for cid in holders:
        found = any(p is not None and cid in p['busy'] for p in obs['pools'])
        if not found:
            bad.append('held connection %d is in no busy set' % cid)
    # stuck: nothing can run, yet a client is inside acquire() / a release has not finished
    if not obs['runnable']:
        inside = [i for i, wh in enumerate(w.where) if wh == 'pool']
        if obs['live_tasks']:
            bad.append('stuck: release/clean task %s can never run' % obs['live_tasks'])
        for i in inside:
            bad.append('stuck-or-waiting: client %d inside acquire with nothing runnable' % i) \
                if not any(c is not None for c in w.holding) else None
    # a completed check in (release task) or clean() has swept ALL host pools (theorem C12_checkin_sweeps_all_hosts)
    if act is not None and act[0] == 'step' and act[1] == 'r' and act[2] not in obs['live_tasks'] and not w.errors:
        for k, p in enumerate(obs['pools']):
            if p is None:
                continue
            if not p['ready'] and not p['busy'] and not p['waiters']:
                bad.append('idle-bookkeeping: idle host pool %d kept by the check in / clean that just finished' % k)
            dead = [c for c in p['ready'] if not w.conns[c].is_open]
            if dead:
                bad.append('idle-bookkeeping: closed connections %s kept in ready of key %d by the check in / clean that '
                           'just finished' % (dead, k))
    if w.errors:
        bad.append('exception: ' + '; '.join(w.errors))
    return bad


def quiescence_epilogue(w):
    """Everybody finishes (holders leave their sessions, every runnable task runs); then
    pool.clean() is called.  Returns (steps, violations)."""
    bad = []
    steps = []
    guard = 0
    while guard < 2000:
        guard += 1
        en = w.enabled()
        pick = None
        for a in en:
            if a[0] == 'step':
                pick = a
                break
        if pick is None:
            for a in en:
                if a[0] == 'finish':
                    pick = a
                    break
        if pick is None:
            break
        w.apply(pick)
        o = w.observe()
        steps.append([pick, o])
        bad += check_state(w, o, pick)
    obs = w.observe()
    inside = [i for i, wh in enumerate(w.where) if wh in ('pool', 'hold')]
    if inside:
        bad.append('deadlock: clients %s never finish although everybody else did (%s)' % (
            inside, json.dumps(obs['pools'])))
    if obs['live_tasks']:
        bad.append('deadlock: release tasks %s never finish' % obs['live_tasks'])
    if not inside and not obs['live_tasks']:
        for k, p in enumerate(obs['pools']):
            if p is not None and p['busy']:
                bad.append('quiescent: key %d still has checked-out connections %s' % (k, p['busy']))
            if p is not None and p['waiters']:
                bad.append('quiescent: key %d waiter count %s' % (k, p['waiters']))
            if p is not None and (p['locked'] or p['lockq']):
                bad.append('quiescent: key %d lock still held' % k)
        if obs['hp_locked']:
            bad.append('quiescent: host_pools lock still held')
        w.apply(['clean', 0])
        o = w.observe()
        steps.append([['clean', 0], o])
        g2 = 0
        while w.runnable() and g2 < 50:
            g2 += 1
            name = w.runnable()[0]
            a = ['step', name[0], name[1]]
            w.apply(a)
            o = w.observe()
            steps.append([a, o])
        if o['live_tasks']:
            bad.append('quiescent: clean() does not finish')
        for k, p in enumerate(o['pools']):
            if p is None:
                continue
            if not p['ready'] and not p['busy']:
                bad.append('quiescent: idle host pool %d kept after clean()' % k)
            if any(not w.conns[c].is_open for c in p['ready']):
                bad.append('quiescent: closed connection kept in ready of key %d after clean()' % k)
        if w.errors:
            bad.append('exception: ' + '; '.join(w.errors))
    return steps, bad


# --------------------------------------------------------------------------
def make_world(cfg):
    w = World(cfg['n'], cfg['h'], cfg['m'], cfg.get('max_count', 100))
    return w


def run_schedule(cfg, schedule, epilogue=True, want_trace=True):
    w = make_world(cfg)
    out = {'trace': [], 'violations': [], 'not_enabled': None}

    def on_point(w):
        o = w.observe()
        out['initial'] = o
        for idx, a in enumerate(schedule):
            en = w.enabled()
            if a not in en:
                out['not_enabled'] = [idx, a]
                break
            w.apply(a)
            o = w.observe()
            if want_trace:
                out['trace'].append([a, o])
            for b in check_state(w, o, a):
                out['violations'].append([idx, b])
        if epilogue and out['not_enabled'] is None:
            steps, bad = quiescence_epilogue(w)
            if want_trace:
                out['epilogue'] = steps
            for b in bad:
                out['violations'].append([len(schedule), b])

    try:
        w.run(on_point)
    finally:
        w.close()
    return out


# --------------------------------------------------------------------------
# exploration
# --------------------------------------------------------------------------
def _chain(coro):
    """(function name, instruction offset) of every frame of a suspended coroutine chain."""
    out = []
    seen = 0
    while coro is not None and seen < 50:
        seen += 1
        if hasattr(coro, 'gen'):                 # compat CoroWrapper
            coro = coro.gen
            continue
        fr = getattr(coro, 'gi_frame', None) or getattr(coro, 'cr_frame', None)
        if fr is None:
            out.append(type(coro).__name__)
            break
        out.append((fr.f_code.co_name, fr.f_lasti))
        coro = getattr(coro, 'gi_yieldfrom', None) if hasattr(coro, 'gi_frame') else getattr(coro, 'cr_await', None)
    return out


def fingerprint(w, extra):
    o = w.observe()
    o.pop('events')
    tasks = []
    for t, name in sorted(w.task_name.items(), key=lambda kv: kv[1]):
        if t.done():
            tasks.append((name, 'done', t.cancelled()))
        else:
            fw = t._fut_waiter
            fs = None if fw is None else ('c' if fw.cancelled() else ('d' if fw.done() else 'p'))
            tasks.append((name, _chain(t.get_coro()), bool(t._must_cancel), fs))
    return json.dumps([o, tasks, extra], sort_keys=True, default=str)


def allowed_actions(w, cfg, used):
    """enabled actions filtered by the scenario: each client has a list of keys (one per round)."""
    plan = cfg['plan']            # per client: list of key indices, one per round
    acts = []
    for a in w.enabled():
        k = a[0]
        if k == 'start':
            i = a[1]
            r = used['rounds'][i]
            if r < len(plan[i]) and plan[i][r] == a[2]:
                acts.append(a)
        elif k == 'connok':
            if not w.holding[a[1]].is_open and cfg.get('connok', True):
                acts.append(a)
        elif k in ('fail', 'cancel', 'close'):
            if used['faults'] < cfg.get('faults', 0) and k in cfg.get('fault_kinds', ['fail', 'cancel', 'close']):
                acts.append(a)
        elif k == 'clean':
            if used['cleans'] < cfg.get('cleans', 0):
                acts.append(a)
        else:
            acts.append(a)
    return acts


def _account(used, a):
    u = {'rounds': list(used['rounds']), 'faults': used['faults'], 'cleans': used['cleans']}
    if a[0] == 'start':
        u['rounds'][a[1]] += 1
    elif a[0] in ('fail', 'cancel', 'close'):
        u['faults'] += 1
    elif a[0] == 'clean':
        u['cleans'] += 1
    return u


def explore(cfg, limits):
    """BFS over fingerprints.  Every transition is executed on fresh real objects by replaying its path."""
    max_states = limits.get('max_states', 20000)
    want_traces = limits.get('traces', True)
    init_used = {'rounds': [0] * cfg['n'], 'faults': 0, 'cleans': 0}
    frontier = [([], init_used)]
    seen = set()
    leaves = []           # maximal paths (for trace checking in Coq): every transition lies on one
    violations = []
    transitions = 0
    states = 0
    covered_children = {}

    def replay(path):
        w = make_world(cfg)
        box = {}

        def on_point(w):
            for a in path:
                w.apply(a)
            box['ok'] = True
        return w, on_point, box

    while frontier and states < max_states:
        path, used = frontier.pop(0)
        # expand: for each allowed action one fresh run
        w = make_world(cfg)
        res = {}

        def on_point(w, path=path, used=used, res=res):
            for a in path:
                w.apply(a)
            res['acts'] = allowed_actions(w, cfg, used)
        try:
            w.run(on_point)
        finally:
            w.close()
        acts = res['acts']
        if not acts:
            leaves.append(path)
            continue
        any_new = False
        for a in acts:
            w = make_world(cfg)
            res2 = {}

            def on_point2(w, path=path, a=a, used=used, res2=res2):
                for b in path:
                    w.apply(b)
                w.apply(a)
                o = w.observe()
                res2['bad'] = check_state(w, o, a)
                res2['fp'] = fingerprint(w, _account(used, a))
            try:
                w.run(on_point2)
            finally:
                w.close()
            transitions += 1
            p2 = path + [a]
            for b in res2['bad']:
                violations.append({'why': b, 'schedule': p2})
            if res2['fp'] in seen:
                leaves.append(p2)          # transition into a known state: keep the path so that it is checked once
                continue
            seen.add(res2['fp'])
            states += 1
            any_new = True
            frontier.append((p2, _account(used, a)))
    return {'states': states, 'transitions': transitions, 'leaves': leaves if want_traces else len(leaves),
            'violations': violations, 'exhausted': not frontier}


def random_runs(cfg, seeds, max_len):
    """random walks over the allowed actions (faults rarer than ordinary steps)."""
    import random
    out = []
    for sd in seeds:
        rnd = random.Random(sd)
        w = make_world(cfg)
        res = {'seed': sd, 'trace': [], 'violations': [], 'schedule': []}

        def on_point(w, rnd=rnd, res=res):
            used = {'rounds': [0] * cfg['n'], 'faults': 0, 'cleans': 0}
            res['initial'] = w.observe()
            for idx in range(max_len):
                acts = allowed_actions(w, cfg, used)
                if not acts:
                    break
                weights = []
                for a in acts:
                    if a[0] in ('fail', 'cancel', 'close'):
                        weights.append(cfg.get('fault_weight', 0.3))
                    elif a[0] == 'clean':
                        weights.append(0.2)
                    elif a[0] == 'finish':
                        weights.append(cfg.get('finish_weight', 0.6))
                    else:
                        weights.append(1.0)
                a = rnd.choices(acts, weights)[0]
                used = _account(used, a)
                w.apply(a)
                o = w.observe()
                res['schedule'].append(a)
                res['trace'].append([a, o])
                for b in check_state(w, o, a):
                    res['violations'].append([idx, b])
            steps, bad = quiescence_epilogue(w)
            res['epilogue'] = steps
            for b in bad:
                res['violations'].append([len(res['schedule']), b])
        try:
            w.run(on_point)
        finally:
            w.close()
        out.append(res)
    return out


def main():
    req = json.load(sys.stdin)
    if req['mode'] == 'random':
        print(json.dumps({'results': random_runs(req['cfg'], req['seeds'], req.get('max_len', 40))}))
        return
    if req['mode'] == 'multi':        # several random jobs in one process
        res = []
        for j in req['jobs']:
            runs = random_runs(j['cfg'], j['seeds'], j.get('max_len', 40))
            if not j.get('trace', True):
                for run in runs:
                    run['trace'] = []
                    run['epilogue'] = []
            res.append({'results': runs})
        print(json.dumps({'results': res}))
        return
    if req['mode'] == 'run':
        res = [run_schedule(j['cfg'], j['schedule'], j.get('epilogue', True), j.get('trace', True))
               for j in req['jobs']]
        print(json.dumps({'results': res}))
    elif req['mode'] == 'explore':
        print(json.dumps(explore(req['cfg'], req.get('limits', {}))))
    else:
        raise SystemExit('unknown mode')


if __name__ == '__main__':
    main()
