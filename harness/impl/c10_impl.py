"""Implementation side of C10 / C11: run wpull's real URL code (URLInfo.parse,
accessors, parse_url_or_log, urljoin_safe and the helper functions) on generated
inputs, record the answers of the library calls that the Coq model treats as
oracles (codec other than UTF-8, str.lower / int() / idna on non-ASCII text,
IPv6Address.compressed, urllib unquote), and evaluate the property predicate on
the implementation's own answers.

stdin: {"mode": "parse"|"components"|"sample"|"consts", ...}   stdout: one JSON line.   (join mode: c11_impl.py)
Text travels as fixed six-hex-digit code points (lone surrogates survive)."""
import ipaddress
import json
import sys
import urllib.parse

import harness.compat  # noqa
import wpull.url as U
from wpull.url import URLInfo

NONE = 0x110001
ERRM = 0x110002
QK = 0x110003
QV = 0x110004


def h6(s):
    return ''.join('%06x' % ord(c) for c in s)


def un6(h):
    return ''.join(chr(int(h[i:i + 6], 16)) for i in range(0, len(h), 6))


def kind(e):
    """exception -> the model's failure kind code"""
    if isinstance(e, ipaddress.AddressValueError):
        return 3
    if isinstance(e, UnicodeError):
        return 2
    if type(e) is ValueError:
        return 1
    if isinstance(e, RecursionError):
        return 8
    if isinstance(e, IndexError):
        return 5
    if isinstance(e, KeyError):
        return 6
    if isinstance(e, LookupError):
        return 4
    if isinstance(e, AssertionError):
        return 7
    if isinstance(e, TypeError):
        return 9
    if isinstance(e, AttributeError):
        return 10
    if isinstance(e, ValueError):
        return 11
    return 99


# --------------------------------------------------------------------------
# oracle recording (installed in wpull.url's module namespace; /repo untouched)
# --------------------------------------------------------------------------
class Rec:
    on = False
    enc_name = None
    enc = []
    idna = []
    ipv6 = []
    ints = []
    unq = []

    @classmethod
    def reset(cls, enc_name):
        cls.enc_name = enc_name
        cls.enc, cls.idna, cls.ipv6, cls.ints, cls.unq = [], [], [], [], []


_orig_pe = U.percent_encode
_orig_nh = U.normalize_hostname
_orig_pd = U.percent_decode


def rec_percent_encode(text, encode_set=U.DEFAULT_ENCODE_SET, encoding='utf-8'):
    if Rec.on and encoding == Rec.enc_name and encoding != 'utf-8':
        try:
            b = text.encode(encoding)
            Rec.enc.append([h6(text), b.hex()])
        except UnicodeError:
            Rec.enc.append([h6(text), None])
    return _orig_pe(text, encode_set, encoding)


def rec_normalize_hostname(hostname):
    if Rec.on and not hostname.isascii():
        try:
            Rec.idna.append([h6(hostname), hostname.encode('idna').hex()])
        except UnicodeError:
            Rec.idna.append([h6(hostname), None])
    return _orig_nh(hostname)


def rec_percent_decode(string, encoding='utf-8', errors='replace'):
    r = _orig_pd(string, encoding=encoding, errors=errors)
    if Rec.on and '%' in string:
        Rec.unq.append([h6(string), h6(r)])
    return r


def rec_int(x, *a):
    rec = Rec.on and isinstance(x, str) and not x.isascii()
    try:
        r = int(x, *a)
    except ValueError:
        if rec:
            Rec.ints.append([a[0] if a else 10, h6(x), None])
        raise
    if rec:
        Rec.ints.append([a[0] if a else 10, h6(x), str(r)])
    return r


class IpProxy:
    AddressValueError = ipaddress.AddressValueError
    IPv4Address = ipaddress.IPv4Address

    @staticmethod
    def IPv6Address(x):
        try:
            r = ipaddress.IPv6Address(x)
        except ipaddress.AddressValueError:
            if Rec.on:
                Rec.ipv6.append([h6(x), None])
            raise
        if Rec.on:
            Rec.ipv6.append([h6(x), h6(r.compressed)])
        return r


U.percent_encode = rec_percent_encode
U.normalize_hostname = rec_normalize_hostname
U.percent_decode = rec_percent_decode
U.int = rec_int
U.ipaddress = IpProxy


def parse_fresh(url, encoding='utf-8'):
    URLInfo.parse.cache_clear()
    return URLInfo.parse(url, encoding=encoding)


# --------------------------------------------------------------------------
# observation = the list of strings the Coq side (Model/UrlCheck.v observe) produces
# --------------------------------------------------------------------------
def opt(s):
    return [NONE] if s is None else [ord(c) for c in s]


def guarded(f):
    try:
        return f()
    except Exception as e:          # the KIND is what is compared
        return [ERRM, kind(e)]


def qmap_ser(m):
    if m is None:
        return [NONE]
    out = []
    for k, vs in m.items():
        out.append(QK)
        out += [ord(c) for c in k]
        for v in vs:
            out.append(QV)
            out += [ord(c) for c in v]
    return out


def tri(b):
    return [NONE] if b is None else [1 if b else 0]



# --------------------------------------------------------------------------
# per-case deadline: "never fails to terminate" is part of C11; a case that runs longer than
# CASE_DEADLINE seconds is reported as non-terminating instead of stalling the whole check
# --------------------------------------------------------------------------
import signal

CASE_DEADLINE = 8


class CaseDeadline(BaseException):
    pass


def _on_alarm(signum, frame):
    raise CaseDeadline()


_TIMEOUTS = [0]


def with_deadline(fn, seconds=None):
    """(True, fn()) or (False, None) when fn did not return within the deadline.  Once three cases of a run have hit the
    deadline the tree is known not to terminate on some inputs; the remaining cases get a short deadline so that the run
    itself ends (a legitimate case takes milliseconds)"""
    if seconds is None:
        seconds = CASE_DEADLINE if _TIMEOUTS[0] < 3 else 0.05
    old = signal.signal(signal.SIGALRM, _on_alarm)
    signal.setitimer(signal.ITIMER_REAL, seconds)
    try:
        return True, fn()
    except CaseDeadline:
        _TIMEOUTS[0] += 1
        return False, None
    finally:
        signal.setitimer(signal.ITIMER_REAL, 0)
        signal.signal(signal.SIGALRM, old)


def observe(url, encoding):
    """run parse + every documented accessor; returns (obs, info or None)"""
    try:
        i = parse_fresh(url, encoding)
    except Exception as e:
        return [[ERRM, kind(e)]], None
    obs = [[1]]
    obs.append([1 if i.scheme in U.RELATIVE_SCHEME_DEFAULT_PORTS else 0])
    for name in ('raw', 'scheme', 'authority', 'path', 'query', 'fragment', 'userinfo', 'username', 'password',
                 'host', 'hostname'):
        obs.append(guarded(lambda: opt(getattr(i, name))))
    obs.append(guarded(lambda: [NONE] if i.port is None else [int(i.port)]))
    obs.append(guarded(lambda: opt(i.resource)))
    obs.append(guarded(lambda: opt(i.url)))
    obs.append(guarded(lambda: opt(i.hostname_with_port)))
    obs.append(guarded(lambda: tri(i.is_port_default())))
    obs.append(guarded(lambda: tri(i.is_ipv6())))
    obs.append(guarded(lambda: opt(i.split_path()[0])))
    obs.append(guarded(lambda: opt(i.split_path()[1])))
    obs.append(guarded(lambda: qmap_ser(i.query_map)))
    return obs, i


def to_dict_consistent(i):
    """to_dict() is readable and repeats the attributes"""
    d = i.to_dict()
    for k in ('raw', 'scheme', 'authority', 'path', 'query', 'fragment', 'userinfo', 'username', 'password',
              'host', 'hostname', 'port', 'resource', 'url', 'encoding'):
        if d[k] != getattr(i, k):
            return False
    return d['netloc'] == i.authority


HEX = '0123456789abcdefABCDEF'


def property_failures(url, encoding, i, variants):
    """The C10 / C11 property text evaluated on the implementation's own answers.
    Returns a list of short reasons (empty = holds)."""
    bad = []
    if i is None:
        return bad
    # C11: every documented attribute readable
    for name in ('url', 'query_map', 'hostname_with_port'):
        try:
            getattr(i, name)
        except Exception as e:
            bad.append('accessor-%s-raises-%s' % (name, type(e).__name__))
    for name in ('to_dict', 'is_port_default', 'is_ipv6', 'split_path'):
        try:
            getattr(i, name)()
        except Exception as e:
            bad.append('accessor-%s-raises-%s' % (name, type(e).__name__))
    try:
        if not to_dict_consistent(i):
            bad.append('to_dict-inconsistent')
    except Exception:
        pass
    if i.scheme not in U.RELATIVE_SCHEME_DEFAULT_PORTS:
        return bad
    try:
        u1 = i.url
    except Exception:
        return bad
    # ASCII, no whitespace, no C0
    if any(ord(c) < 0x21 or ord(c) > 0x7f for c in u1):
        bad.append('not-ascii-clean')
    # canonical form
    if i.scheme != i.scheme.lower() or any('A' <= c <= 'Z' for c in i.scheme):
        bad.append('scheme-not-lower')
    if any('A' <= c <= 'Z' for c in i.hostname):
        bad.append('host-not-lower')
    dport = U.RELATIVE_SCHEME_DEFAULT_PORTS[i.scheme]
    rest = u1[len(i.scheme) + 3:]
    cut = min([rest.find(c) for c in '/?#' if c in rest] or [len(rest)])
    auth = rest[:cut]
    if auth.rpartition('@')[2].endswith(':%d' % dport):
        bad.append('default-port-not-omitted')
    if not i.path.startswith('/'):
        bad.append('path-not-absolute')
    segs = i.path.split('/')[1:]
    if any(s in ('.', '..') for s in segs) or any(s == '' for s in segs[:-1]):
        bad.append('path-has-dot-or-empty-segment')
    for k in range(len(u1) - 2):
        if u1[k] == '%' and u1[k + 1] in HEX and u1[k + 2] in HEX and (u1[k + 1:k + 3] != u1[k + 1:k + 3].upper()):
            bad.append('escape-not-upper')
            break
    # idempotence and re-parse
    try:
        i2 = parse_fresh(u1, encoding)
        u2 = i2.url
        if u2 != u1:
            bad.append('not-idempotent')
        for name in ('scheme', 'hostname', 'port', 'path', 'query'):
            if getattr(i2, name) != getattr(i, name):
                bad.append('reparse-changes-%s' % name)
    except Exception as e:
        bad.append('reparse-raises-%s' % type(e).__name__)
    # equivalent spellings normalize to the same string
    for tag, v in variants:
        try:
            uv = parse_fresh(v, encoding).url
        except Exception as e:
            bad.append('variant-%s-raises-%s' % (tag, type(e).__name__))
            continue
        if uv != u1:
            bad.append('variant-%s-differs' % tag)
    return bad


def mode_parse(req):
    out = []
    for c in req['cases']:
        done, res = with_deadline(lambda c=c: _parse_case(req, c))
        if not done:
            Rec.on = False
            res = {'obs': ['%06x%06x' % (ERRM, 99)], 'oracles': {'enc': [], 'idna': [], 'ipv6': [], 'int': [], 'unq': [], 'lower': []},
                   'bad': ['parse-raises-non-ValueError-kind-99-does-not-terminate'], 'url1': None, 'timeout': True}
        out.append(res)
    return {'results': out}


def _parse_case(req, c):
    if True:
        url = un6(c['url'])
        enc = c.get('enc', 'utf-8')
        Rec.reset(enc)
        Rec.on = True
        try:
            obs, i = observe(url, enc)
        finally:
            Rec.on = False
        # parse_url_or_log: never raises
        try:
            URLInfo.parse.cache_clear()
            r = U.parse_url_or_log(url, encoding=enc)
            pol = [0] if r is None else [1]
        except Exception as e:
            pol = [ERRM, kind(e)]
        obs.append(pol)
        # str.lower oracle: the scheme candidate
        s = url.strip().partition(':')[0]
        lower = [[h6(s), h6(s.lower())]] if not s.isascii() else []
        res = {'obs': [''.join('%06x' % x for x in f) for f in obs],
               'oracles': {'enc': Rec.enc, 'idna': Rec.idna, 'ipv6': Rec.ipv6, 'int': Rec.ints, 'unq': Rec.unq,
                           'lower': lower}}
        if req.get('prop', True):
            variants = [(t, un6(v)) for t, v in c.get('variants', [])]
            res['bad'] = property_failures(url, enc, i, variants)
            if pol and pol[0] == ERRM:
                res['bad'].append('parse_url_or_log-raises')
            if obs[0][0] == ERRM and obs[0][1] not in (1, 2, 3):
                res['bad'].append('parse-raises-non-ValueError-kind-%d' % obs[0][1])
            res['url1'] = None
            if i is not None:
                try:
                    res['url1'] = h6(i.url)
                except Exception:
                    pass
        return res


# --------------------------------------------------------------------------
# history: URLInfo.parse is memoised (functools.lru_cache) and its results are handed around the crawler (URL rewriter, filters,
# processors).  Normalisation must be a function of the string: whatever other code did with earlier results, parsing the same
# string again (cache hit or not) gives the same normalised URL and components.
# --------------------------------------------------------------------------
def _components(i):
    return [i.url, i.scheme, i.hostname, i.port, i.path, i.query, i.fragment]


def mode_history(req):
    # a parser that does not terminate is reported by the parse stream (per-case deadlines); here the whole pass is bounded
    done, res = with_deadline(lambda: _mode_history(req), 120)
    return res if done else {'bad': [], 'checked': 0, 'timeout': True}


def _mode_history(req):
    from wpull.urlrewrite import URLRewriter
    urls = [un6(u) for u in req['urls']]
    fresh = []
    for u in urls:
        try:
            fresh.append(_components(parse_fresh(u)))
        except Exception as e:
            fresh.append(['ERR', type(e).__name__])
    bad = []
    for batch_start in range(0, len(urls), 60):            # within the 128 entries of the cache
        batch = list(range(batch_start, min(len(urls), batch_start + 60)))
        URLInfo.parse.cache_clear()
        rewriters = [URLRewriter(hash_fragment=True, session_id=True), URLRewriter(hash_fragment=True), URLRewriter(session_id=True)]
        for k in batch:
            try:
                i = URLInfo.parse(urls[k])
            except Exception:
                continue
            for rw in rewriters:                            # what the crawler does with a parsed link
                try:
                    j = rw.rewrite(i)
                    j.url, j.to_dict(), j.hostname_with_port, j.query_map
                except Exception:
                    pass
        for k in batch:
            try:
                again = _components(URLInfo.parse(urls[k]))
            except Exception as e:
                again = ['ERR', type(e).__name__]
            if again != fresh[k]:
                bad.append({'url': req['urls'][k], 'fresh': fresh[k], 'after_history': again})
    URLInfo.parse.cache_clear()
    return {'bad': bad, 'checked': len(urls)}


# --------------------------------------------------------------------------
# helper functions, one by one (component correspondence)
# --------------------------------------------------------------------------
def mode_components(req):
    out = []
    for c in req['cases']:
        done, res = with_deadline(lambda c=c: _component_case(c))
        out.append(res if done else {'err': 99, 'timeout': True})
    return {'results': out}


def _component_case(c):
    out = []
    if True:
        f = c['f']
        a = c['a']
        try:
            if f == 'flatten':
                r = h6(U.flatten_path(un6(a[0]), flatten_slashes=bool(a[1])))
            elif f == 'pe':
                sets = {'default': U.DEFAULT_ENCODE_SET, 'password': U.PASSWORD_ENCODE_SET,
                        'username': U.USERNAME_ENCODE_SET, 'query': U.QUERY_ENCODE_SET,
                        'fragment': U.FRAGMENT_ENCODE_SET}
                r = h6(_orig_pe(un6(a[0]), sets[a[1]]))
            elif f == 'upper':
                r = h6(U.uppercase_percent_encoding(un6(a[0])))
            elif f == 'ipv4':
                r = h6(U.normalize_ipv4_address(un6(a[0])))
            elif f == 'int':
                r = str(int(un6(a[0]), a[1]))
            elif f == 'strip':
                r = h6(un6(a[0]).strip())
            elif f == 'nhost':
                r = h6(_orig_nh(un6(a[0])))
            elif f == 'qmap':
                r = ''.join('%06x' % x for x in qmap_ser(U.query_to_map(un6(a[0]))))
            elif f == 'dec':
                r = h6('{}'.format(a[0]))
            elif f == 'unesc':
                r = urllib.parse.unquote_to_bytes(un6(a[0])).hex()
            else:
                raise RuntimeError('unknown component ' + f)
            out.append({'ok': r})
        except RuntimeError:
            raise
        except Exception as e:
            out.append({'err': kind(e)})
    return out[0]


# --------------------------------------------------------------------------
# finite facts about the interpreter the model hard-codes / the theorems assume
# --------------------------------------------------------------------------
def mode_sample(req):
    """finite facts about the interpreter the model hard-codes, and the oracle hypotheses of the
    C10 theorems (enc_ok, lower_ok, idna_ok, ipv6_ok, unquote_ok) sampled on the real library"""
    res = {}
    res['spaces'] = [c for c in range(0x110000) if chr(c).isspace()]
    res['hierarchy'] = [issubclass(UnicodeError, ValueError), issubclass(UnicodeEncodeError, UnicodeError),
                        issubclass(UnicodeDecodeError, UnicodeError),
                        issubclass(ipaddress.AddressValueError, ValueError),
                        not issubclass(LookupError, ValueError), not issubclass(RecursionError, ValueError)]
    bad = []
    counts = {}
    # lower_ok: str.lower() never produces a C0 control (every code point, and every generated scheme)
    n = 0
    for c in range(0x20, 0x110000):
        n += 1
        if any(ord(x) < 0x20 for x in chr(c).lower()):
            bad.append(['lower-produces-control', '%06x' % c])
    for hx in req.get('lower', []):
        s = un6(hx)
        n += 1
        if all(ord(x) >= 0x20 for x in s) and any(ord(x) < 0x20 for x in s.lower()):
            bad.append(['lower-produces-control', hx])
    counts['lower_ok'] = n
    # idna_ok: no C0 control in the output for input without one
    n = 0
    for hx in req.get('idna', []):
        s = un6(hx)
        try:
            r = s.encode('idna')
        except UnicodeError:
            continue
        n += 1
        if all(ord(x) >= 0x20 for x in s) and any(b < 0x20 for b in r):
            bad.append(['idna-output-control', hx])
    counts['idna_ok'] = n
    # ipv6_ok: alphabet and fixpoint
    n = 0
    for hx in req.get('ipv6', []):
        s = un6(hx)
        try:
            r = ipaddress.IPv6Address(s).compressed
        except ipaddress.AddressValueError:
            continue
        n += 1
        if any(c not in '0123456789abcdef:.' for c in r):
            bad.append(['ipv6-output-alphabet', hx])
        try:
            if ipaddress.IPv6Address(r).compressed != r:
                bad.append(['ipv6-not-fixpoint', hx])
        except ipaddress.AddressValueError:
            bad.append(['ipv6-output-rejected', hx])
    counts['ipv6_ok'] = n
    # enc_ok: per codec - ASCII identity and bytes >= 0x40 for a non-ASCII character over the whole BMP + astral sample;
    # character-wise on every string the run encoded
    n = 0
    for name in req.get('codecs', []):
        for c in list(range(0x80)) + list(range(0x80, 0x10000)) + list(range(0x10000, 0x110000, 257)):
            ch = chr(c)
            try:
                b = ch.encode(name)
            except UnicodeError:
                continue
            n += 1
            if c < 0x80:
                if b != bytes([c]):
                    bad.append(['enc-not-ascii-identity:' + name, '%06x' % c])
            elif not b or min(b) < 0x40:
                bad.append(['enc-non-ascii-char-gives-low-byte:' + name, '%06x' % c])
    for name, hx in req.get('enc_texts', []):
        s = un6(hx)
        try:
            b = s.encode(name)
        except UnicodeError:
            continue
        n += 1
        try:
            if b != b''.join(ch.encode(name) for ch in s):
                bad.append(['enc-not-character-wise:' + name, hx])
        except UnicodeError:
            bad.append(['enc-not-character-wise:' + name, hx])
    counts['enc_ok'] = n
    # unquote_ok: unquote(a) = unquote_to_bytes(a).decode(enc, 'replace') on ASCII text; codec round trip on what was encoded
    n = 0
    for name, hx in req.get('unq', []):
        a = un6(hx)
        if not a.isascii() or '%' not in a:
            continue
        n += 1
        if _orig_pd(a, encoding=name, errors='replace') != urllib.parse.unquote_to_bytes(a).decode(name, 'replace'):
            bad.append(['unquote-not-decode-of-unquote_to_bytes:' + name, hx])
    for name, hx in req.get('userinfo', []):
        t = un6(hx)
        try:
            b = t.encode(name)
        except UnicodeError:
            continue
        n += 1
        try:
            if b.decode(name, 'replace').encode(name) != b:
                bad.append(['codec-roundtrip:' + name, hx])
        except UnicodeError:
            bad.append(['codec-roundtrip:' + name, hx])
        for st in (U.USERNAME_ENCODE_SET, U.PASSWORD_ENCODE_SET):
            e = U.uppercase_percent_encoding(_orig_pe(t, st, name))
            n += 1
            if '%' in e and _orig_pd(e, encoding=name, errors='replace') != urllib.parse.unquote_to_bytes(e).decode(name, 'replace'):
                bad.append(['unquote-not-decode-of-unquote_to_bytes:' + name, h6(e)])
    counts['unquote_ok'] = n
    res['bad'] = bad
    res['counts'] = counts
    return res


def mode_consts(req):
    def bs(x):
        return sorted(x)
    return {'ports': sorted(U.RELATIVE_SCHEME_DEFAULT_PORTS.items()),
            'default': bs(U.DEFAULT_ENCODE_SET), 'password': bs(U.PASSWORD_ENCODE_SET),
            'username': bs(U.USERNAME_ENCODE_SET), 'query': bs(U.QUERY_ENCODE_SET),
            'fragment': bs(U.FRAGMENT_ENCODE_SET), 'forbidden': sorted(ord(c) for c in U.FORBIDDEN_HOSTNAME_CHARS),
            'c0': sorted(ord(c) for c in U.C0_CONTROL_SET)}


def main():
    req = json.load(sys.stdin)
    sys.setrecursionlimit(3000)
    mode = req.get('mode', 'parse')
    res = {'history': mode_history, 'parse': mode_parse, 'components': mode_components, 'sample': mode_sample,
           'consts': mode_consts}[mode](req)
    print(json.dumps(res))


if __name__ == '__main__':
    main()
