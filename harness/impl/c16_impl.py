"""Implementation side of C16: drive the REAL wpull request construction
(request factory of application/tasks/download.py, WebProcessorSession._new_initial_request,
WebClient/WebSession, http Client/Session, Stream.write_request, Request.to_bytes,
CookieJarWrapper over a real http.cookiejar.CookieJar with wpull's cookie policy)
over a scripted connection pool (no sockets) and capture the exact bytes each hop
writes, together with the inputs the Coq model takes as given: the URL components
the real parser produced for every URL involved, the fields of a factory request,
and what the cookie jar wanted to send each time it was asked."""
import asyncio
import functools
import http.cookiejar
import json
import sys
import types
import urllib.request

import harness.compat  # noqa
import wpull.url
from wpull.url import URLInfo
from wpull.application.tasks.download import ClientSetupTask
from wpull.cookie import DeFactoCookiePolicy
from wpull.cookiewrapper import CookieJarWrapper
from wpull.errors import ProtocolError
from wpull.processor.web import WebProcessorSession
from wpull.protocol.http.client import Client
from wpull.protocol.http.redirect import RedirectTracker
from wpull.protocol.http.request import Request, Response
from wpull.protocol.http.stream import Stream
from wpull.protocol.http.web import WebClient


def components(info):
    """what the model takes as the parsed URL (all produced by wpull/url.py)"""
    if info is None:
        return None
    defport = wpull.url.RELATIVE_SCHEME_DEFAULT_PORTS.get(info.scheme) or 0
    if not defport:
        return {'scheme': info.scheme, 'defport': 0, 'relative': False, 'url': info.url}
    return {
        'relative': True,
        'scheme': info.scheme, 'defport': defport,
        'hostname': info.hostname, 'ipv6': bool(info.is_ipv6()), 'port': info.port,
        'path': info.path, 'query': info.query or '',
        'user': info.username or '', 'pass': info.password or '',
        'user_enc': wpull.url.normalize_username(info.username or ''),
        'pass_enc': wpull.url.normalize_password(info.password or ''),
        # kept for the Python-side predicate only (not model inputs)
        'hwp': info.hostname_with_port, 'url': info.url,
    }


class FakeConnection:
    def __init__(self, pool, key, proxied, tunneled):
        self.pool = pool
        self.key = key
        self.proxied = proxied
        self.tunneled = tunneled
        self.address = ('127.0.0.1', key[1] or 0)
        self._closed = True
        self.buf = None
        self.writes = []

    def closed(self):
        return self._closed

    def close(self):
        self._closed = True

    def reset(self):
        pass

    @asyncio.coroutine
    def connect(self):
        self._closed = False

    @asyncio.coroutine
    def write(self, data, drain=True):
        self.writes.append(bytes(data))

    def _fill(self):
        if self.buf is None:
            self.buf = self.pool.next_response()

    @asyncio.coroutine
    def readline(self):
        self._fill()
        i = self.buf.find(b'\n')
        if i < 0:
            d, self.buf = self.buf, b''
        else:
            d, self.buf = self.buf[:i + 1], self.buf[i + 1:]
        return d

    @asyncio.coroutine
    def read(self, n=-1):
        self._fill()
        if n < 0:
            d, self.buf = self.buf, b''
        else:
            d, self.buf = self.buf[:n], self.buf[n:]
        return d


class FakePool:
    """stands for ConnectionPool / HTTPProxyConnectionPool: one connection per exchange"""
    def __init__(self, responses, proxy, direct_hosts=(), proxy_auth=None):
        self.responses = list(responses)
        self.proxy = proxy
        self.direct_hosts = set(direct_hosts)      # hosts the proxy's host filter excludes: reached directly
        self.proxy_auth = proxy_auth               # --proxy-user / --proxy-password
        self.connections = []
        if proxy:
            self.acquire_proxy = self._acquire_proxy
            self.add_auth_header = self._add_auth_header

    def _add_auth_header(self, request):
        # HTTPProxyConnectionPool.add_auth_header: the pool itself puts it on the CONNECT request of a tunnel only
        if self.proxy_auth:
            request.fields['Proxy-Authorization'] = self.proxy_auth

    def next_response(self):
        return self.responses.pop(0) if self.responses else b''

    @asyncio.coroutine
    def acquire(self, host, port, use_ssl=False, host_key=None):
        c = FakeConnection(self, (host, port, use_ssl), False, False)
        self.connections.append(c)
        return c

    @asyncio.coroutine
    def _acquire_proxy(self, host, port, use_ssl=False, host_key=None, tunnel=True):
        # HTTPProxyConnectionPool.acquire_proxy: a host the host filter rejects is reached directly; else proxied, tunnelled
        # (CONNECT) when asked to
        if host in self.direct_hosts:
            c = FakeConnection(self, (host, port, use_ssl), False, False)
            self.connections.append(c)
            return c
        c = FakeConnection(self, (host, port, use_ssl), True, bool(tunnel))
        self.connections.append(c)
        return c

    def no_wait_release(self, c):
        pass

    def close(self):
        pass


class RecordingJar(http.cookiejar.CookieJar):
    """the real jar; records what it wanted to send (asked on a request without any
    header) each time wpull's wrapper asks it - the model's oracle answers"""
    def __init__(self, *a, **k):
        super().__init__(*a, **k)
        self.asked = []

    def add_cookie_header(self, request):
        probe = urllib.request.Request(request.full_url, origin_req_host=request.origin_req_host)
        super().add_cookie_header(probe)
        ans = probe.unredirected_hdrs.get('Cookie')
        extra = sorted(k for k in list(probe.unredirected_hdrs) + list(probe.headers) if k != 'Cookie')
        self.asked.append({'url': request.full_url, 'answer': ans, 'extra': extra})
        return super().add_cookie_header(request)


class RecordingWrapper(CookieJarWrapper):
    """wpull's wrapper; records when urllib.request.Request() refuses the URL (ValueError)
    before the jar is reached"""
    def add_cookie_header(self, request, referrer_host=None):
        n = len(self._cookie_jar.asked)
        try:
            return super().add_cookie_header(request, referrer_host)
        except ValueError:
            if len(self._cookie_jar.asked) == n:
                self._cookie_jar.asked.append({'url': request.url_info.url, 'answer': None, 'raise': True, 'extra': []})
            raise


    def extract_cookies(self, response, request, referrer_host=None):
        """records when http.cookiejar refuses the request URL (ValueError from urllib.parse.urlsplit) while
        the cookies of a response are taken in"""
        try:
            return super().extract_cookies(response, request, referrer_host)
        except ValueError:
            self.extract_raised = True
            raise


def response_bytes(r):
    out = b'HTTP/1.1 %d R\r\nContent-Length: 0\r\n' % r['status']
    if r.get('location') is not None:
        out += b'Location: ' + bytes.fromhex(r['location']) + b'\r\n'
    for sc in r.get('set_cookie', []):
        out += b'Set-Cookie: ' + bytes.fromhex(sc) + b'\r\n'
    return out + b'\r\n'


def classify_location(base_url, location):
    """the same two calls _process_redirect makes (RedirectTracker.next_location + Request(url))"""
    if not location:
        return 'none'
    try:
        url = wpull.url.urljoin(base_url, location)
    except ValueError:
        return 'bad-join'
    if not url:
        return 'falsy'
    try:
        info = URLInfo.parse(url)
    except ValueError:
        return 'bad-parse'
    return components(info)


def run_case(case, loop):
    out = {}
    opts = case['opts']
    # --- the request factory of the application (real code) over fake parsed arguments
    app_session = types.SimpleNamespace(
        factory=types.SimpleNamespace(class_map={'Request': Request}),
        default_user_agent='Wpull/verif',
        args=types.SimpleNamespace(
            user_agent=opts.get('user_agent'), referer=opts.get('referer'),
            header=opts.get('header', []), http_compression=opts.get('compression', False),
            no_cache=opts.get('no_cache', False)))
    factory = ClientSetupTask._build_request_factory(app_session)
    probe = factory('http://probe.invalid/')
    out['base'] = [[n, list(vs)] for n, vs in probe.fields._map.items()]

    try:
        info0 = URLInfo.parse(case['url'])
        info0.url
    except ValueError:
        return {'skip': 'url does not parse'}
    parent_url = None
    if case.get('parent') is not None:
        try:
            parent_url = URLInfo.parse(case['parent']).url      # what the URL table stores
            out['parent'] = components(URLInfo.parse(parent_url))
        except ValueError:
            return {'skip': 'parent does not parse'}
    out['u0'] = components(URLInfo.parse(info0.url))
    if not out['u0']['relative'] or (out.get('parent') and not out['parent']['relative']):
        return {'skip': 'not a network URL'}

    pool = FakePool([response_bytes(r) for r in case['responses']], case.get('proxy', False),
                    case.get('proxy_direct_hosts') or (), case.get('proxy_auth'))
    stream_factory = functools.partial(Stream, ignore_length=case.get('ignore_length', False),
                                       keep_alive=not case.get('ignore_length', False))
    client = Client(connection_pool=pool, stream_factory=stream_factory)
    jar = None
    wrapper = None
    if case.get('use_jar', True):
        jar = RecordingJar()
        jar.set_policy(DeFactoCookiePolicy(cookie_jar=jar))
        wrapper = RecordingWrapper(jar)
        for pre in case.get('preload', []):
            # cookies already in the jar from earlier fetches: set by a response for that URL
            resp = Response(200, 'OK')
            for sc in pre['set_cookie']:
                resp.fields.add('Set-Cookie', sc)
            try:
                wrapper.extract_cookies(resp, Request(pre['url']))
            except ValueError:
                pass
        wrapper.extract_raised = False
    web_client = WebClient(client, request_factory=factory,
                           redirect_tracker_factory=functools.partial(RedirectTracker,
                                                                      max_redirects=case.get('max_redirects', 20)),
                           cookie_jar=wrapper)
    # --- the first request, built by the real WebProcessorSession code over a fake item session
    ps = WebProcessorSession.__new__(WebProcessorSession)
    record = types.SimpleNamespace(url_info=URLInfo.parse(info0.url), url=info0.url, parent_url=parent_url,
                                   post_data=case.get('post'))
    ps._item_session = types.SimpleNamespace(
        url_record=record, app_session=types.SimpleNamespace(factory={'WebClient': web_client}))
    ps._fetch_rule = types.SimpleNamespace(http_login=tuple(case['login']) if case.get('login') else None)
    ps._processor = types.SimpleNamespace(fetch_params=types.SimpleNamespace(post_data=None))
    ps._file_writer_session = None
    request = ps._new_initial_request()
    try:
        session = web_client.session(request)
    except ValueError:
        if jar is not None and jar.asked and jar.asked[-1].get('raise'):
            out.update({'hops': [], 'locs': [], 'end': 5, 'jar': jar.asked})
            return out
        raise

    hops = []
    locs = []
    end = None
    last_raw = [None]
    n_resp = len(case['responses'])

    async def go():
        nonlocal end
        while True:
            if session.done():
                end = 0
                return
            if len(hops) >= n_resp:
                end = 9
                return
            nxt = session.next_request()
            if wpull.url.RELATIVE_SCHEME_DEFAULT_PORTS.get(nxt.url_info.scheme) is None:
                end = 'non-network-scheme'      # the scheme filter of the processor stops here
                return
            hop = {'url': components(nxt.url_info), 'sent': None}
            hops.append(hop)
            n_conn = len(pool.connections)
            n_asked = len(jar.asked) if jar is not None else 0
            try:
                response = await session.start()
            except ProtocolError as e:
                msg = str(e)
                end = {'Too many redirects.': 1, 'Redirect location missing.': 2,
                       'Invalid redirect location.': 3}.get(msg, 'ProtocolError:' + msg)
                response = None
            except Exception as e:           # anything else is not predicted by the model
                end = 'exc:%s' % type(e).__name__
                if isinstance(e, ValueError) and jar is not None and len(jar.asked) > n_asked and jar.asked[-1].get('raise'):
                    end = 5
                elif isinstance(e, ValueError) and wrapper is not None and getattr(wrapper, 'extract_raised', False):
                    end = 5
                    hop['xraise'] = True
                response = None
            conns = pool.connections[n_conn:]
            if conns and conns[0].writes:
                c = conns[0]
                hop['sent'] = c.writes[0].hex()
                hop['body_writes'] = [w.hex() for w in c.writes[1:]]
                hop['full'] = bool(c.proxied and not c.tunneled)
                hop['conn'] = [c.key[0], c.key[1], bool(c.key[2])]
            # classify the Location of the response that was (or would have been) processed
            raw = session.redirect_tracker._response
            if raw is not None and raw is not last_raw[0]:
                last_raw[0] = raw
                locs.append(classify_location(raw.request.url_info.url, raw.fields.get('location')))
            if response is None:
                return
            try:
                await session.download()
            except Exception as e:
                end = 'exc-download:%s' % type(e).__name__
                return

    loop.run_until_complete(go())
    out['hops'] = hops
    out['locs'] = locs
    out['end'] = end
    out['jar'] = jar.asked if jar is not None else []
    return out


def probe_copy_body():
    """does Request.copy() of a request that has a body raise? (model flag c_copy_body_fails)"""
    import io
    from wpull.body import Body
    r = Request('http://probe.invalid/')
    r.body = Body(io.BytesIO(b'x'))
    try:
        r.copy()
    except RecursionError:
        return True
    return False


def main():
    req = json.load(sys.stdin)
    loop = asyncio.new_event_loop()
    asyncio.set_event_loop(loop)
    res = []
    for case in req['cases']:
        try:
            res.append(run_case(case, loop))
        except Exception as e:    # driver trouble: reported, never hidden
            import traceback
            res.append({'driver_error': '%s: %s' % (type(e).__name__, e), 'tb': traceback.format_exc()[-1500:]})
    print(json.dumps({'results': res, 'copy_body_fails': probe_copy_body()}))


if __name__ == '__main__':
    main()
