"""Implementation side of C04: the REAL wpull HTTP ``Client``/``Session`` (client.py) with the REAL
``Stream`` and ``Connection`` over a scripted connection (harness/fakes/conn.py), recorded by the REAL
``WARCRecorder`` (recorder.listen_to_http_client).  The WARC file written by wpull is then parsed back by a
strict reader of our own (this file, ``read_warc``) and every record is returned.

stdin : {"cases": [ {"exchanges": [ {"segs": [hex,...], "method": "GET", "url": "http://h.test/x", "body": hex|null,
                                     "eof_after": true}, ...],
                     "req_version": "HTTP/1.1", "keep_alive": true, "ignore_length": false}, ...]}
stdout: {"results": [ {"exchanges": [ {error, status, written (hex of what reached the writer), closed, consumed, recd,
                                       reads, new_connection}, ...],
                       "records": [ {type, uri, id, concurrent_to, block (hex), content_length_ok, ...}, ...]} ]}"""
import functools
import io
import json
import os
import re
import shutil
import sys
import tempfile
import zlib

import harness.compat  # noqa
from harness.compat import new_loop
from harness.fakes.conn import ScriptedConnection
import asyncio
from wpull.body import Body
from wpull.protocol.http.client import Client
from wpull.protocol.http.request import Request
from wpull.protocol.http.stream import Stream
from wpull.warc.recorder import WARCRecorder, WARCRecorderParams


WB = {'W31': 31, 'W15': 15, 'WRaw': -15}


def ztable(body, wbits):
    """per input byte: (error?, eof?, number of output bytes) of the real zlib + the output (as in c08_impl)"""
    d = zlib.decompressobj(wbits)
    rows = []
    out = b''
    for i in range(len(body)):
        try:
            o = d.decompress(body[i:i + 1])
        except zlib.error:
            rows.append([1, 0, 0])
            break
        out += o
        rows.append([0, 1 if d.eof else 0, len(o)])
    return {'rows': rows, 'out': out.hex()}


class ScriptedPool(object):
    """Hands out the scripted connection; when wpull has closed it, the next acquire gets a fresh scripted
    connection that serves the remaining exchanges (a client reconnects after a close)."""

    def __init__(self, loop, make):
        self.loop = loop
        self.make = make
        self.sc = None
        self.made = 0

    @asyncio.coroutine
    def acquire(self, host, port, use_ssl=False, host_key=None):
        if self.sc is None or self.sc.explicitly_closed() or self.sc.reader.eof_fed:
            self.sc = self.make()
            self.made += 1
        return self.sc.connection
        yield   # pragma: no cover  (makes this a generator for asyncio.coroutine)

    def no_wait_release(self, connection):
        pass

    def close(self):
        pass


def read_warc(data):
    """Strict reader: WARC/1.0 CRLF, named fields CRLF ..., CRLF, Content-Length block bytes, CRLF CRLF."""
    recs = []
    pos = 0
    n = len(data)
    while pos < n:
        if data[pos:pos + 10] != b'WARC/1.0\r\n':
            raise ValueError('bad record start at %d: %r' % (pos, data[pos:pos + 20]))
        end = data.index(b'\r\n\r\n', pos)
        lines = data[pos + 10:end].split(b'\r\n')
        fields = {}
        for ln in lines:
            k, _, v = ln.partition(b':')
            if not _:
                raise ValueError('bad field line %r' % ln)
            fields[k.decode('latin-1').lower()] = v.strip().decode('latin-1')
        cl = fields['content-length']
        if not re.fullmatch(r'[0-9]+', cl):
            raise ValueError('bad content-length %r' % cl)
        cl = int(cl)
        block = data[end + 4:end + 4 + cl]
        if len(block) != cl:
            raise ValueError('record block cut short')
        if data[end + 4 + cl:end + 8 + cl] != b'\r\n\r\n':
            raise ValueError('record not followed by CRLF CRLF at %d' % (end + 4 + cl))
        pos = end + 8 + cl
        recs.append({'type': fields.get('warc-type'), 'uri': fields.get('warc-target-uri'), 'id': fields.get('warc-record-id'),
                     'concurrent_to': fields.get('warc-concurrent-to'), 'block': block.hex(),
                     'truncated': fields.get('warc-truncated'), 'refers_to': fields.get('warc-refers-to')})
    return recs


def run_case(loop, case, workdir):
    exchanges = case['exchanges']
    state = {'next': 0}

    def make():
        k = state['next']
        rest = exchanges[k:]
        return ScriptedConnection(loop, [[bytes.fromhex(s) for s in ex['segs']] for ex in rest],
                                  eof_after=[ex.get('eof_after', True) for ex in rest])
    pool = ScriptedPool(loop, make)
    streams = []

    def stream_factory(connection):
        stream = Stream(connection, keep_alive=case.get('keep_alive', True), ignore_length=case.get('ignore_length', False))
        pieces = []
        real = stream._decompress_data

        def logged(data):
            pieces.append(bytes(data))
            return real(data)
        stream._decompress_data = logged
        streams.append((stream, pieces))
        return stream
    client = Client(connection_pool=pool, stream_factory=stream_factory)
    d = tempfile.mkdtemp(dir=workdir)
    recorder = WARCRecorder(os.path.join(d, 'out'), WARCRecorderParams(compress=False, log=False, temp_dir=d, digests=True))
    recorder.listen_to_http_client(client)
    out = []
    for k, ex in enumerate(exchanges):
        state['next'] = k
        request = Request(ex['url'], method=ex.get('method', 'GET'), version=case.get('req_version', 'HTTP/1.1'))
        if ex.get('body') is not None:
            body = bytes.fromhex(ex['body'])
            request.body = Body(io.BytesIO(body))
            request.fields['Content-Length'] = str(len(body))
        r = {'error': None, 'status': None}
        made_before = pool.made
        sink = io.BytesIO()

        @asyncio.coroutine
        def go():
            with client.session() as session:
                sc_holder.append(None)
                response = yield from session.start(request)
                r['status'] = response.status_code
                r['_enc'] = response.fields.get('Content-Encoding', '').lower()
                yield from session.download(file=sink)
        # the scripted connection must know that a request is about to be written: hook acquire
        sc_holder = []
        real_acquire = pool.acquire

        @asyncio.coroutine
        def acquire(host, port, use_ssl=False, host_key=None):
            conn = yield from real_acquire(host, port, use_ssl)
            sc = pool.sc
            r['_w0'] = len(sc.writer.chunks)
            r['_c0'] = sc.consumed()
            r['_r0'] = len(sc.read_log)
            sc.begin_exchange()
            return conn
        pool.acquire = acquire
        try:
            loop.run_until_complete(go())
        except Exception as error:           # the kind is the observable
            r['error'] = type(error).__name__
        pool.acquire = real_acquire
        sc = pool.sc
        r['new_connection'] = pool.made > made_before
        if sc is not None and '_w0' in r:
            r['written_pieces'] = [c.hex() for c in sc.writer.chunks[r.pop('_w0'):]]
            r['written'] = ''.join(r['written_pieces'])
            c0 = r.pop('_c0')
            r['consumed'] = sc.consumed() - c0
            r['reads'] = [[b - c0, n] for b, n in sc.read_log[r.pop('_r0'):]]
            r['closed'] = sc.explicitly_closed()
            r['eof_fed'] = sc.reader.eof_fed
        r['body'] = sink.getvalue().hex()
        if streams:
            raw = b''.join(streams[-1][1])
            r['payload_len'] = len(raw)
            enc = r.pop('_enc', '')
            if enc in ('gzip', 'deflate') and raw:
                r['tables'] = {k2: ztable(raw, w) for k2, w in WB.items()}
        r.pop('_enc', None)
        del streams[:]
        out.append(r)
    recorder.close()
    with open(os.path.join(d, 'out.warc'), 'rb') as f:
        data = f.read()
    try:
        records = read_warc(data)
        warc_error = None
    except ValueError as e:
        records = []
        warc_error = str(e)
    shutil.rmtree(d, ignore_errors=True)
    return {'exchanges': out, 'records': records, 'warc_error': warc_error}


def main():
    req = json.load(sys.stdin)
    loop = new_loop()
    workdir = tempfile.mkdtemp(prefix='verif-c04-')
    try:
        res = [run_case(loop, c, workdir) for c in req.get('cases', [])]
    finally:
        shutil.rmtree(workdir, ignore_errors=True)
    print(json.dumps({'results': res}))


if __name__ == '__main__':
    main()
