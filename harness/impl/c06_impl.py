"""Implementation side of C06: run the REAL WARCRecorder.write_record under a
fault / crash adversary installed in the recorder module's namespace.

Injection layer (all harness-side, nothing in the repo is touched):
  * ``recorder.open``  -> faulty_open: builds the same io stack the builtin
    builds (TextIOWrapper / BufferedWriter / BufferedRandom) over a FileIO
    subclass whose raw ``write`` / ``close`` / ``truncate`` are the primitives;
  * ``recorder.gzip``  -> namespace whose GzipFile is a subclass of the real
    gzip.GzipFile that opens its underlying file through faulty_open;
  * ``recorder.os``    -> namespace delegating to os, with ``remove`` wrapped.
The adversary addresses primitives by their index in the event log of the
append (the k-th primitive), with a byte prefix for writes.  Mode 'fault'
raises OSError there (one-shot or sticky for later writes), mode 'crash' makes
a forked child ``os._exit`` there; the parent reads the directory back.
Mode 'pyfault' raises from the k-th Python-level ``out_file.write`` call.
A fault plan may carry ``crash2 = {j, done, prefix}``: after the fault fired the
process is killed at event number j of that run (retry writes, closes, every
primitive of the rollback and the final unlink); or ``fault2 = {j, done}``: a
second OSError is raised at event number j of that run (sequence of two faults).

A case either lists its plans or asks for the exhaustive enumeration
(``enumerate``): every primitive of the fault-free append x (fault | crash) x
(not done | done) resp. write prefixes, sticky faults, Python-level faults, and
for every fault plan every later event of that run as a second-level crash.
After every run a NEW recorder is constructed on the resulting directory (the
real ``WARCRecorder.__init__``) to observe the start-up refusal.

stdin: {"cases":[...]}; stdout: {"results":[...]}."""
import errno
import gzip as real_gzip
import io
import json
import os
import shutil
import sys
import tempfile
import types

import harness.compat  # noqa
import wpull.warc.recorder as R
from wpull.warc.format import WARCRecord


class Crash(BaseException):
    pass


class Ctl:
    """adversary state for one append"""

    def __init__(self):
        self.active = False
        self.events = []          # [kind, tag, detail]
        self.plan = None          # dict(mode, k, prefix, done, sticky)
        self.fired = False
        self.sticky_on = None
        self.pending = None
        self.in_rollback = False
        self.crash_seen = False
        self.tags = {}
        self.py_writes = 0
        self.bufsize = None
        self.fired_at = None
        self.dead = False
        self.fired2 = False

    def tag(self, path):
        return self.tags.get(os.path.abspath(path))

    def fire(self, act):
        """the planned primitive: raise OSError or kill the process"""
        if act['mode'] == 'crash':
            if self.plan.get('sim'):
                # simulated kill (no fork): from here on no primitive reaches the file system
                self.dead = True
                raise Crash()
            os._exit(77)
        if act['mode'] == 'fault2':
            raise OSError(errno.EIO, 'injected second fault')
        self.fired = True
        self.fired_at = len(self.events)
        if self.plan.get('sticky'):
            self.sticky_on = act.get('tag')      # every later write to that file fails too
        raise OSError(errno.ENOSPC, 'injected fault')

    def at(self, kind, tag):
        """called BEFORE primitive number len(events) takes effect; returns the action
        {mode, done, prefix} if this primitive is the planned one"""
        if self.dead:
            return None
        idx = len(self.events)
        self.events.append([kind, tag, None])
        if kind == 'open_rw':
            self.in_rollback = True
        plan = self.plan
        if not (self.active and plan):
            return None
        if not self.fired and plan['mode'] in ('fault', 'crash') and plan['k'] == idx:
            return {'mode': plan['mode'], 'done': plan.get('done', False), 'prefix': plan.get('prefix', 0),
                    'tag': tag}
        f2 = plan.get('fault2')
        if f2 and self.fired and idx == f2['j'] and not self.fired2:
            self.fired2 = True
            return {'mode': 'fault2', 'done': f2.get('done', False), 'prefix': f2.get('prefix', 0), 'tag': tag}
        c2 = plan.get('crash2')
        if c2 and self.fired and idx == c2['j']:
            return {'mode': 'crash', 'done': c2.get('done', False), 'prefix': c2.get('prefix', 0), 'tag': tag}
        return None


CTL = Ctl()


class FaultyFileIO(io.FileIO):
    def __init__(self, path, mode, tag):
        super().__init__(path, mode)
        self._tag = tag

    def write(self, b):
        b = bytes(b)
        if CTL.dead:
            return len(b)
        if CTL.sticky_on is not None and CTL.sticky_on == self._tag:
            CTL.events.append(['write', self._tag, 0])
            raise OSError(errno.ENOSPC, 'injected sticky fault')
        if CTL.pending == self._tag:
            # the call after a short write: this is where the OS reports the error
            CTL.pending = None
            CTL.events.append(['write', self._tag, 0])
            CTL.fire({'mode': 'fault', 'tag': self._tag})
        act = CTL.at('write', self._tag)
        if act is not None:
            p = min(act['prefix'], len(b))
            if p and act['mode'] == 'fault':
                # short write: the OS accepted p bytes; the error surfaces on the retry
                n = super().write(b[:p])
                CTL.events[-1][2] = n
                CTL.pending = self._tag
                return n
            if p:
                super().write(b[:p])
            CTL.events[-1][2] = p
            CTL.fire(act)
        n = super().write(b)
        CTL.events[-1][2] = n
        return n

    def truncate(self, size=None):
        if CTL.dead:
            return size
        act = CTL.at('truncate', self._tag)
        CTL.events[-1][2] = size
        if act is not None:
            if act['done']:
                super().truncate(size)
            CTL.fire(act)
        return super().truncate(size)

    def close(self):
        if self.closed:
            return
        act = CTL.at('close', self._tag)
        super().close()
        if act is not None:
            CTL.fire(act)


def faulty_open(path, mode='r', *args, **kw):
    tag = CTL.tag(path) if CTL.active else None
    if tag is None:
        return io.open(path, mode, *args, **kw)
    if CTL.dead:
        raise Crash()
    kind = {'w': 'create', 'ab': 'open_append', 'wb': 'open_trunc', 'r+b': 'open_rw'}[mode]
    act = CTL.at(kind, tag)
    if act is not None and not act['done']:
        CTL.fire(act)
    rawmode = {'w': 'w', 'ab': 'a', 'wb': 'w', 'r+b': 'r+'}[mode]
    try:
        raw = FaultyFileIO(path, rawmode, tag)
    except OSError:
        CTL.events[-1][2] = 'oserror'
        if act is not None:
            CTL.fire(act)
        raise
    if act is not None:
        io.FileIO.close(raw)
        CTL.fire(act)
    bs = CTL.bufsize or io.DEFAULT_BUFFER_SIZE
    if mode == 'w':
        return io.TextIOWrapper(io.BufferedWriter(raw, bs), encoding='utf-8')
    if mode == 'r+b':
        return io.BufferedRandom(raw, bs)
    return io.BufferedWriter(raw, bs)


class PyWriteProxy:
    """counts Python-level write() calls on the archive file object (mode 'pyfault')"""

    def __init__(self, f):
        self._f = f

    def write(self, data):
        i = CTL.py_writes
        CTL.py_writes += 1
        plan = CTL.plan
        if CTL.active and plan and plan['mode'] == 'pyfault' and plan['k'] == i and not CTL.fired:
            CTL.fired = True
            CTL.fired_at = len(CTL.events)
            raise OSError(errno.EIO, 'injected python-level fault')
        return self._f.write(data)

    def __enter__(self):
        self._f.__enter__()
        return self

    def __exit__(self, *a):
        return self._f.__exit__(*a)

    def __getattr__(self, n):
        return getattr(self._f, n)


class FaultyGzipFile(real_gzip.GzipFile):
    def __init__(self, filename=None, mode=None, **kw):
        if CTL.active and filename is not None and CTL.tag(filename) and 'fileobj' not in kw:
            f = faulty_open(filename, mode)
            try:
                super().__init__(filename=filename, mode=mode, fileobj=f, **kw)
            except BaseException:
                f.close()
                raise
            self.myfileobj = f            # closed by GzipFile.close like its own
        else:
            super().__init__(filename=filename, mode=mode, **kw)


def open_for_recorder(path, mode='r', *a, **kw):
    f = faulty_open(path, mode, *a, **kw)
    if CTL.active and mode == 'ab' and CTL.tag(path) == 'A':
        return PyWriteProxy(f)
    return f


def gzip_for_recorder(filename=None, mode=None, **kw):
    f = FaultyGzipFile(filename=filename, mode=mode, **kw)
    if CTL.active and mode == 'ab' and filename is not None and CTL.tag(filename) == 'A':
        return PyWriteProxy(f)
    return f


def faulty_remove(path):
    tag = CTL.tag(path) if CTL.active else None
    if tag is None:
        return os.remove(path)
    if CTL.dead:
        return None
    act = CTL.at('unlink', tag)
    if act is not None:
        if act['done']:
            try:
                os.remove(path)
            except OSError:
                pass
        CTL.fire(act)
    try:
        return os.remove(path)
    except OSError:
        CTL.events[-1][2] = 'oserror'
        raise


class _FixedTime:
    @staticmethod
    def time():
        return 1000000000


def install():
    R.open = open_for_recorder
    gz = types.SimpleNamespace(GzipFile=gzip_for_recorder)
    R.gzip = gz
    osns = types.SimpleNamespace(**{k: getattr(os, k) for k in dir(os) if not k.startswith('__')})
    osns.remove = faulty_remove
    R.os = osns
    real_gzip.time = _FixedTime       # gzip member header mtime: deterministic bytes
    # record ids / dates are not under test here: deterministic, so that the probe run and
    # the adversarial runs of one configuration append exactly the same bytes
    import uuid
    import wpull.util
    counter = [0]

    def fake_uuid4():
        counter[0] += 1
        return uuid.UUID(int=(0x1234 << 100) | counter[0], version=4)
    uuid.uuid4 = fake_uuid4
    wpull.util.datetime_str = lambda: '2020-01-01T00:00:00Z'


def make_record(i, size, kind):
    rec = WARCRecord()
    rec.fields['WARC-Type'] = 'resource'
    rec.fields['Content-Type'] = 'application/octet-stream'
    rec.fields['WARC-Date'] = '2020-01-01T00:00:00Z'
    rec.fields['WARC-Record-ID'] = '<urn:uuid:00000000-0000-0000-0000-%012d>' % i
    rec.fields['WARC-Target-URI'] = 'urn:test:%d' % i
    if kind == 'zeros':
        body = b'\0' * size
    elif kind == 'text':
        body = (b'line %d of the block\r\n' % i * (size // 10 + 1))[:size]
    else:
        import random
        body = random.Random(i * 7919 + size).randbytes(size)
    rec.block_file = io.BytesIO(body)
    return rec


def snapshot(d):
    out = {}
    for fn in sorted(os.listdir(d)):
        p = os.path.join(d, fn)
        if os.path.isfile(p):
            with io.open(p, 'rb') as f:
                out[fn] = f.read().hex()
    return out


def restore(d, files):
    for fn in os.listdir(d):
        os.remove(os.path.join(d, fn))
    for fn, hx in files.items():
        with io.open(os.path.join(d, fn), 'wb') as f:
            f.write(bytes.fromhex(hx))


def new_ctl(A, J, plan, bufsize):
    global CTL
    CTL = Ctl()
    CTL.tags = {os.path.abspath(A): 'A', os.path.abspath(J): 'J'}
    CTL.plan = plan
    CTL.bufsize = bufsize
    CTL.active = True
    return CTL


def prefixes(n, how):
    if n <= 0:
        return [0]
    if how == 'all':
        return list(range(n))
    return sorted({0, 1, n // 2, n - 1} & set(range(n)))


def enum_plans(ref_events, ref_py_writes, how):
    """every primitive of the fault-free append, as fault and as crash point"""
    plans = [{'mode': 'none'}]
    for k, (kind, tag, detail) in enumerate(ref_events):
        if kind == 'write':
            for p in prefixes(detail, how):
                f = {'mode': 'fault', 'k': k, 'prefix': p}
                if p == (detail // 2 if detail > 1 else 0):
                    f['rep'] = True
                plans.append(f)
                plans.append({'mode': 'crash', 'k': k, 'prefix': p})
            plans.append({'mode': 'fault', 'k': k, 'prefix': 0, 'sticky': True})
        else:
            for done in (False, True):
                f = {'mode': 'fault', 'k': k, 'done': done}
                if done == (kind in ('create', 'open_append')):
                    f['rep'] = True       # the variant that leaves more behind
                plans.append(f)
                plans.append({'mode': 'crash', 'k': k, 'done': done})
    for i in range(ref_py_writes):
        plans.append({'mode': 'pyfault', 'k': i})
    return plans


def second_level(plan, run, how):
    """after the fault of `plan` fired: a kill at every later event of that run"""
    if plan['mode'] not in ('fault', 'pyfault') or plan.get('sticky') or not run.get('fired'):
        return []
    if plan['mode'] == 'fault' and not plan.get('rep'):
        return []          # one representative variant per faulted primitive (the later events do not depend on it)
    ev = run['events']
    out = []
    for j in range(run['fired_at'], len(ev)):
        kind, tag, detail = ev[j]
        # a second I/O error at this event
        if kind == 'write':
            out.append(dict(plan, fault2={'j': j, 'prefix': 0}))
        else:
            for done in (False, True):
                out.append(dict(plan, fault2={'j': j, 'done': done}))
        if kind == 'write':
            ps = prefixes(detail if isinstance(detail, int) else 0, 'few' if how != 'all' else 'all')
            for p in ps:
                out.append(dict(plan, crash2={'j': j, 'prefix': p}))
        else:
            for done in (False, True):
                out.append(dict(plan, crash2={'j': j, 'done': done}))
    return out


def run_case(case):
    d = tempfile.mkdtemp(prefix='c06-')
    res = {}
    global CTL
    try:
        prefix = os.path.join(d, case.get('prefix', 'out'))
        params = R.WARCRecorderParams(compress=case['compress'], log=False, temp_dir=d,
                                      digests=case.get('digests', True))
        CTL = Ctl()
        rec = R.WARCRecorder(prefix, params)
        for i, (sz, kind) in enumerate(case['prior']):
            r0 = make_record(i + 1, sz, kind)
            rec.set_length_and_maybe_checksums(r0)
            rec.write_record(r0)
        A = rec._warc_filename
        J = A + '-wpullinc'
        state = case.get('archive_state', 'normal')
        if state == 'absent':
            os.remove(A)
        elif state == 'empty':
            with io.open(A, 'wb'):
                pass
        for fn, hx in case.get('extra_files', {}).items():
            with io.open(os.path.join(d, fn), 'wb') as f:
                f.write(bytes.fromhex(hx))
        res['archive'] = os.path.basename(A)
        res['journal'] = os.path.basename(J)
        before = snapshot(d)
        res['before'] = before
        newrec = make_record(99, case['new'][0], case['new'][1])
        rec.set_length_and_maybe_checksums(newrec)
        bufsize = case.get('bufsize')
        # reference fault-free append: event log, chunks, data
        ctl = new_ctl(A, J, None, bufsize)
        rec.write_record(newrec)
        ctl.active = False
        res['ref_events'] = ctl.events
        res['ref_py_writes'] = ctl.py_writes
        after_ref = snapshot(d)
        res['after_ref'] = after_ref
        old = bytes.fromhex(before.get(res['archive'], ''))
        res['data'] = after_ref[res['archive']][len(old) * 2:]
        restore(d, before)
        assert snapshot(d) == before
        if case.get('leftover_journal') is not None:
            before = dict(before)
            before[res['journal']] = case['leftover_journal']
        how = case.get('enumerate')
        plans = list(case.get('plans', []))
        if how:
            plans += enum_plans(res['ref_events'], res['ref_py_writes'], how)
        restart = R.WARCRecorderParams(compress=case['compress'], log=False, temp_dir=d,
                                       appending=case.get('restart_appending', True))
        runs = []
        for plan in plans:
            run = run_plan(d, rec, newrec, A, J, plan, before, bufsize, prefix, restart)
            runs.append(run)
            if how and case.get('two_level', True):
                for n2, p2 in enumerate(second_level(plan, run, how)):
                    if p2.get('fault2'):
                        runs.append(run_plan(d, rec, newrec, A, J, p2, before, bufsize, prefix, restart))
                    elif case.get('kill') == 'sim':
                        # simulated kill; every 7th one is also done for real (fork + _exit) and compared
                        r2 = run_plan(d, rec, newrec, A, J, dict(p2, sim=True), before, bufsize, prefix, restart)
                        if n2 % 7 == 0:
                            r3 = run_plan(d, rec, newrec, A, J, p2, before, bufsize, prefix, restart)
                            r2['real_kill_agrees'] = (r3['outcome'] == r2['outcome'] and r3['after'] == r2['after']
                                                      and r3['refuses'] == r2['refuses'])
                        r2['plan'] = p2
                        r2['sim'] = True
                        runs.append(r2)
                    else:
                        runs.append(run_plan(d, rec, newrec, A, J, p2, before, bufsize, prefix, restart))
        if case.get('slim'):
            for run in runs:
                run.pop('events', None)
        res['runs'] = runs
    finally:
        CTL.active = False
        shutil.rmtree(d, ignore_errors=True)
    return res


def run_plan(d, rec, newrec, A, J, plan, before, bufsize, prefix, restart):
    # each plan starts from the same pre-append state
    restore(d, before)
    newrec.block_file.seek(0)
    out = {'plan': plan}
    if (plan['mode'] == 'crash' or plan.get('crash2')) and not plan.get('sim'):
        rfd, wfd = os.pipe()
        pid = os.fork()
        if pid == 0:
            os.close(rfd)
            try:
                new_ctl(A, J, plan, bufsize)
                try:
                    rec.write_record(newrec)
                    msg = 'completed'
                except OSError:
                    msg = 'oserror'
                except Exception as e:
                    msg = 'other:' + type(e).__name__
                os.write(wfd, msg.encode())
            finally:
                os._exit(0)
        os.close(wfd)
        msg = os.read(rfd, 100).decode()
        os.close(rfd)
        _, status = os.waitpid(pid, 0)
        code = os.waitstatus_to_exitcode(status)
        out['outcome'] = 'crashed' if code == 77 else (msg or 'child-exit-%d' % code)
    else:
        ctl = new_ctl(A, J, plan, bufsize)
        try:
            rec.write_record(newrec)
            out['outcome'] = 'completed'
        except OSError as e:
            out['outcome'] = 'oserror'
            out['exc'] = type(e).__name__
        except Crash:
            out['outcome'] = 'crashed'
        except Exception as e:        # anything else escaping write_record
            out['outcome'] = 'other:' + type(e).__name__
        finally:
            ctl.active = False
        out['fired'] = ctl.fired
        out['fired2'] = ctl.fired2
        out['fired_at'] = ctl.fired_at
        out['events'] = ctl.events
    out['after'] = snapshot(d)
    out['check_refuses'] = refuses(rec)
    # a NEW run on this directory: the real constructor
    CTL.active = False
    try:
        R.WARCRecorder(prefix, restart)
        out['refuses'] = False
    except OSError:
        out['refuses'] = True
    except Exception as e:
        out['refuses'] = 'other:' + type(e).__name__
    out['after_restart'] = snapshot(d)
    return out


def run_history_case(case):
    """a whole run: several appends, each under its own plan (or none), the recorder carrying on
    after every OSError; optionally a last append that is killed.  Before each attempt a fault-free
    probe of the same record gives the chunking (the directory is put back afterwards)."""
    d = tempfile.mkdtemp(prefix='c06h-')
    global CTL
    out = {}
    try:
        prefix = os.path.join(d, 'out')
        params = R.WARCRecorderParams(compress=case['compress'], log=False, temp_dir=d)
        CTL = Ctl()
        rec = R.WARCRecorder(prefix, params)
        A = rec._warc_filename
        J = A + '-wpullinc'
        state = case.get('archive_state', 'normal')
        if state == 'absent':
            os.remove(A)
        elif state == 'empty':
            with io.open(A, 'wb'):
                pass
        out['archive'] = os.path.basename(A)
        out['journal'] = os.path.basename(J)
        out['before'] = snapshot(d)
        bufsize = case.get('bufsize')
        attempts = []
        for i, att in enumerate(case['attempts']):
            newrec = make_record(200 + i, att['new'][0], att['new'][1])
            rec.set_length_and_maybe_checksums(newrec)
            pre = snapshot(d)
            ctl = new_ctl(A, J, None, bufsize)
            rec.write_record(newrec)
            ctl.active = False
            a = {'sizes': [e[2] for e in ctl.events if e[0] == 'write' and e[1] == 'A'],
                 'n_events': len(ctl.events)}
            old = bytes.fromhex(pre.get(out['archive'], ''))
            a['data'] = snapshot(d)[out['archive']][len(old) * 2:]
            restore(d, pre)
            newrec.block_file.seek(0)
            plan = att.get('plan')
            if plan and 'kfrac' in plan:
                # position given as a fraction of the primitives of this append (known only now);
                # n_events itself = beyond the last primitive (never fires)
                plan = dict(plan)
                plan['k'] = min(a['n_events'], int(plan.pop('kfrac') * (a['n_events'] + 1)))
                kind = ctl.events[plan['k']][0] if plan['k'] < a['n_events'] else None
                if kind == 'write':
                    plan['prefix'] = int(plan.pop('pfrac', 0) * ctl.events[plan['k']][2])
                    plan.pop('done', None)
                else:
                    plan.pop('pfrac', None)
                plan['kind'] = kind
            a['plan'] = plan
            if plan and plan['mode'] == 'crash':
                pid = os.fork()
                if pid == 0:
                    try:
                        new_ctl(A, J, plan, bufsize)
                        try:
                            rec.write_record(newrec)
                        except OSError:
                            pass
                    finally:
                        os._exit(0)
                _, status = os.waitpid(pid, 0)
                a['outcome'] = 'crashed' if os.waitstatus_to_exitcode(status) == 77 else 'not-crashed'
                attempts.append(a)
                break
            ctl = new_ctl(A, J, plan, bufsize)
            try:
                rec.write_record(newrec)
                a['outcome'] = 'completed'
            except OSError:
                a['outcome'] = 'oserror'
            except Exception as e:
                a['outcome'] = 'other:' + type(e).__name__
            finally:
                ctl.active = False
            a['fired'] = ctl.fired
            attempts.append(a)
        out['attempts'] = attempts
        out['after'] = snapshot(d)
    finally:
        CTL.active = False
        shutil.rmtree(d, ignore_errors=True)
    return out


def refuses(rec):
    """the start-up check of a new run on the resulting directory"""
    try:
        rec._check_journals_and_maybe_raise()
        return False
    except OSError:
        return True
    except Exception:
        # the check cannot be called on its own (it uses state only the constructor sets up): the constructor's verdict decides
        return None


def run_startup(case):
    """the real constructor (log off) in a directory with given files; relative prefix"""
    d = tempfile.mkdtemp(prefix='c06s-')
    try:
        for fn, hx in case['files'].items():
            p = os.path.join(d, fn)
            os.makedirs(os.path.dirname(p), exist_ok=True)
            with io.open(p, 'wb') as f:
                f.write(bytes.fromhex(hx))
        cwd = os.getcwd()
        os.chdir(d)
        try:
            out = {}
            if os.path.dirname(case['prefix']):
                os.makedirs(os.path.dirname(case['prefix']), exist_ok=True)
            rec = R.WARCRecorder.__new__(R.WARCRecorder)
            rec._prefix_filename = case['prefix']
            out['check_refuses'] = refuses(rec)
            params = R.WARCRecorderParams(compress=case.get('compress', False), log=False, temp_dir=d,
                                          appending=case.get('appending', True),
                                          max_size=case.get('max_size'))
            try:
                R.WARCRecorder(case['prefix'], params)
                out['refuses'] = False
            except OSError as e:
                out['refuses'] = True
                out['exc'] = type(e).__name__
            except Exception as e:
                out['refuses'] = 'other:' + type(e).__name__
            files = {}
            for root, _, fns in os.walk('.'):
                for fn in fns:
                    p = os.path.normpath(os.path.join(root, fn))
                    with io.open(p, 'rb') as f:
                        files[p] = f.read().hex()
            out['after'] = files
            return out
        finally:
            os.chdir(cwd)
    finally:
        shutil.rmtree(d, ignore_errors=True)


def run_gzsample(case):
    """front-locality of the gzip member decoder (assumption sample): one member decoded
    from c and from c + y gives the same payload and leaves rest + y"""
    import zlib
    c = bytes.fromhex(case['c'])
    y = bytes.fromhex(case['y'])

    def one(b):
        dd = zlib.decompressobj(31)
        try:
            p = dd.decompress(b)
        except zlib.error:
            return None
        if not dd.eof:
            return None
        return [p.hex(), dd.unused_data.hex()]
    a, b = one(c), one(c + y)
    return {'a': a, 'b': b}


def run_cdx_case(case):
    """the CDX line that follows an append cannot be written (its path has become a directory: open(..., 'a') fails with an
    OSError) - the append itself went through.  No fault controller: only the real recorder and the real file system."""
    d = tempfile.mkdtemp(prefix='c06x-')
    try:
        prefix = os.path.join(d, 'out')
        params = R.WARCRecorderParams(compress=case['compress'], log=False, temp_dir=d, cdx=True,
                                      digests=case.get('digests', True))
        rec = R.WARCRecorder(prefix, params)
        for i, (sz, kind) in enumerate(case['prior']):
            r0 = make_record(i + 1, sz, kind)
            rec.set_length_and_maybe_checksums(r0)
            rec.write_record(r0)
        A = rec._warc_filename
        cdx = [os.path.join(d, f) for f in os.listdir(d) if f.endswith('.cdx')]
        before = io.open(A, 'rb').read()
        newrec = make_record(99, case['new'][0], case['new'][1])
        # only HTTP response records are indexed
        newrec.fields['WARC-Type'] = 'response'
        newrec.fields['Content-Type'] = 'application/http; msgtype=response'
        payload = newrec.block_file.getvalue()
        newrec.block_file = io.BytesIO(b'HTTP/1.1 200 OK\r\nContent-Type: text/plain\r\nContent-Length: %d\r\n\r\n' % len(payload) + payload)
        rec.set_length_and_maybe_checksums(newrec)
        for c in cdx:
            os.remove(c)
            os.mkdir(c)
        try:
            rec.write_record(newrec)
            outcome = 'completed'
        except OSError as e:
            outcome = 'oserror'
        except Exception as e:       # noqa
            outcome = 'other:' + type(e).__name__
        after = io.open(A, 'rb').read()
        left = sorted(f for f in os.listdir(d) if f.endswith('-wpullinc'))
        for c in cdx:
            os.rmdir(c)
        try:
            R.WARCRecorder(prefix, R.WARCRecorderParams(compress=case['compress'], log=False, temp_dir=d, appending=True))
            refuses = False
        except OSError:
            refuses = True
        except Exception as e:       # noqa
            refuses = 'other:' + type(e).__name__
        return {'outcome': outcome, 'cdx_files': len(cdx), 'before': before.hex(), 'after': after.hex(), 'journals': left,
                'refuses': refuses}
    finally:
        shutil.rmtree(d, ignore_errors=True)


def main():
    req = json.load(sys.stdin)
    install()
    res = []
    for case in req['cases']:
        if case.get('kind') == 'startup':
            res.append(run_startup(case))
        elif case.get('kind') == 'history':
            res.append(run_history_case(case))
        elif case.get('kind') == 'gzsample':
            res.append(run_gzsample(case))
        elif case.get('kind') == 'cdx':
            res.append(run_cdx_case(case))
        else:
            res.append(run_case(case))
    print(json.dumps({'results': res}))


if __name__ == '__main__':
    main()
