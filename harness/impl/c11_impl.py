"""Implementation side of C11 (URL parsing and joining are total).

The parse / accessor / parse_url_or_log observation is the one of C10
(harness/impl/c10_impl.py: same real code, same oracle recording); this driver
adds the join mode: wpull.url.urljoin and wpull.scraper.util.urljoin_safe on
(base, link) pairs with every call of urllib.parse.urljoin recorded (arguments ->
result or exception kind), so that the Coq model of the wrapper can be evaluated
against the real library's answers.

stdin: {"mode": "parse"|"join"|"sample"|"consts"|"components", ...}   stdout: one JSON line."""
import json
import logging
import sys
import urllib.parse

import harness.compat  # noqa
import harness.impl.c10_impl as base
import wpull.url as U
import wpull.scraper.util as SU

h6, un6, kind, NONE, ERRM = base.h6, base.un6, base.kind, base.NONE, base.ERRM


def kind_join(e):
    k = kind(e)
    return 1 if k == 11 else k


class JoinRec:
    calls = []


_orig_urljoin = urllib.parse.urljoin


def rec_urljoin(b, u, allow_fragments=True):
    try:
        r = _orig_urljoin(b, u, allow_fragments=allow_fragments)
    except Exception as e:
        JoinRec.calls.append([h6(b), h6(u), None, kind_join(e), type(e).__name__])
        raise
    JoinRec.calls.append([h6(b), h6(u), h6(r), 0, ''])
    return r


class _Count(logging.Handler):
    n = 0

    def emit(self, record):
        record.getMessage()          # format the message as a real handler would
        _Count.n += 1


def mode_join(req):
    urllib.parse.urljoin = rec_urljoin
    lg = logging.getLogger('wpull')
    lg.addHandler(_Count())
    lg.setLevel(logging.WARNING)
    lg.propagate = False
    out = []
    try:
        for b6, l6 in req['pairs']:
            done, res = base.with_deadline(lambda b6=b6, l6=l6: _join_case(req, b6, l6))
            if not done:
                res = {'obs': ['%06x%06x' % (ERRM, 99), '%06x%06x' % (ERRM, 99)], 'calls': [],
                       'bad': ['urljoin-raises-does-not-terminate'], 'timeout': True}
            out.append(res)
    finally:
        urllib.parse.urljoin = _orig_urljoin
    return {'results': out, 'logged': _Count.n}


def _join_case(req, b6, l6):
    if True:
        if True:
            b, l = un6(b6), un6(l6)
            af = bool(req.get('allow_fragments', True))
            JoinRec.calls = []
            U.urljoin.cache_clear()
            try:
                r = U.urljoin(b, l, allow_fragments=af)
                j = [ord(c) for c in r]
                jexc = ''
            except Exception as e:
                j = [ERRM, kind_join(e)]
                jexc = type(e).__name__
            calls = JoinRec.calls
            U.urljoin.cache_clear()
            try:
                r = SU.urljoin_safe(b, l, allow_fragments=af)
                s = [NONE] if r is None else [ord(c) for c in r]
                sexc = ''
            except Exception as e:
                s = [ERRM, kind_join(e)]
                sexc = type(e).__name__
            bad = []
            if j and j[0] == ERRM and j[1] not in (1, 2, 3):
                bad.append('urljoin-raises-%s' % jexc)
            if s and s[0] == ERRM:
                bad.append('urljoin_safe-raises-%s' % sexc)
            for c in calls:
                if c[2] is None and c[3] not in (1, 2, 3):
                    bad.append('stdlib-urljoin-raises-%s' % c[4])
            return {'obs': [''.join('%06x' % x for x in j), ''.join('%06x' % x for x in s)],
                    'calls': [c[:4] for c in calls], 'bad': bad}


def main():
    req = json.load(sys.stdin)
    sys.setrecursionlimit(3000)
    mode = req.get('mode', 'parse')
    if mode == 'parse':
        # make the warning of parse_url_or_log go through a real handler (message formatting included)
        lg = logging.getLogger('wpull')
        lg.addHandler(_Count())
        lg.setLevel(logging.WARNING)
        lg.propagate = False
    res = {'parse': base.mode_parse, 'components': base.mode_components, 'join': mode_join,
           'sample': base.mode_sample, 'consts': base.mode_consts}[mode](req)
    print(json.dumps(res))


if __name__ == '__main__':
    main()
