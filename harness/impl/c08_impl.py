"""Implementation side of C08: the REAL wpull http Stream / Response /
ChunkedTransferReader / Connection read one or more responses from a scripted
connection (harness/fakes/conn.py) under the given segmentation.

stdin : {"cases": [ {"exchanges": [[seghex,...],...], "methods": [...], "req_version": "HTTP/1.1",
                     "keep_alive": true, "ignore_length": false, "write_requests": false,
                     "tables": true}, ...], "latin1": bool }
stdout: {"results": [ {"exchanges": [ {...observables...} ]}, ...], "latin1": {...}}"""
import io
import json
import sys
import zlib

import harness.compat  # noqa
from harness.compat import new_loop
from harness.fakes.conn import ScriptedConnection
import wpull.protocol.http.stream as S
from wpull.protocol.http.request import Request

WB = {'W31': 31, 'W15': 15, 'WRaw': -15}


def cps(s):
    """str -> hex6 code point string"""
    return ''.join('%06x' % ord(c) for c in s)


def ztable(body, wbits):
    d = zlib.decompressobj(wbits)
    rows = []
    out = b''
    for i in range(len(body)):
        try:
            o = d.decompress(body[i:i + 1])
        except zlib.error:
            rows.append([1, 0, 0])
            break
        out += o
        rows.append([0, 1 if d.eof else 0, len(o)])
    return {'rows': rows, 'out': out.hex()}


def run_case(loop, case):
    exchanges = [[bytes.fromhex(s) for s in ex] for ex in case['exchanges']]
    sc = ScriptedConnection(loop, exchanges, eof_after=case.get('eof_after'))
    conn = sc.connection
    stream = S.Stream(conn, keep_alive=case.get('keep_alive', True),
                      ignore_length=case.get('ignore_length', False))
    pieces = []
    real_decompress = stream._decompress_data

    def logged_decompress(data):
        pieces.append(bytes(data))
        return real_decompress(data)
    stream._decompress_data = logged_decompress
    notified = []
    stream.data_event_dispatcher.add_read_listener(lambda d: notified.append(bytes(d)))
    out = []
    for k in range(len(exchanges)):
        method = (case.get('methods') or ['GET'] * len(exchanges))[k]
        request = Request('http://h.test/x%d' % k, method=method, version=case.get('req_version', 'HTTP/1.1'))
        r = {'error': None, 'stage': None}
        del pieces[:]
        del notified[:]
        n_reads_before = len(sc.read_log)
        consumed_before = sc.consumed()
        body = io.BytesIO()
        response = None
        try:
            r['stage'] = 'request'
            if case.get('write_requests'):
                sc.begin_exchange()
                loop.run_until_complete(stream.write_request(request))
            else:
                sc.open_gate()
            r['stage'] = 'head'
            response = loop.run_until_complete(stream.read_response())
            r['stage'] = 'body'
            loop.run_until_complete(stream.read_body(request, response, file=body))
            r['stage'] = 'done'
        except Exception as error:      # the kind is the observable
            r['error'] = type(error).__name__
        if response is not None and response.status_code is not None:
            r['version'] = cps(response.version)
            r['status'] = response.status_code
            r['reason'] = cps(response.reason)
            r['fields'] = [[cps(n), cps(v)] for n, v in response.fields.get_all()]
        r['body'] = body.getvalue().hex()
        r['closed'] = sc.explicitly_closed()
        r['consumed'] = sc.consumed() - consumed_before
        r['eof_fed'] = sc.reader.eof_fed
        r['starved'] = sc.reader.starved
        r['reads'] = [[b - consumed_before, n] for b, n in sc.read_log[n_reads_before:]]
        r['recd'] = b''.join(notified).hex()
        raw = b''.join(pieces)
        r['payload_len'] = len(raw)
        enc = ''
        if response is not None and response.status_code is not None:
            enc = response.fields.get('Content-Encoding', '').lower()
        if case.get('tables') and enc in ('gzip', 'deflate') and raw:
            r['tables'] = {k2: ztable(raw, w) for k2, w in WB.items()}
        out.append(r)
        if r['error'] or r['closed'] or sc.reader.eof_fed:
            break
    return {'exchanges': out}


def latin1_tables():
    """what the running interpreter does on the 256 latin-1 characters: the
    model's concrete tables are compared with this on every run."""
    t = {}
    t['linebreak'] = [c for c in range(256) if len(('a' + chr(c) + 'b').splitlines()) == 2]
    t['space'] = [c for c in range(256) if chr(c).isspace()]
    t['strip'] = [c for c in range(256) if (chr(c) + 'a' + chr(c)).strip() == 'a']
    t['bstrip'] = [c for c in range(256) if (bytes([c]) + b'a' + bytes([c])).strip() == b'a']
    # cased: title() lower-cases the character that FOLLOWS a cased one
    t['cased'] = [c for c in range(256) if (chr(c) + 'A').title()[-1] == 'a']
    t['title'] = [[ord(x) for x in chr(c).title()] for c in range(256)]
    t['lower_after_cased'] = [[ord(x) for x in ('a' + chr(c)).title()[1:]] for c in range(256)]
    t['lower'] = [[ord(x) for x in chr(c).lower()] for c in range(256)]
    t['upper'] = [[ord(x) for x in chr(c).upper()] for c in range(256)]
    return t


def main():
    req = json.load(sys.stdin)
    loop = new_loop()
    res = [run_case(loop, c) for c in req.get('cases', [])]
    out = {'results': res}
    if req.get('latin1'):
        out['latin1'] = latin1_tables()
    if req.get('ints'):
        vals = []
        for base, hx in req['ints']:
            b = bytes.fromhex(hx)
            try:
                v = int(b, base) if base == 16 else int(b.decode('latin-1'), base)
                vals.append(('-0x%x' % -v) if v < 0 else ('0x%x' % v))     # hex: str() of a huge int is itself limited
            except ValueError:
                vals.append(None)
        out['ints'] = vals
    print(json.dumps(out))


if __name__ == '__main__':
    main()
