"""Implementation side of C19: run wpull's decoder classes on (kind, pieces),
record the real zlib's per-prefix behaviour (table for the Coq machine) and
sample the machine abstraction."""
import json
import sys
import zlib

import harness.compat  # noqa
import wpull.decompression as D

WB = {'W31': 31, 'W15': 15, 'WRaw': -15}


def run_decoder(kind, pieces):
    if kind == 'KGzip':
        d = D.GzipDecompressor()
    elif kind == 'KDeflate':
        d = D.DeflateDecompressor()
    else:
        d = None
    out = b''
    try:
        for p in pieces:
            out += d.decompress(p) if d else p
        out += d.flush() if d else b''
    except zlib.error:
        return None
    except Exception as error:      # any other exception class is not what the decoders promise
        return 'exception:' + type(error).__name__
    return out.hex()


def run_gzip_uncompress(body, truncated):
    """wpull.decompression.gzip_uncompress (used by the sitemap detector on a peeked prefix)"""
    try:
        return D.gzip_uncompress(body, truncated=truncated).hex()
    except zlib.error:
        return None
    except Exception as error:
        return 'exception:' + type(error).__name__


def run_stream_glue(kind, pieces):
    """The same through http.stream.Stream._setup/_decompress_data/_flush_decompressor."""
    import wpull.protocol.http.stream as S
    from wpull.protocol.http.request import Response
    from wpull.errors import ProtocolError
    st = S.Stream.__new__(S.Stream)
    st._decompressor = None
    st._ignore_length = False
    st._keep_alive = True
    resp = Response(200, 'OK')
    if kind == 'KGzip':
        resp.fields['Content-Encoding'] = 'gzip'
    elif kind == 'KDeflate':
        resp.fields['Content-Encoding'] = 'deflate'
    st._setup_decompressor(resp)
    out = b''
    try:
        for p in pieces:
            out += st._decompress_data(p)
        out += st._flush_decompressor()
    except ProtocolError:
        return None
    except Exception as error:      # anything else is not what the glue promises
        return 'exception:' + type(error).__name__
    return out.hex()


def table(body, wbits):
    d = zlib.decompressobj(wbits)
    rows = []
    out = b''
    for i in range(len(body)):
        try:
            o = d.decompress(body[i:i + 1])
        except zlib.error:
            rows.append([1, 0, 0])
            break
        out += o
        rows.append([0, 1 if d.eof else 0, len(o)])
    return {'rows': rows, 'out': out.hex()}


def machine_sample(body, pieces, wbits):
    """assumption sampling: piecewise real zlib == byte-wise real zlib (status, output, eof)."""
    def feed(chunks):
        d = zlib.decompressobj(wbits)
        out = b''
        try:
            for c in chunks:
                out += d.decompress(c)
            out += d.flush()
        except zlib.error:
            return ('err',)
        return ('ok', out, d.eof)
    a = feed(pieces)
    b = feed([body[i:i + 1] for i in range(len(body))])
    c = feed([body]) if body else feed([])
    return a == b == c


def after_eof_sample(body, wbits):
    """assumption sampling (premise of C19_data_after_end_marker_ignored): once eof is set,
    every further byte is swallowed - no output, no error, eof stays set, flush() stays empty.
    Returns (ok, number of bytes fed after eof)."""
    d = zlib.decompressobj(wbits)
    n = 0
    try:
        for i in range(len(body)):
            was = d.eof
            o = d.decompress(body[i:i + 1])
            if was:
                n += 1
                if o or not d.eof:
                    return False, n
        if d.eof:
            # also in one larger piece after eof
            if d.decompress(b'trailing bytes') or not d.eof or d.flush():
                return False, n
    except zlib.error:
        return (not d.eof), n          # an error BEFORE eof is fine; after eof it breaks the law
    return True, n


def cps(s):
    """str -> hex6 code point string"""
    return ''.join('%06x' % ord(c) for c in s)


def run_glue(loop, case):
    """One response read by the REAL Stream.read_response + Stream.read_body over the
    scripted connection.  Observed: the file content (also at the moment of an error),
    the error class, the value fields.get('Content-Encoding', '') the glue saw, the read
    strategy, every piece handed to _decompress_data, every Connection.read."""
    import io
    from harness.fakes.conn import ScriptedConnection
    import wpull.protocol.http.stream as S
    from wpull.protocol.http.request import Request
    segs = [bytes.fromhex(x) for x in case['segs']]
    head_len = case['head_len']
    sc = ScriptedConnection(loop, [segs], eof_after=[True])
    stream = S.Stream(sc.connection, keep_alive=case.get('keep_alive', True),
                      ignore_length=case.get('ignore_length', False))
    pieces = []
    real_decompress = stream._decompress_data

    def logged_decompress(data):
        pieces.append(bytes(data))
        return real_decompress(data)
    stream._decompress_data = logged_decompress
    request = Request('http://h.test/x', method='GET')
    body = io.BytesIO()
    r = {'error': None, 'stage': 'head'}
    response = None
    try:
        sc.open_gate()
        response = loop.run_until_complete(stream.read_response())
        r['stage'] = 'body'
        r['ce'] = cps(response.fields.get('Content-Encoding', ''))
        r['strategy'] = stream.get_read_strategy(response)
        n0 = len(sc.read_log)
        loop.run_until_complete(stream.read_body(request, response, file=body, raw=case.get('raw', False)))
        r['stage'] = 'done'
    except Exception as error:      # the class is the observable
        r['error'] = type(error).__name__
    r['file'] = body.getvalue().hex()
    r['pieces'] = [p.hex() for p in pieces]
    r['reads'] = [[b - head_len, n] for b, n in sc.read_log if b >= head_len]
    r['starved'] = sc.reader.starved
    r['decoder'] = type(stream._decompressor).__name__
    ent = bytes.fromhex(case['delivered'])
    if case.get('tables'):
        r['tables'] = {k: table(ent, w) for k, w in WB.items()}
    r['machine_ok'] = all(machine_sample(ent, pieces if b''.join(pieces) == ent else [ent], w) for w in WB.values())
    return r


def lower_fact():
    """The one fact about str.lower() that Model/DecompGlue.select_kind uses, checked over
    ALL of Unicode: an ASCII character lowers to ascii_lower of it, and the lower() of any
    other code point contains a character outside 'gzipdeflate' (so it can never help to
    spell one of the two names)."""
    letters = set('gzipdeflate')
    bad = []
    for c in range(0x110000):
        lo = chr(c).lower()
        if c < 128:
            exp = chr(c + 32) if 65 <= c <= 90 else chr(c)
            if lo != exp:
                bad.append(c)
        elif not (set(lo) - letters):
            bad.append(c)
    # context dependence (final sigma) cannot produce ASCII either; sample words around each letter
    for w in ('gzip', 'deflate'):
        for i in range(len(w) + 1):
            for c in (0x3a3, 0x130, 0x212a, 0x17f, 0xdf, 0x1e9e):
                t = w[:i] + chr(c) + w[i:]
                if t.lower() == w:
                    bad.append(c)
    return {'checked': 0x110000, 'bad': bad[:10]}


def gzip_deflate_offset(b):
    """harness-side reading of RFC 1952: where the deflate data of a gzip member starts
    (None: the fixed header is invalid or the optional fields are incomplete).  Only used to
    cut out the part of the body the RAW inflater table is recorded on."""
    if len(b) < 10 or b[0] != 0x1f or b[1] != 0x8b or b[2] != 8 or b[3] & 0xe0:
        return None
    flg, i = b[3], 10
    if flg & 4:
        if i + 2 > len(b):
            return None
        i += 2 + (b[i] | b[i + 1] << 8)
    for bit in (8, 16):
        if flg & bit:
            j = b.find(b'\x00', i)
            if j < 0:
                return None
            i = j + 1
    if flg & 2:
        i += 2
    return i if i <= len(b) else None


def wrap_case(body):
    """tables of the real zlib for wbits 15 / 31 and of the real RAW inflater on the deflate
    part, for the comparison with Model/DecompWrap (concrete framing over the raw table)."""
    off = gzip_deflate_offset(body)
    ae = [after_eof_sample(body, w) for w in WB.values()]
    return {'W15': table(body, 15), 'W31': table(body, 31),
            'after_eof_ok': all(a for a, _ in ae), 'after_eof_n': sum(n for _, n in ae),
            'machine_ok': all(machine_sample(body, [body[:len(body) // 2], body[len(body) // 2:]] if len(body) > 1 else [body], w)
                              for w in WB.values()),
            'raw15': table(body[2:], -15) if len(body) > 2 else None,
            'raw31': table(body[off:], -15) if off is not None and off < len(body) else None}


def main():
    req = json.load(sys.stdin)
    res = []
    if req.get('wrap') is not None:
        print(json.dumps({'results': [wrap_case(bytes.fromhex(h)) for h in req['wrap']]}))
        return
    if req.get('glue') is not None:
        from harness.compat import new_loop
        loop = new_loop()
        out = {'results': [run_glue(loop, c) for c in req['glue']]}
        if req.get('lower_fact'):
            out['lower_fact'] = lower_fact()
        print(json.dumps(out))
        return
    for case in req['cases']:
        kind = case['kind']
        pieces = [bytes.fromhex(p) for p in case['pieces']]
        body = b''.join(pieces)
        if 'gen' in case:        # large high-ratio bodies are built here, not shipped as hex
            g = case['gen']
            payload = b''.join(bytes.fromhex(u) * g['repeat'] for u in g['units'])
            if g['enc'] == 'gzip':
                import gzip
                body = gzip.compress(payload, g['level'], mtime=0)
            elif g['enc'] == 'zlib':
                body = zlib.compress(payload, g['level'])
            else:
                c = zlib.compressobj(g['level'], zlib.DEFLATED, -15)
                body = c.compress(payload) + c.flush()
            body = body[:len(body) - g.get('cut', 0)]
            cuts = [c % (len(body) + 1) for c in g['cuts']]
            if g.get('block'):
                cuts += list(range(g['block'], len(body), g['block']))
            cuts = sorted(set(c for c in cuts if 0 < c < len(body)))
            pieces = [body[a:b] for a, b in zip([0] + cuts, cuts + [len(body)])]
        r = {'stream': run_decoder(kind, pieces),
             'oneshot': run_decoder(kind, [body] if body else []),
             'glue': run_stream_glue(kind, pieces)}
        if 'gen' not in case:
            r['gunzip'] = [run_gzip_uncompress(body, False), run_gzip_uncompress(body, True)]
        if 'gen' in case:
            import hashlib
            for k in ('stream', 'oneshot', 'glue'):
                if r[k] is not None:
                    r[k] = 'sha1:%s:%d' % (hashlib.sha1(bytes.fromhex(r[k])).hexdigest(), len(r[k]) // 2)
            r['expect'] = 'sha1:%s:%d' % (hashlib.sha1(payload).hexdigest(), len(payload))
            r['n_pieces'] = len(pieces)
        if case.get('tables'):
            r['tables'] = {k: table(body, w) for k, w in WB.items()}
        r['machine_ok'] = all(machine_sample(body, pieces, w) for w in WB.values())
        ae = [after_eof_sample(body, w) for w in WB.values()]
        r['after_eof_ok'] = all(a for a, _ in ae)
        r['after_eof_n'] = sum(n for _, n in ae)
        res.append(r)
    print(json.dumps({'results': res}))


if __name__ == '__main__':
    main()
