"""Implementation side of C19: run wpull's decoder classes on (kind, pieces),
record the real zlib's per-prefix behaviour (table for the Coq machine) and
sample the machine abstraction."""
import json
import sys
import zlib

import harness.compat  # noqa
import wpull.decompression as D

WB = {'W31': 31, 'W15': 15, 'WRaw': -15}


def run_decoder(kind, pieces):
    if kind == 'KGzip':
        d = D.GzipDecompressor()
    elif kind == 'KDeflate':
        d = D.DeflateDecompressor()
    else:
        d = None
    out = b''
    try:
        for p in pieces:
            out += d.decompress(p) if d else p
        out += d.flush() if d else b''
    except zlib.error:
        return None
    return out.hex()


def run_stream_glue(kind, pieces):
    """The same through http.stream.Stream._setup/_decompress_data/_flush_decompressor."""
    import wpull.protocol.http.stream as S
    from wpull.protocol.http.request import Response
    from wpull.errors import ProtocolError
    st = S.Stream.__new__(S.Stream)
    st._decompressor = None
    st._ignore_length = False
    st._keep_alive = True
    resp = Response(200, 'OK')
    if kind == 'KGzip':
        resp.fields['Content-Encoding'] = 'gzip'
    elif kind == 'KDeflate':
        resp.fields['Content-Encoding'] = 'deflate'
    st._setup_decompressor(resp)
    out = b''
    try:
        for p in pieces:
            out += st._decompress_data(p)
        out += st._flush_decompressor()
    except ProtocolError:
        return None
    return out.hex()


def table(body, wbits):
    d = zlib.decompressobj(wbits)
    rows = []
    out = b''
    for i in range(len(body)):
        try:
            o = d.decompress(body[i:i + 1])
        except zlib.error:
            rows.append([1, 0, 0])
            break
        out += o
        rows.append([0, 1 if d.eof else 0, len(o)])
    return {'rows': rows, 'out': out.hex()}


def machine_sample(body, pieces, wbits):
    """assumption sampling: piecewise real zlib == byte-wise real zlib (status, output, eof)."""
    def feed(chunks):
        d = zlib.decompressobj(wbits)
        out = b''
        try:
            for c in chunks:
                out += d.decompress(c)
            out += d.flush()
        except zlib.error:
            return ('err',)
        return ('ok', out, d.eof)
    a = feed(pieces)
    b = feed([body[i:i + 1] for i in range(len(body))])
    c = feed([body]) if body else feed([])
    return a == b == c


def main():
    req = json.load(sys.stdin)
    res = []
    for case in req['cases']:
        kind = case['kind']
        pieces = [bytes.fromhex(p) for p in case['pieces']]
        body = b''.join(pieces)
        if 'gen' in case:        # large high-ratio bodies are built here, not shipped as hex
            g = case['gen']
            payload = b''.join(bytes.fromhex(u) * g['repeat'] for u in g['units'])
            if g['enc'] == 'gzip':
                import gzip
                body = gzip.compress(payload, g['level'], mtime=0)
            elif g['enc'] == 'zlib':
                body = zlib.compress(payload, g['level'])
            else:
                c = zlib.compressobj(g['level'], zlib.DEFLATED, -15)
                body = c.compress(payload) + c.flush()
            body = body[:len(body) - g.get('cut', 0)]
            cuts = [c % (len(body) + 1) for c in g['cuts']]
            if g.get('block'):
                cuts += list(range(g['block'], len(body), g['block']))
            cuts = sorted(set(c for c in cuts if 0 < c < len(body)))
            pieces = [body[a:b] for a, b in zip([0] + cuts, cuts + [len(body)])]
        r = {'stream': run_decoder(kind, pieces),
             'oneshot': run_decoder(kind, [body] if body else []),
             'glue': run_stream_glue(kind, pieces)}
        if 'gen' in case:
            import hashlib
            for k in ('stream', 'oneshot', 'glue'):
                if r[k] is not None:
                    r[k] = 'sha1:%s:%d' % (hashlib.sha1(bytes.fromhex(r[k])).hexdigest(), len(r[k]) // 2)
            r['expect'] = 'sha1:%s:%d' % (hashlib.sha1(payload).hexdigest(), len(payload))
            r['n_pieces'] = len(pieces)
        if case.get('tables'):
            r['tables'] = {k: table(body, w) for k, w in WB.items()}
        r['machine_ok'] = all(machine_sample(body, pieces, w) for w in WB.values())
        res.append(r)
    print(json.dumps({'results': res}))


if __name__ == '__main__':
    main()
