#!/usr/bin/env python3
"""Re-confirm seeded changes already filed under /verif/seeded/ against the CURRENT /repo HEAD (after fix commits moved the tree):
demo on a clean scratch worktree must exit 0, patch must apply, demo on the patched worktree must exit non-zero, the 111 baseline
tests must still pass.  Records the outcome in meta.json under "reconfirmed".  Usage: harness/reconfirm_seed.py [id ...]"""
import json
import os
import shutil
import subprocess
import sys
import tempfile

HERE = os.path.dirname(os.path.dirname(os.path.abspath(__file__)))
sys.path.insert(0, HERE)
from harness.confirm_seed import run, baseline_ok, TOOLS  # noqa


def main():
    root = os.path.join(HERE, 'seeded')
    ids = sys.argv[1:] or sorted(d for d in os.listdir(root) if d.startswith('C'))
    head = subprocess.run(['git', '-C', '/repo', 'rev-parse', '--short', 'HEAD'], capture_output=True, text=True).stdout.strip()
    bad = 0
    for sid in ids:
        d = os.path.join(root, sid)
        pid = sid.split('-')[0]
        wt = tempfile.mkdtemp(prefix='verif-seedconf-')
        os.rmdir(wt)
        subprocess.run(['git', '-C', '/repo', 'worktree', 'add', '-q', '--detach', wt, 'HEAD'], check=True)
        tmpd = tempfile.mkdtemp(prefix='verif-seeddemo-')
        try:
            env = dict(os.environ, PYTHONPATH='%s:%s' % (wt, TOOLS), PYTHONHASHSEED='0')
            demo = open(os.path.join(d, 'demo.py')).read()
            src = '/tmp/seed-%s' % pid.lower()
            demo2 = demo.replace('/tmp/seedtools', TOOLS).replace(src + '-out', tmpd).replace(src, wt)
            dp = os.path.join(tmpd, 'demo.py')
            open(dp, 'w').write(demo2)
            rc0, o0 = run(['/venv/bin/python', dp], tmpd, env)
            a = subprocess.run(['git', '-C', wt, 'apply', os.path.join(d, 'patch.diff')], capture_output=True, text=True)
            if a.returncode != 0:
                print(sid, 'REJECT patch does not apply', a.stderr[:200]); bad += 1; continue
            rc1, o1 = run(['/venv/bin/python', dp], tmpd, env)
            ok, missing = baseline_ok(wt)
            verdict = rc0 == 0 and rc1 not in (0, 124) and ok
            print(sid, 'CONFIRMED' if verdict else 'REJECT', 'clean rc=%d patched rc=%d baseline=%s %s' % (rc0, rc1, ok, missing), flush=True)
            if not verdict:
                bad += 1
                print('   clean:', o0[-300:].replace('\n', ' | ')); print('   patched:', o1[-300:].replace('\n', ' | '))
            meta = json.load(open(os.path.join(d, 'meta.json')))
            meta['reconfirmed'] = {'repo_head': head, 'demo_clean_rc': rc0, 'demo_patched_rc': rc1, 'baseline_111_pass_with_patch': ok,
                                   'confirmed': verdict, 'patched_demo_tail': o1[-300:]}
            json.dump(meta, open(os.path.join(d, 'meta.json'), 'w'), indent=1)
        finally:
            shutil.rmtree(tmpd, ignore_errors=True)
            subprocess.run(['git', '-C', '/repo', 'worktree', 'remove', '--force', wt])
    return 1 if bad else 0


if __name__ == '__main__':
    sys.exit(main())
