"""Compatibility shim: lets ArchiveTeam/wpull (written for Python 3.4/3.5) import
and run on this sandbox's Python 3.12 / SQLAlchemy 2 / html5lib 1.1 without
touching /repo.  Import this module BEFORE any ``wpull.*`` module.  Part of the
trusted base of every correspondence check (DESIGN.md 1.2, 5.7)."""
import sys, types, asyncio, collections, collections.abc, functools, inspect, ssl

for _n in ('Mapping', 'MutableMapping', 'Sequence', 'MutableSequence', 'Set',
           'MutableSet', 'Iterable', 'Callable', 'Hashable', 'Sized',
           'Container', 'Iterator'):
    if not hasattr(collections, _n):
        setattr(collections, _n, getattr(collections.abc, _n))


class CoroWrapper(collections.abc.Coroutine):      # iterable AND a Coroutine
    __slots__ = ('gen',)

    def __init__(self, gen): self.gen = gen
    def __iter__(self): return self
    def __next__(self): return self.gen.send(None)
    def send(self, v): return self.gen.send(v)
    def throw(self, *a): return self.gen.throw(*a)
    def close(self): return self.gen.close()
    def __await__(self): return self


def coroutine(func):
    if inspect.iscoroutinefunction(func) or getattr(func, '_compat_coro', False):
        return func
    if inspect.isgeneratorfunction(func):
        gen = types.coroutine(func)
    else:
        @types.coroutine
        def gen(*a, **kw):
            res = func(*a, **kw)
            if inspect.isawaitable(res) or inspect.isgenerator(res) or isinstance(res, CoroWrapper):
                res = yield from res
            return res

    @functools.wraps(func)
    def wrapper(*a, **kw): return CoroWrapper(gen(*a, **kw))
    wrapper._compat_coro = True
    return wrapper


asyncio.coroutine = coroutine
asyncio.coroutines.coroutine = coroutine
setattr(asyncio, 'async', asyncio.ensure_future)

import tornado.netutil
if not hasattr(tornado.netutil, 'SSLCertificateError'):
    tornado.netutil.SSLCertificateError = ssl.CertificateError
try:
    import imp  # noqa
except ImportError:
    sys.modules['imp'] = types.ModuleType('imp')


class _CM:
    def __init__(self, lock): self._lock = lock
    def __enter__(self): return None
    def __exit__(self, *a): self._lock.release()


def _lock_iter(self):                                # "with (yield from lock):"
    yield from self.acquire().__await__()
    return _CM(self)


import asyncio.locks
for _cls in (asyncio.locks.Lock, asyncio.locks.Condition, asyncio.locks.Semaphore):
    _cls.__iter__ = _lock_iter

_m = types.ModuleType('wpull.driver.process')        # real file is a SyntaxError on 3.7+


class Process:
    def __init__(self, *a, **k): raise RuntimeError('stub')


_m.Process = Process
sys.modules['wpull.driver.process'] = _m

import sqlalchemy


def _select_compat(*args, **kw):
    if len(args) == 1 and isinstance(args[0], (list, tuple)):
        args = tuple(args[0])
    return sqlalchemy.select(*args, **kw)


def patch_sqlalchemy():
    import wpull.database.sqltable as t, wpull.database.sqlmodel as m
    t.select = _select_compat
    m.select = _select_compat


try:
    import html5lib, html5lib._tokenizer as _tk

    class _CompatTokenizer(_tk.HTMLTokenizer):
        def __init__(self, stream, encoding=None, useChardet=True, parseMeta=True, **kw):
            if encoding:
                kw['override_encoding'] = encoding
            kw['useChardet'] = useChardet
            super().__init__(stream, **kw)

    _shim = types.ModuleType('html5lib.tokenizer')
    _shim.HTMLTokenizer = _CompatTokenizer
    sys.modules['html5lib.tokenizer'] = _shim
    html5lib.tokenizer = _shim
except ImportError:          # pragma: no cover
    pass


def disable_dnspython():
    import wpull.network.dns
    wpull.network.dns.Resolver.dns_python_enabled = property(lambda s: False, lambda s, v: None)


def new_loop():
    loop = asyncio.new_event_loop()
    asyncio.set_event_loop(loop)
    return loop
