"""C07 - each CDX line addresses exactly the record it describes.

Proof: coq/Props/C07.v over the model coq/Model/Warc.v (+ WarcText.v for the status / MIME
sniffing).  Tie: the machinery of harness/corr/c05.py (real WARCRecorder driven by the real
HTTP client on scripted connections and by FTP recorder-session calls) with --warc-cdx always
on: every CDX line's (file, offset, length) is cut out of the output files and must be exactly
one gzip member / one record with that record id, URL, checksum and date; the number of lines
must equal the number of response records; status and MIME type are compared with what the
generator put on the wire; and the Coq model must reproduce the .cdx and archive files byte
for byte."""
from harness.corr import c05
from harness.lib import common

PROP = 'C07'
PROP_FILE = 'Props/C07.v'
THEOREMS = ['C07_slice_is_record', 'C07_one_line_per_response', 'C07_line_addresses_its_record', 'C07_fields_agree',
            'C07_status_mime_partial', 'C07_status_mime_grammar', 'C07_status_code_of_status_line']
TRUSTED = c05.TRUSTED + [
    'status / MIME clause: C07_status_mime_grammar proves it against an independent field-line grammar (RFC 7230 3.2 without '
    'obsolete folding) for the model of get_http_header / parse_mimetype / NameValueRecord.parse; for folded headers '
    'C07_status_mime_partial leaves the interpretation of the field lines to the model of NameValueRecord.parse; in both cases '
    'the Content-Type is compared with the generated response header on the implementation side',
]
ASSUMPTIONS = [
    'the record test of _write_cdx_field (WARC-Type response, Content-Type application/http; msgtype=response) defines "response record"',
    'CDX field values contain no space (URLs are normalised by wpull.url, C10): the harness splits lines at spaces',
    'move_to is not used',
]


def correspondence(ctx):
    return c05.correspondence_for(ctx, 'c07', 200, 2000, 600000, force_cdx=True, only=c05.is_c07, model_limit_thorough=8000000)


def search(ctx, disagreements):
    cases = c05.generate('c07-search', 1500, force_cdx=True)
    results, _ = c05.run_impl(cases)
    viol, _ = c05.evaluate(cases, results)
    return [v for v in viol if c05.is_c07(v)]


def classify(v):
    return c05.classify(v)


def replay(ctx, data):
    return c05.replay_with(data, c05.is_c07)


LEVEL_TEXT = ('Coq theorems (closed under the global context) for EVERY event history, configuration and initial directory of the recorder model: '
              'the byte range noted for every write (offset = file size before, length = growth) holds exactly that encoded record at the end of the '
              'recorder\'s life - across later appends, size-based rollover into numbered files (file names are injective in the sequence number, so a '
              'rollover never truncates a file that already has records), the meta file and appending to existing files (C07_slice_is_record); the CDX '
              'lines are exactly one per record passing the response test, in order, and the CDX file is its earlier content / header followed by '
              'these lines (C07_one_line_per_response); each line\'s file name, offset and length address exactly its record '
              '(C07_line_addresses_its_record); URL, record id, checksum and date are the record\'s fields (C07_fields_agree); for every block that starts '
              'with (interim header blocks and) a header block of LF-terminated lines of any length, the status is the code of the final status line and the '
              'MIME type the token pair of the first Content-Type among its field lines (C07_status_mime_partial, C07_status_code_of_status_line).')
LEVEL_NOTE = ('Histories include failed, rolled-back appends followed by further records (see C05; non-vacuity C07_failed_append_nonvacuous; every run '
              'drives two exchanges in flight where the first response append fails and the next record is the other response). '
              'C07_status_mime_partial is partial: field lines are interpreted by the model of NameValueRecord.parse (unfolding, name normalisation), not by an '
              'independent RFC 7230 grammar; the model of get_http_header / parse_mimetype is evaluated against the real code byte for byte and the '
              'implementation\'s CDX status / MIME are compared with the generated response header (multi-line, LF-only, folded, > 4096 bytes, interim 1xx - also interim and final '
              'header blocks that exceed 32 KiB only together - token characters) on every run. Trusted: Coq kernel + vm_compute; the hand-written model and the harness.')
TECHNIQUE = c05.TECHNIQUE
