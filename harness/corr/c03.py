"""C03 - a killed crawl resumes from its database without loss or refetch.

Proof: coq/Props/C03.v over the crawl-engine LTS (coq/Model/Engine.v) with a crash step enabled in
every state and the restart (release, re-add start URLs, re-read hostnames).
Tie: kill enumeration.  For each small site the REAL application is run once uninterrupted and then,
for EVERY commit index k (killed just before / just after the k-th Session.commit) and EVERY request
index k (killed on receipt / after the response), run with that kill plan (os._exit in the child) and
run again with the same command on the same database.  Both runs' URL-table transactions, the rows
found in the database after the kill and after the second run, and both request logs are replayed
on the model inside Coq (vm_compute, Model/EngineSim.v): run 1 - LCrash - run 2 must be one execution
of the model.  The property clauses are also evaluated directly on the observables."""
import json
from concurrent.futures import ThreadPoolExecutor

from harness.lib import common
from harness.fakes import engine_sim as es
from harness.corr import c01 as c01

PROP = 'C03'
PROP_FILE = 'Props/C03.v'
THEOREMS = [
    'C03_done_not_refetched', 'C03_nothing_lost', 'C03_resume_terminates_final',
    'C03_union_complete_partial', 'C03_union_complete_refuted', 'C03_no_extra_partial', 'C03_resume_same_span',
    'C03_start_urls_never_lost', 'C03_union_complete_one_worker', 'C03_child_batch_size_is_the_source',
]
TRUSTED = c01.TRUSTED + [
    'SQLite (WAL, synchronous=NORMAL) commits are atomic and survive a process kill (os._exit); exercised by the kill runs, '
    'power loss is outside',
    'the kill plans of harness/impl/crawl_run.py (os._exit before/after the k-th Session.commit, on/after the k-th request)',
]
ASSUMPTIONS = c01.ASSUMPTIONS + [
    'the same command line is run again on the same database (same start URLs)',
    'C03_union_complete_partial / C03_no_extra_partial: admission does not depend on the discovery path (path_independent)',
]

HEADER = c01.HEADER


def P(kind, **kw):
    return dict({'kind': kind, 'links': [], 'target': None, 'delay': 0.0, 'code': 200}, **kw)


def L(h, p, inline=False, spelling=None):
    return (h, p, inline, spelling or (p if h == 'h1' else es.canon(h, p)))


def OPTS(**kw):
    o = {'recursive': True, 'preq': False, 'level': None, 'prl': None, 'no_parent': False, 'tries': 1, 'acc': None, 'rej': None,
         'span': False, 'span_preq': False, 'span_linked': False, 'maxredir': None, 'conc': 1}
    o.update(kw)
    return o


def fixed_cases():
    out = []
    # S1: off-host links (F33): without --span-hosts the h2 pages are added and skipped
    pages = {('h1', '/'): P('doc', links=[L('h2', '/b'), L('h1', '/a'), L('h1', '/b')]),
             ('h1', '/a'): P('doc', links=[L('h1', '/c.html'), L('h2', '/k/l'), L('h1', '/')]),
             ('h1', '/b'): P('doc', links=[L('h2', '/b'), L('h1', '/a', spelling='/zz/../a#f')]),
             ('h1', '/c.html'): P('leaf'),
             ('h2', '/b'): P('doc', links=[L('h2', '/k/l', spelling='/k/l')]),
             ('h2', '/k/l'): P('leaf')}
    out.append(('offhost', {'meta': {'pages': pages}, 'opts': OPTS(), 'starts': [('h1', '/')],
                            'start_spellings': [es.canon('h1', '/')]}))
    # S2: redirect, duplicate spellings, requisites
    pages = {('h1', '/'): P('doc', links=[L('h1', '/r1'), L('h1', '/c.html'), L('h1', '/c.html', spelling='HTTP://H1:{PORT}/c.html#x'),
                                          L('h1', '/img/1.png', True)]),
             ('h1', '/r1'): P('redir', code=302, target=('h1', '/d/e'), tspell='/d/e'),
             ('h1', '/d/e'): P('doc', links=[L('h1', '/', spelling='../'), L('h1', '/img/1.png', True, '/img/1.png'), L('h1', '/nope')]),
             ('h1', '/c.html'): P('doc', links=[L('h1', '/d/e', spelling='d/e')]),
             ('h1', '/img/1.png'): P('img')}
    # ... with the database named by --database-uri sqlite:///... (the generic SQLAlchemy table class)
    out.append(('redirect-requisites', {'meta': {'pages': pages}, 'opts': OPTS(preq=True, db_uri=True), 'starts': [('h1', '/')],
                                        'start_spellings': ['HTTP://H1:{PORT}/#top']}))
    # S3: depth limit, 404, two start URLs
    pages = {('h1', '/'): P('doc', links=[L('h1', '/a'), L('h1', '/s')]),
             ('h1', '/a'): P('doc', links=[L('h1', '/b')]),
             ('h1', '/b'): P('doc', links=[L('h1', '/t'), L('h1', '/a')]),
             ('h1', '/t'): P('doc', links=[L('h1', '/u/v')]),
             ('h1', '/s'): P('nodoc', code=404),
             ('h1', '/k/'): P('doc', links=[L('h1', '/b', spelling='../b')])}
    # ... with --convert-links: the kill points include the link-conversion stage that follows the crawl
    out.append(('depth-two-starts', {'meta': {'pages': pages}, 'opts': OPTS(level=2, convert_links=True), 'starts': [('h1', '/'), ('h1', '/k/')],
                                     'start_spellings': [es.canon('h1', '/'), es.canon('h1', '/k/')]}))
    # S4: more start URLs than one input batch (InputURLTask commits the input 1000 lines at a time): 1003 input lines, most of
    # them spellings of the same page; the kill points include the instants between the batches' commits
    pages = {('h1', '/'): P('doc', links=[L('h1', '/a')]),
             ('h1', '/a'): P('leaf'),
             ('h1', '/k/'): P('doc', links=[L('h1', '/a', spelling='../a')]),
             ('h1', '/t2'): P('leaf'),
             ('h1', '/k2/'): P('nodoc', code=404)}
    starts = [('h1', '/')] * 998 + [('h1', '/k/'), ('h1', '/')] + [('h1', '/t2'), ('h1', '/'), ('h1', '/k2/')]
    spell = [es.canon(h, p) + ('#f%d' % i if p == '/' else '') for i, (h, p) in enumerate(starts)]
    out.append(('input-batches', {'meta': {'pages': pages}, 'opts': OPTS(), 'starts': starts, 'start_spellings': spell}))
    # S5: a page with more than 1000 admitted links: the visit commits its children in two batches (one in the middle of the
    # scrape), the kill points include the instants between them and before the check-in
    out.append(('child-batches', c01.case_many_links()))
    return out


# --------------------------------------------------------------------------
def kill_plans(base):
    """every kill point of the uninterrupted run `base`"""
    res = base['runs'][0]['res']
    plans = []
    for k in range(1, (res.get('commits') or 0) + 1):
        plans.append({'kill_at_commit': k})
        plans.append({'kill_after_commit': k})
    for k in range(1, len(res['requests']) + 1):
        plans.append({'kill_at_request': k})
        plans.append({'kill_after_request': k})
    return plans


def quick_selection(plans, si):
    """quick tier: the database state just after commit k is the state just before commit k+1, so killing just BEFORE
    every commit visits every state between two commits; the first site gets every commit and request index, the
    others every second one (the thorough tier runs all four kill modes at every index of every site)"""
    at_c = [p for p in plans if 'kill_at_commit' in p]
    at_r = [p for p in plans if 'kill_at_request' in p]
    af_r = [p for p in plans if 'kill_after_request' in p]
    if si == 0:
        return at_c + at_r
    # ... and every commit of the start-up (release, input batches) of every site
    head = at_c[:8]
    return head + [p for p in at_c[si % 2::2] if p not in head] + (af_r if si % 2 else at_r)[::2]


def property_on_impl(case, base, result):
    """the clauses of C03 on the observables of (killed run, rerun) against the uninterrupted run"""
    out = []
    r1, r2 = result['runs'][0]['res'], result['runs'][1]['res']
    b = base['runs'][0]['res']
    if not r1.get('killed'):
        # the plan did not fire (the run finished first): nothing to check
        return out
    if r2.get('timed_out') or r2.get('exit_code') is None:
        return [{'why': 'rerun-did-not-finish', 'detail': {'rc': r2.get('rc'), 'stderr': r2.get('stderr_tail')}}]
    port = r1.get('port') or r2.get('port')
    pages = case['meta']['pages']
    ref = es.ref_crawl(case, port)
    if ref['failed']:
        return out
    req1 = [(q['host'], q['path']) for q in r1['requests']]
    req2 = [(q['host'], q['path']) for q in r2['requests']]
    breq = [(q['host'], q['path']) for q in b['requests']]
    T = lambda u: u.replace(':%d' % port, ':{PORT}', 1)
    rows1 = {T(r['url']): r for r in r1['rows']}
    rows2 = {T(r['url']): r for r in r2['rows']}
    bport = b.get('port')
    brows = {r['url'].replace(':%d' % bport, ':{PORT}', 1): r for r in b['rows']}
    # (a) done before the kill -> not requested again (redirect hops of other items excepted: C01 F28)
    for t, row in rows1.items():
        if row['status'] in ('done', 'skipped'):
            k = None
            for kk in set(req2):
                if es.canon(*kk) == t:
                    k = kk
            if k is not None:
                hops = sum(req2.count(kk) for kk, pg in pages.items() if pg['kind'] == 'redir' and pg['target'] == k)
                if req2.count(k) > hops:
                    out.append({'why': 'done-url-refetched', 'detail': {'url': t, 'status_at_kill': row['status'],
                                                                       'requests_in_run2': req2.count(k), 'redirect_hops': hops}})
    # (b) nothing lost / stuck
    for t in rows1:
        if t not in rows2:
            out.append({'why': 'row-lost', 'detail': {'url': t}})
    for t, row in rows2.items():
        if row['status'] not in ('done', 'skipped'):
            out.append({'why': 'row-not-final-after-resume', 'detail': {'url': t, 'status': row['status']}})
    # (c) together the runs request what the uninterrupted crawl requests; (d) and nothing else
    both = set(req1) | set(req2)
    # several workers: the uninterrupted crawl itself is schedule dependent (C01 F29); the standard is the one-worker crawl
    expected = set(breq) if case['opts']['conc'] == 1 else set(ref['requests'])
    for k in sorted(expected):
        if k not in both:
            out.append({'why': 'request-missing-after-resume', 'detail': {'url': list(k), 'conc': case['opts']['conc'],
                                                                         'in_table': es.canon(*k) in rows2}})
    for k in sorted(set(req2)):
        if k not in expected and k not in set(breq):
            out.append({'why': 'extra-request-after-resume', 'detail': {
                'url': list(k), 'conc': case['opts']['conc'],
                'host_not_a_start_host': k[0] not in {s[0] for s in case['starts']}}})
    # (e) same final table as the uninterrupted crawl (one worker: the crawl is deterministic)
    if case['opts']['conc'] == 1 and not out:
        proj = lambda rows: sorted((t, r['status'], r['level'], r['inline_level'], r['status_code'], r['try_count']) for t, r in rows.items())
        if proj(rows2) != proj(brows):
            out.append({'why': 'final-table-differs', 'detail': {'resumed': proj(rows2)[:8], 'uninterrupted': proj(brows)[:8]}})
    if r2['exit_code'] != 0:
        out.append({'why': 'exit-status-after-resume', 'detail': {'exit_code': r2['exit_code']}})
    return out


def classify(v):
    why = v.get('why', '')
    d = v.get('detail', {})
    if why == 'extra-request-after-resume' and d.get('host_not_a_start_host'):
        return 'resume-widens-span-hosts'
    if why in ('request-missing-after-resume', 'final-table-differs') and d.get('conc', 1) > 1:
        return 'level-first-discovery'
    return why or 'unclassified'


def run_kills(case, plans, repo, par=6):
    with ThreadPoolExecutor(max_workers=par) as ex:
        return list(ex.map(lambda k: es.run_case(case, repo, kill=k), plans))


def coq_check(items, per=30):
    """items: [(case, result, tag)] -> disagreements"""
    terms, index, dis = [], [], []
    for i, (case, result, tag) in enumerate(items):
        ts, problems, ids = es.coq_case(case, result)
        if problems or not ts:
            dis.append({'case': es.case_to_json(case), 'kill': result.get('kill'), 'note': 'harness could not translate the runs',
                        'problems': problems[:5]})
            continue
        terms.append('(%s)' % ' :: '.join(ts + ['nil']))
        index.append(i)
    bodies = []
    for j in range(0, len(terms), per):
        bodies.append(HEADER + 'Definition checks : list (list nat) := [\n  ' + ';\n  '.join(terms[j:j + per]) +
                      '].\nEval vm_compute in (map (fun l => fold_right Nat.min 1000000%nat l) checks).\n')
    outs = common.coq_eval_many(bodies, par=6)
    for bi, (rc, out) in enumerate(outs):
        vals = common.parse_vm_list(out) if rc == 0 else None
        if vals is None:
            dis.append({'shard': bi, 'coq_error': out[-800:]})
            continue
        for k, v in enumerate(vals):
            if int(v) != 0:
                case, result, tag = items[index[bi * per + k]]
                dis.append({'case': es.case_to_json(case), 'kill': result.get('kill'), 'site': tag,
                            'first_event_not_possible_in_model': int(v),
                            'note': 'killed run + rerun is not an execution of the model'})
    return dis, len(terms)


def pregen(ctx):
    from harness.translate import consts
    return consts.generate(ctx.repo)


def correspondence(ctx):
    r = common.rng('c03')
    cases = fixed_cases()
    n_random = 0 if not ctx.thorough else 60
    if ctx.thorough:
        cases.append(('two-workers-depth-limit', c01.case_f29()))
    for i in range(n_random):
        cases.append(('random-%d' % i, es.gen_case(r, hosts=r.choice([1, 2]), conc=1 if i % 3 else 2,
                                                   n_pages=r.randrange(4, 7 if not ctx.thorough else 10))))
    items = []
    violations = []
    per_site = {}
    fired = 0
    distinct = set()
    for si, (tag, case) in enumerate(cases):
        base = es.run_case(case, ctx.repo)
        plans = kill_plans(base)
        if not ctx.thorough:
            plans = quick_selection(plans, si)
        results = run_kills(case, plans, ctx.repo)
        nf = 0
        for plan, result in zip(plans, results):
            items.append((case, result, tag))
            if result['runs'][0]['res'].get('killed'):
                nf += 1
                rows1 = result['runs'][0]['res']['rows']
                if any(x['status'] == 'in_progress' for x in rows1) or any(x['status'] == 'todo' for x in rows1):
                    distinct.add((tag, json.dumps(plan, sort_keys=True)))
            for v in property_on_impl(case, base, result):
                violations.append(dict(v, case=es.case_to_json(case), kill=plan))
        fired += nf
        per_site[tag] = {'kill_plans': len(plans), 'fired': nf, 'commits': base['runs'][0]['res'].get('commits'),
                         'requests': len(base['runs'][0]['res']['requests']), 'rows': len(base['runs'][0]['res']['rows']),
                         'conc': case['opts']['conc']}
        items.append((case, base, tag))
    dis, n_eval = coq_check(items)
    return {
        'evaluations': n_eval,
        'kills_fired': fired,
        'distinct_nontrivial': len(distinct),
        'exhaustive': 'every commit index (before/after) and every request index (on receipt/after the response) of each listed site'
                      if ctx.thorough else 'first site: every commit index (killed just before it) and every request index; other '
                      'sites: every second index (thorough tier: all four kill modes at every index)',
        'rule': 'kill enumeration: for each site, one uninterrupted run and one (killed run, rerun) pair per kill point; each pair replayed '
                'on the Coq model as one execution with LCrash; non-trivial = distinct (site, kill point) where the kill fired and left '
                'rows todo or in_progress in the database',
        'samples': [dict(site=t, **v) for t, v in list(per_site.items())[:5]],
        'input_distribution': per_site,
        'disagreements': dis,
        'impl_violations': violations,
    }


def search(ctx, disagreements):
    """look for a (site, kill point) on which a clause of the property fails on the implementation:
    the disagreeing pairs themselves, then all four kill modes at every index of the fixed sites,
    then a few generated sites; stops at the first site that yields violations (bounded: ~250 pairs)"""
    r = common.rng('c03-search')
    out = []
    budget = [250]

    def try_case(case, plans):
        plans = plans[:max(0, budget[0])]
        budget[0] -= len(plans)
        if not plans:
            return
        base = es.run_case(case, ctx.repo)
        for plan, result in zip(plans, run_kills(case, plans, ctx.repo)):
            for v in property_on_impl(case, base, result):
                out.append(dict(v, case=es.case_to_json(case), kill=plan))

    seen = {}
    for d in disagreements[:40]:
        if 'case' in d and d.get('kill'):
            key = json.dumps(d['case'], sort_keys=True)
            seen.setdefault(key, (es.case_from_json(d['case']), []))[1].append(d['kill'])
    for case, plans in seen.values():
        try_case(case, plans[:12])
    if out:
        return out
    for tag, case in fixed_cases():
        base = es.run_case(case, ctx.repo)
        try_case(case, kill_plans(base))
        if out or budget[0] <= 0:
            return out
    for i in range(4):
        case = es.gen_case(r, hosts=r.choice([1, 2, 2]), conc=1, n_pages=r.randrange(4, 8))
        base = es.run_case(case, ctx.repo)
        try_case(case, kill_plans(base))
        if out or budget[0] <= 0:
            break
    return out


def replay(ctx, data):
    case = es.case_from_json(data['case'])
    want = data.get('key') or classify(data)
    base = es.run_case(case, ctx.repo)
    for attempt in range(2):
        result = es.run_case(case, ctx.repo, kill=data['kill'])
        vs = property_on_impl(case, base, result)
        if any(classify(v) == want for v in vs):
            return True
    return False


LEVEL_TEXT = (
    'Proved in Coq for EVERY reachable state of the crawl-engine model with a kill enabled in every state (between any two table '
    'transactions or requests), every interleaving and number of workers: a row done/skipped is never modified or requested as an item '
    'again (C03_done_not_refetched); a checked-in row has all children its visit admitted in the table, rows are never removed, the '
    'restart leaves nothing in progress and no in-progress row is ever ownerless (C03_nothing_lost); after a kill every continuation '
    'is finite and ends with all rows done/skipped (C03_resume_terminates_final); the restarted process filters with the span-hosts '
    'list of a fresh crawl (C03_resume_same_span, after the F33 repair); start-up commits the input in batches and may be killed '
    'between two of them, yet whenever the crawl proper runs every start URL has its row (C03_start_urls_never_lost). The union clause is proved only for path-independent '
    'admission (C03_union_complete_partial, C03_no_extra_partial: every schedule and kill history); the full clause is refuted for '
    'several workers by a vm_compute witness (C03_union_complete_refuted = known finding level-first-discovery); for ONE worker the full clause is proved with no guard '
    '(C03_union_complete_one_worker: any interleaving of producer and worker, any kill history, admission depending on the recorded '
    'level / parent / root - the table of a one-worker crawl is the breadth-first list, Proofs/EngineBfs.v), so the only case left '
    'outside is the one the refutation shows to be false.')
LEVEL_NOTE = (
    'Trusted: Coq kernel + vm_compute; the hand-written LTS, tied to the code by replaying (killed run, rerun) traces of the real '
    'application for every commit/request kill point of the listed sites; SQLite atomic durable commits under process kill; the '
    'kill plans. One listed site runs with the database named by --database-uri (generic SQLAlchemy table class), one with --convert-links, '
    'whose kill points extend into the link-conversion stage that follows the crawl (the conversion stage itself is not in the model: only '
    'that it requests nothing and leaves the URL rows alone is observed); one has 1003 input lines, so that the start-up commits two input '
    'batches and kills fall between them (LAddBatch in the model). '
    'One listed site has a page with 1003 admitted links, so that the visit commits its children in two batches (flush in the model). '
    'Not modelled: robots.txt, cookies, FTP, WARC/file output of the interrupted item.')
TECHNIQUE = ('Coq invariants over an LTS with a crash step (all crash points, all interleavings); vm_compute trace replay of '
             'exhaustively enumerated kill/rerun pairs of the real application')
